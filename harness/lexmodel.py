"""Python side of the lexer model (L1): request builders / response parsers for the `lex` driver op, and a
passive probe around the real `mako.lexer.Lexer`.

Used by C01; meant to be reused by C11 (error positions), C20 (message extraction) and C02 (scanner).

Model token (parsed): dict(kind, start, stop, lineno, pos, + payload fields)
  kind T text      : content
       E expr      : text, escapes
       C ctl       : keyword, isend, text
       M comment   : text
       P code      : raw (text between `<%`/`<%!` and `%>`, *before* adjust_whitespace), ismodule
       O tagOpen   : keyword, attrs (list of (key, value) in findall order), selfclose
       K tagClose  : keyword                                   (ghost: no node in the real tree)
       G coding / N cont / S skipped                           (ghost)
"""
from __future__ import annotations

import sys
import traceback

from harness.common import enc, dec

GHOST = {"K", "G", "N", "S"}


# --------------------------------------------------------------------------- requests

def req_full(s, cfg="c"):
    return "lex full %s %s" % (cfg, enc(s))


def enc_stack(xs):
    return "-" if not xs else ";".join(enc(x) for x in xs)


def req_matcher(name, s, p, tags=(), ctls=(), cfg="c"):
    return "lex m %s %s %s %d %s %s" % (name, cfg, enc(s), p, enc_stack(tags), enc_stack(ctls))


def req_until(which, s, p):
    return "lex until %s %s %d" % (which, enc(s), p)


# --------------------------------------------------------------------------- responses

def parse_tok(fields):
    k = fields[0]
    t = {"kind": k, "start": int(fields[1]), "stop": int(fields[2]), "lineno": int(fields[3]), "pos": int(fields[4])}
    f = fields[5:]
    if k == "T":
        t["content"] = dec(f[0])
    elif k == "E":
        t["text"], t["escapes"] = dec(f[0]), dec(f[1])
    elif k == "C":
        t["keyword"], t["isend"], t["text"] = dec(f[0]), f[1] == "1", dec(f[2])
    elif k == "M":
        t["text"] = dec(f[0])
    elif k == "P":
        t["raw"], t["ismodule"] = dec(f[0]), f[1] == "1"
    elif k == "O":
        t["keyword"], t["selfclose"] = dec(f[0]), f[1] == "1"
        n = int(f[2])
        t["attrs"] = [(dec(f[3 + 2 * i]), dec(f[4 + 2 * i])) for i in range(n)]
    elif k == "K":
        t["keyword"] = dec(f[0])
    return t


def parse_toks(txt):
    txt = txt.strip()
    if txt == "-" or txt == "":
        return []
    return [parse_tok(part.split(" ")) for part in txt.split(" ; ")]


def parse_stack(f):
    return [] if f == "-" else [dec(x) for x in f.split(";")]


def parse_full(resp):
    """-> dict(outcome='ok'|'error'|'fuel', kind, lineno, pos, iters, toks)"""
    head, _, toks = resp.partition(" | ")
    h = head.split(" ")
    r = {"outcome": h[0], "toks": parse_toks(toks)}
    if h[0] == "ok":
        r["iters"] = int(h[1])
    elif h[0] == "error":
        r["kind"], r["lineno"], r["pos"], r["iters"] = h[1], int(h[2]), int(h[3]), int(h[4])
    elif h[0] == "fuel":
        r["iters"] = int(h[1])
    else:
        raise ValueError("bad lex response: " + resp[:200])
    return r


def parse_mres(resp):
    """-> dict(res='no'|'yes'|'fell'|'err'|'fuel', state…, toks)"""
    if resp in ("no", "fuel"):
        return {"res": resp}
    head, _, toks = resp.partition(" | ")
    h = head.split(" ")
    r = {"res": h[0], "toks": parse_toks(toks)}
    if h[0] == "err":
        r["kind"], r["elineno"], r["epos"] = h[1], int(h[2]), int(h[3])
        h = h[3:]
    r["pos"], r["lineno"], r["mlineno"], r["mcharpos"] = int(h[1]), int(h[2]), int(h[3]), int(h[4])
    r["tags"], r["ctls"] = parse_stack(h[5]), parse_stack(h[6])
    return r


def model_nodes(toks, adjust=None):
    """canonical node list of the model: the node tokens, in order, each with the tag depth it is appended at.
    `adjust` = mako.pygen.adjust_whitespace (applied to the raw text of code tokens, as match_python_block does)"""
    out = []
    depth = 0
    for t in toks:
        k = t["kind"]
        if k == "K":
            depth -= 1
            continue
        if k in GHOST:
            continue
        if k == "T":
            n = ("Text", t["lineno"], t["pos"], depth, t["content"])
        elif k == "E":
            n = ("Expression", t["lineno"], t["pos"], depth, t["text"], t["escapes"])
        elif k == "C":
            n = ("ControlLine", t["lineno"], t["pos"], depth, t["keyword"], t["isend"], t["text"])
        elif k == "M":
            n = ("Comment", t["lineno"], t["pos"], depth, t["text"])
        elif k == "P":
            txt = t["raw"]
            if adjust is not None:
                try:
                    txt = adjust(txt) + "\n"
                except Exception as e:  # pragma: no cover
                    txt = "<adjust_whitespace raised %s>" % type(e).__name__
            n = ("Code", t["lineno"], t["pos"], depth, txt, t["ismodule"])
        elif k == "O":
            d = {}
            for a, b in t["attrs"]:
                d[a] = b
            n = ("Tag", t["lineno"], t["pos"], depth, t["keyword"], tuple(sorted(d.items())))
            if not t["selfclose"]:
                depth += 1
        else:
            raise ValueError(k)
        out.append(n)
    return out


# --------------------------------------------------------------------------- probe around the real lexer

ERR_PATTERNS = [
    ("expected", "Expected: "),
    ("unclosed-tag", "Unclosed tag: "),
    ("closing-without-opening", "Closing tag without opening tag"),
    ("closing-mismatch", "Closing tag </%"),
    ("invalid-control-line", "Invalid control line"),
    ("no-starting-keyword", "No starting keyword"),
    ("keyword-mismatch", "doesn't match keyword"),
    ("illegal-ternary", "not a legal ternary"),
    ("unterminated-control", "Unterminated control keyword"),
    ("assertion-failed", "assertion failed"),
]


def err_kind(msg):
    for k, pat in ERR_PATTERNS:
        if pat in msg:
            return k
    return "unknown"


_probe_cls = None


def probe_class():
    """subclass of the real Lexer that *records* every append_node call (class, args, coordinates, tag depth)
    before passing it on unchanged"""
    global _probe_cls
    if _probe_cls is None:
        from mako.lexer import Lexer

        class Probe(Lexer):
            def __init__(self, text, **kw):
                super().__init__(text, **kw)
                self.node_log = []
                self.in_append = False

            def append_node(self, nodecls, *args, **kwargs):
                ln = kwargs.get("lineno", self.matched_lineno)
                ps = kwargs.get("pos", self.matched_charpos)
                self.node_log.append((nodecls.__name__, ln, ps, len(self.tag)) + tuple(
                    tuple(sorted(a.items())) if isinstance(a, dict) else a for a in args))
                self.in_append = True
                r = super().append_node(nodecls, *args, **kwargs)
                self.in_append = False
                return r
        _probe_cls = Probe
    return _probe_cls


def impl_lex(s, preprocessor=None):
    """run the real lexer on `s` (optionally with preprocessors).  -> dict(outcome='ok'|'lexer-error'|'ctor-error'|
    'foreign-error', nodes=[…], cls, lineno, pos, msg, kind)"""
    from mako import exceptions
    P = probe_class()
    lx = P(s, preprocessor=preprocessor) if preprocessor is not None else P(s)
    try:
        tree = lx.parse()
        return {"outcome": "ok", "nodes": lx.node_log, "tree": tree}
    except Exception as e:
        tb = traceback.extract_tb(sys.exc_info()[2])
        inner = tb[-1].filename if tb else ""
        r = {"nodes": lx.node_log, "cls": type(e).__name__, "msg": str(e)[:200],
             "lineno": getattr(e, "lineno", None), "pos": getattr(e, "pos", None),
             "in_append": lx.in_append, "where": "%s:%s" % (inner.rsplit("/", 1)[-1], tb[-1].name if tb else "")}
        if not isinstance(e, exceptions.MakoException):
            r["outcome"] = "foreign-error"
        elif inner.endswith("lexer.py"):
            r["outcome"] = "lexer-error"
            r["kind"] = err_kind(str(e))
        else:
            r["outcome"] = "ctor-error"
        return r


def compare_full(impl, model, adjust):
    """None when the model's answer agrees with the implementation's, else a short description"""
    mn = model_nodes(model["toks"], adjust)
    inodes = impl["nodes"]
    if model["outcome"] == "fuel":
        return "model ran out of fuel"
    if impl["outcome"] == "ok":
        if model["outcome"] != "ok":
            return "impl ok, model %s %s" % (model["outcome"], model.get("kind"))
        if mn != inodes:
            return "node lists differ"
        return None
    if impl["outcome"] == "lexer-error":
        if model["outcome"] != "error":
            return "impl raised %s (%s), model %s" % (impl["cls"], impl["msg"], model["outcome"])
        if (model["lineno"], model["pos"]) != (impl["lineno"], impl["pos"]):
            return "error position differs: impl (%s,%s) model (%s,%s)" % (impl["lineno"], impl["pos"],
                                                                           model["lineno"], model["pos"])
        if impl["kind"] != "unknown" and impl["kind"] != model["kind"]:
            return "error kind differs: impl %s model %s" % (impl["kind"], model["kind"])
        want_cls = "MakoException" if model["kind"] == "assertion-failed" else "SyntaxException"
        if impl["cls"] != want_cls:
            return "exception class %s, expected %s" % (impl["cls"], want_cls)
        if mn != inodes:
            return "node lists before the error differ"
        return None
    # constructor-level (or foreign) error: prefix agreement
    if mn[:len(inodes)] != inodes:
        return "node prefix differs (impl raised %s from %s)" % (impl["cls"], impl["where"])
    if (impl["outcome"] == "ctor-error" and impl["in_append"] and inodes
            and not impl["where"].startswith("pyparser.py")):
        # (errors found by the Python parser are reported on the line of the fault inside the construct: C11)
        last = inodes[-1]
        if impl["lineno"] is not None and (impl["lineno"], impl["pos"]) != (last[1], last[2]):
            return "constructor error reported at (%s,%s), failing node is at (%s,%s)" % (
                impl["lineno"], impl["pos"], last[1], last[2])
    return None
