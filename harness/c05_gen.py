"""C05 generator: templates from the property's grammar with MEANINGFUL call structures.

Extends harness/gen_template.py (same tree grammar, same invariants: unique binder names, no recursion, `loop`
only directly in a `% for` of the same scope, no `<%def>`-only control suites).  What is different:

  * a def that uses `caller` ("wrapper") has a *contract*: the arity of `caller.body(…)` and the nested defs
    `caller.d<N>(…)` it asks for (ids reserved when the callee is written); every `<%call>` of it supplies body
    args of that arity and - the first one - the nested defs with exactly those ids (ids stay unique over the set);
  * defs called by name / capture / inside concatenations are "leaf" defs (no `caller`): a call without content
    of a wrapper is an AttributeError in mako and in the reference alike, and uninteresting;
  * wrappers get the pattern  caller.body() - call of another def (plain / buffered / FILTER-ONLY / decorated /
    cached) - caller.body()  planted, call bodies get a variable read and a `caller` use planted, calls nest in
    call bodies up to `max_call_depth`;
  * flags are drawn from profiles so that filter-only, buffered, decorated defs are all frequent;
  * a quarter of the templates get a block planted at the top of the template body (named half of the time): the
    weighted choice of constructs puts most blocks deeper, where they are anonymous.

`features(bodies)` finds the code-generation quirks of this property (each is a *feature* of the tree);
`sanitize(bodies, allow)` neutralises those whose knob is off, so that the main streams stay clear of the RECORDED
ones and a dedicated stream per quirk finds it on its own; the features in `REPAIRED` are never neutralised (their
streams are regression detectors).  `refinement_constructs(bodies)` counts the constructs the Lean refinement covers
beyond plain defs and calls (blocks, includes, defs of a <%call> below control lines / in nested <%call>s, cached defs).
"""
from __future__ import annotations

import copy

from harness import gen_template as G

FEATURES = ("call-in-call-expr-args", "return-in-buffering-def", "caller-in-def-nested-in-call",
            "decorated-def-in-call", "nested-call-def-reached-by-outer-callee")
# features whose defect was repaired in /repo (0522f73, d4e81ab, 4a9e6c6): the generator no longer keeps away from them -
# they are part of the main streams - and a violation they explain is NOT a recorded finding any more; their dedicated
# streams stay as regression streams (a revert of the fix is found there first)
REPAIRED = ("caller-in-def-nested-in-call", "decorated-def-in-call", "nested-call-def-reached-by-outer-callee")


class Knobs(G.Knobs):
    def __init__(self, **kw):
        self.max_call_depth = 4
        self.p_ws_lit = 0.2               # whitespace-only literals (attribute mixtures)
        self.p_pattern = 0.6              # wrappers: body - other def - body again
        self.allow = ()                   # quirk features (FEATURES) that are NOT neutralised
        self.force = None                 # quirk feature to plant (dedicated streams)
        self.p_empty_body = 0.08
        base = dict(
            max_depth=6, max_body=4, budget=44, templates=(1, 1), p_boom=0.1, p_flag=0.4,
            constructs={"text": 5, "expr": 6, "if": 1.5, "for": 2, "while": 0.25, "try": 0.4, "def": 2.2,
                        "block": 0.5, "call": 5, "texttag": 0.3, "inc": 0.6, "ret": 0.12, "brk": 0.2,
                        "cont": 0.1})
        base.update(kw)
        G.Knobs.__init__(self, **base)
        self.allow = tuple(self.allow) + tuple(f for f in REPAIRED if f not in self.allow)
        self.ret_in_buffered = "return-in-buffering-def" in self.allow
        self.caller_in_call_expr = "call-in-call-expr-args" in self.allow


PROFILES = [
    (4, {}), (2.2, {"buffered": True}), (2.6, {"filters": 1}), (1.2, {"deco": True}), (0.8, {"cached": True}),
    (0.8, {"buffered": True, "filters": 1}), (0.5, {"filters": 2}), (0.4, {"buffered": True, "deco": True}),
    (0.4, {"filters": 1, "deco": True}), (0.3, {"buffered": True, "cached": True}), (0.3, {"filters": 1, "cached": True}),
]


class Gen(G.Gen):
    def __init__(self, rng, knobs=None):
        G.Gen.__init__(self, rng, knobs or Knobs())

    # ---- small things
    def lit(self):
        r = self.rng
        if r.random() < self.k.p_ws_lit:
            return " " * r.randint(1, 2)
        return G.Gen.lit(self)

    def flags(self, allow=True):
        r = self.rng
        if not allow:
            return G.FL()
        tot = sum(w for w, _ in PROFILES)
        x = r.random() * tot
        prof = {}
        for w, p in PROFILES:
            x -= w
            if x <= 0:
                prof = p
                break
        return G.FL(buffered=prof.get("buffered", False),
                    filters=[r.randrange(6) for _ in range(prof.get("filters", 0))],
                    cached=prof.get("cached", False), deco=prof.get("deco", False))

    def leafs(self, sc):
        return [d for d in sc.defs if not self.info[d]["uses_caller"]]

    def wrappers(self, sc):
        """wrappers a <%call> may pick: those whose nested defs are not supplied yet, or that ask for none"""
        return [d for d in sc.defs if self.info[d]["uses_caller"]
                and (not self.info[d]["wants"] or not self.info[d]["supplied"])]

    # ---- expressions
    def caller_expr(self, sc, depth=1):
        r = self.rng
        c = sc.contract
        if c is None:
            return ["lit", self.lit()]
        if r.random() < 0.68 or sc.depth >= self.k.max_depth:
            return ["caller", 0, [self.expr(sc, depth + 1, True) for _ in range(c["body_arity"])]]
        wants = c["wants"]
        if wants and (len(wants) >= 2 or r.random() < 0.5):
            name = r.choice(sorted(wants))
        else:
            name = self.fresh_def()
            wants[name] = r.choice([0, 0, 1])
            self.info[name] = {"arity": wants[name], "uses_caller": False, "wants": {}, "supplied": False,
                               "body_arity": 0, "reserved": True}
        return ["caller", name, [self.expr(sc, depth + 1, True) for _ in range(wants[name])]]

    def call_form(self, sc, d, depth):
        """a call of leaf def d in one of the forms of the property: by name, capture, inside a concatenation,
        as an argument of another call"""
        r = self.rng
        args = self.args_for(sc, d, depth)
        form = r.choice(["name", "name", "name", "capture", "cat", "cat3", "arg"])
        call = ["call", d, args]
        if form == "capture":
            return ["capture", d, args]
        if form == "cat":
            return ["cat", ["lit", self.lit()], call] if r.random() < 0.5 else ["cat", call, ["lit", self.lit()]]
        if form == "cat3":
            return ["cat", ["cat", ["lit", self.lit()], call], ["lit", self.lit()]]
        if form == "arg" and depth < 2:
            outer = [x for x in self.leafs(sc) if self.info[x]["arity"] >= 1]
            if outer:
                o = r.choice(outer)
                oargs = self.args_for(sc, o, depth + 1)
                oargs[r.randrange(len(oargs))] = call
                return ["call", o, oargs]
        return call

    def expr(self, sc, depth=0, small=False, want_call=None):
        r = self.rng
        if want_call is not None:
            return ["call", want_call, self.args_for(sc, want_call, depth)]
        choices = ["atom"] * 4
        in_args = sc.in_call_expr and "call-in-call-expr-args" not in self.k.allow
        leafs = self.leafs(sc)
        if depth < 2:
            choices += ["cat", "filt"]
            if leafs and not in_args:
                choices += ["call", "call", "call"]
            if sc.in_def and getattr(sc, "contract", None) is not None and not in_args \
                    and not (sc.in_block and not self.k.caller_in_block):
                choices += ["caller", "caller"]
        if sc.loopctx and not (sc.in_call_expr and not self.k.loop_in_call_expr):
            choices += ["loopindex", "loopindex"]
        if small:
            choices += ["atom"] * 5
        k = r.choice(choices)
        if k == "atom":
            return self.atom(sc)
        if k == "cat":
            # left-nested chains (the shape of an attribute mixture)
            e = self.expr(sc, depth + 1, True)
            for _ in range(r.choice([1, 1, 2])):
                e = ["cat", e, self.expr(sc, depth + 1, True)]
            return e
        if k == "filt":
            return ["filt", r.randrange(6), self.expr(sc, depth + 1, True)]
        if k == "call":
            return self.call_form(sc, r.choice(leafs), depth)
        if k == "caller":
            return self.caller_expr(sc, depth)
        if k == "loopindex":
            return ["loopindex"]
        raise AssertionError(k)

    # ---- nodes
    def pick_kind(self, sc):
        saved = self.k.constructs
        c = dict(saved)
        cd = getattr(sc, "call_depth", 0)
        if cd >= self.k.max_call_depth or not (self.wrappers(sc) or self.leafs(sc)):
            c.pop("call", None)
        elif cd >= 1:
            c["call"] = c.get("call", 0) * 1.6
        self.k.constructs = c
        try:
            return G.Gen.pick_kind(self, sc)
        finally:
            self.k.constructs = saved

    def gen_block(self, sc):
        # a block is a callable of its own (called without content): no `caller` below it
        return G.Gen.gen_block(self, sc.sub(in_def=False, contract=None))

    def gen_def(self, sc, exported_into=None, name=None, nparams=None, role=None):
        r = self.rng
        reserved = name is not None
        if name is None:
            name = self.fresh_def()
        if nparams is None:
            nparams = r.choice([0, 0, 1, 1, 2])
        params = [self.fresh_var() for _ in range(nparams)]
        fl = self.flags()
        if getattr(sc, "in_call_tag", False) and "decorated-def-in-call" not in self.k.allow:
            fl["deco"] = False
        if role is None:
            role = "wrapper" if r.random() < 0.5 else "leaf"
        contract = {"body_arity": r.choice([0, 0, 0, 1, 1, 2]), "wants": {}} if role == "wrapper" else None
        s2 = sc.sub(depth=sc.depth + 1, in_def=role == "wrapper", in_block=False, in_loop=False, loopctx=False,
                    top=False, buffering=fl["buffered"] or fl["cached"] or bool(fl["filters"]), in_call_expr=False,
                    contract=contract, call_depth=0, in_call_tag=False)
        s2.vars = [v for v in sc.vars if v in self._param_vars and v not in sc.bargs] + params
        s2.bargs = set()
        self._param_vars.update(params)
        body = self.body(s2)
        if role == "wrapper":
            self.plant_wrapper(s2, body)
        if not body:
            body.append(["text", self.text()])
        uses = G._uses_caller(body)
        self.info[name] = {"arity": len(params), "uses_caller": uses, "wants": dict(contract["wants"]) if contract else {},
                           "supplied": False, "body_arity": contract["body_arity"] if contract else 0,
                           "flags": fl, "reserved": reserved}
        sc.defs.append(name)
        return ["def", name, params, fl, body]

    def plant_wrapper(self, s2, body):
        """make sure the wrapper uses `caller`; plant  body - other def - body again"""
        r = self.rng

        def use():
            return ["expr", ["caller", 0, [self.expr(s2, 2, True) for _ in range(s2.contract["body_arity"])]], []]
        if r.random() < self.k.p_pattern:
            others = self.leafs(s2)
            # prefer the kinds of callee whose frame/buffer handling differs
            mid = None
            if others:
                d = r.choice(others)
                mid = ["expr", self.call_form(s2, d, 1), []]
            elif self.wrappers(s2) and getattr(s2, "call_depth", 0) < self.k.max_call_depth:
                mid = self.gen_call(s2)
            seq = [use()] + ([mid] if mid else [["text", self.text()]]) + [use()]
            kind = r.choice(["plain", "plain", "for", "if"])
            if kind == "for":
                v = self.fresh_var()
                seq = [fix_loop(["for", v, [["lit", self.lit()] for _ in range(r.choice([1, 2, 2, 3]))], seq])]
            elif kind == "if":
                seq = [["if", ["lit", r.choice(["p", "", "q"])], seq, [use()] if r.random() < 0.5 else []]]
            pos = r.randint(0, len(body))
            body[pos:pos] = seq
        elif not G._uses_caller(body):
            body.insert(r.randint(0, len(body)), use())

    def gen_call(self, sc):
        r = self.rng
        ws = self.wrappers(sc)
        leafs = self.leafs(sc)
        if ws and (not leafs or r.random() < 0.92):
            callee = r.choice(ws)
        elif leafs:
            callee = r.choice(leafs)      # a call with content of a def that ignores its caller
        else:
            return ["text", self.text()]
        info = self.info[callee]
        se = sc.sub(in_call_expr=True)
        e = ["call", callee, self.args_for(se, callee, 0)]
        x = r.random()
        if x < 0.07:
            e = ["cat", ["lit", self.lit()], e]
        elif x < 0.10:
            e = ["capture", callee, e[2]]
        bargs = [self.fresh_var() for _ in range(info["body_arity"])]
        cd = getattr(sc, "call_depth", 0) + 1
        s2 = sc.sub(depth=sc.depth + 1, in_loop=False, loopctx=False, top=False, buffering=False, in_block=False,
                    call_depth=cd, in_call_expr=False, in_call_tag=True)
        s2.vars = list(sc.vars) + bargs
        s2.bargs = set(bargs)
        self._param_vars.update(bargs)
        nested = []
        if info["wants"] and not info["supplied"]:
            info["supplied"] = True
            for nid, arity in sorted(info["wants"].items()):
                sd = sc.sub(depth=sc.depth + 1, top=False, in_call_tag=True)
                allow8 = "caller-in-def-nested-in-call" in self.k.allow
                nd = self.gen_def(sd, name=nid, nparams=arity, role="wrapper" if allow8 and r.random() < 0.5 else "leaf")
                self.budget -= 1
                nested.append(nd)
                s2.defs.append(nid)
        elif r.random() < 0.15 and sc.depth + 1 < self.k.max_depth and not sc.in_block:
            # a def of the call that the callee does not ask for: callable by name from the body
            sd = sc.sub(depth=sc.depth + 1, top=False, in_call_tag=True)
            nd = self.gen_def(sd)
            self.budget -= 1
            nested.append(nd)
            s2.defs.append(nd[1])
        if r.random() < self.k.p_empty_body and not nested:
            return ["call", e, bargs, []]
        body = self.body(s2)
        # "body … run in the calling scope": a variable of the calling scope and its `caller` are used inside
        if s2.vars and r.random() < 0.5:
            body.insert(r.randint(0, len(body)), ["expr", ["var", r.choice(s2.vars)], []])
        if sc.in_def and getattr(sc, "contract", None) is not None and r.random() < 0.6 and not sc.in_block:
            body.insert(r.randint(0, len(body)), ["expr", self.caller_expr(s2, 1), []])
        body = nested + body
        r.shuffle(body)
        return ["call", e, bargs, body]

    def template(self, index, includable):
        self.includable = includable
        self.budget = self.k.budget if index == 0 else max(6, self.k.budget // 3)
        self._param_vars = set()
        sc = G._Scope(top=True, contract=None, call_depth=0, in_call_tag=False)
        r = self.rng
        body = []
        if "def" in self.k.constructs:
            roles = ["leaf"] * r.choice([1, 1, 2, 3]) + ["wrapper"] * r.choice([1, 2, 2, 3])
            if index > 0:
                roles = roles[:2]
            # leafs first more often than not: wrappers can then call them
            r.shuffle(roles)
            if r.random() < 0.6:
                roles.sort(key=lambda x: x != "leaf")
            for role in roles:
                self.budget -= 1
                body.append(self.gen_def(sc, role=role))
        rest = self.body(sc, r.randint(2, self.k.max_body + 2))
        called = G._called_defs(rest)
        for dnode in body:
            d = dnode[1]
            if d in called:
                continue
            self.budget += 3
            if self.info[d]["uses_caller"]:
                if self.info[d]["wants"] and self.info[d]["supplied"]:
                    continue
                keep = sc.defs
                sc.defs = [d] + self.leafs(sc)
                node = self.gen_call(sc)
                sc.defs = keep
                if r.random() < 0.3:
                    v = self.fresh_var()
                    node = fix_loop(["for", v, [["lit", self.lit()] for _ in range(r.choice([1, 2, 3]))], [node]])
                rest.insert(r.randint(0, len(rest)), node)
            else:
                rest.insert(r.randint(0, len(rest)), ["expr", self.call_form(sc, d, 0), []])
        if self.k.constructs.get("block") and r.random() < 0.25:
            # a block of the template body itself (named ones are module-level callables rendered in place): the
            # weighted choice puts most blocks deeper
            self.budget = max(self.budget, 4)
            rest.insert(r.randint(0, len(rest)), self.gen_block(sc))
        body = body + rest
        if index == 0:
            r.shuffle(body)
        return body

    def template_set(self):
        bodies = G.Gen.template_set(self)
        if self.k.force:
            plant(self, bodies, self.k.force)
        return sanitize(bodies, self.k.allow)


def fix_loop(node):
    """a `% for` built by hand: when `loop` is mentioned only inside a nested def / <%call> body below it, mako
    mangles the `for` without a LoopStack in scope (NameError '__M_loop', C03's matter) - reference it in the
    scope itself, as gen_template.Gen.node does"""
    from harness.ref_render import _mentions_loop_deep
    if _mentions_loop_deep(node) and not G._mentions_loop_scope(node[3]) \
            and not any(G._ex_mentions_loop(e) for e in node[2]):
        node[3].append(["expr", ["loopindex"], []])
    return node


def suites_ok(body):
    """no control-line suite made of <%def>s only (mako emits nothing in place of a def: empty Python suite)"""
    for n in body:
        k = n[0]
        for slot in G.BODY_SLOTS.get(k, ()):
            sub = n[slot]
            if k in ("if", "for", "while", "try") and sub and all(c[0] == "def" for c in sub):
                return False
            if not suites_ok(sub):
                return False
    return True


def wellformed(bodies):
    """the generator's invariants that tree reduction could break"""
    return all(loops_ok(b) and suites_ok(b) for b in bodies)


def loops_ok(body, in_for=False):
    """the generator's `loop` invariant (shrinking must not leave it): `loop.index` only below a `% for` of the same
    callable scope, and every `% for` that mako mangles has a LoopStack in its scope"""
    from harness.ref_render import _mentions_loop_deep
    for n in body:
        k = n[0]
        if k == "expr":
            if G._ex_mentions_loop(n[1]) and not in_for:
                return False
        elif k == "if":
            if G._ex_mentions_loop(n[1]) and not in_for:
                return False
            if not loops_ok(n[2], in_for) or not loops_ok(n[3], in_for):
                return False
        elif k == "for":
            if any(G._ex_mentions_loop(e) for e in n[2]) and not in_for:
                return False
            if _mentions_loop_deep(n) and not in_for and not G._mentions_loop_scope(n[3]) \
                    and not any(G._ex_mentions_loop(e) for e in n[2]):
                return False
            if not loops_ok(n[3], True):
                return False
        elif k in ("while", "try"):
            for slot in G.BODY_SLOTS[k]:
                if not loops_ok(n[slot], in_for):
                    return False
        elif k in ("def", "block"):
            if not loops_ok(n[4], False):
                return False
        elif k == "call":
            if G._ex_mentions_loop(n[1]) or not loops_ok(n[3], False):
                return False
    return True


# --------------------------------------------------------------------------------------------- quirk features

def _map_ex(e, f):
    """rebuild expression e bottom-up; f(sub-expression) -> replacement | None"""
    k = e[0]
    if k == "cat":
        e = ["cat", _map_ex(e[1], f), _map_ex(e[2], f)]
    elif k == "filt":
        e = ["filt", e[1], _map_ex(e[2], f)]
    elif k in ("call", "capture", "caller"):
        e = [k, e[1], [_map_ex(a, f) for a in e[2]]]
    r = f(e)
    return e if r is None else r


def _any_ex(e, pred):
    found = []

    def f(x):
        if pred(x):
            found.append(x)
        return None
    _map_ex(e, f)
    return bool(found)


def _is_callish(e):
    return e[0] in ("call", "capture", "caller")


def _call_expr_arg_sites(e):
    """does the expression of a <%call> evaluate a def / caller call inside the argument list of its callee?"""
    k = e[0]
    if k == "cat":
        return _call_expr_arg_sites(e[1]) or _call_expr_arg_sites(e[2])
    if k in ("call", "capture", "caller"):
        return any(_any_ex(a, _is_callish) for a in e[2])
    if k == "filt":
        return _any_ex(e[2], _is_callish)
    return False


def _neutral_call_expr(e):
    k = e[0]
    if k == "cat":
        return ["cat", _neutral_call_expr(e[1]), _neutral_call_expr(e[2])]
    if k in ("call", "capture", "caller"):
        return [k, e[1], [_map_ex(a, lambda x: ["lit", "r"] if _is_callish(x) else None) for a in e[2]]]
    if k == "filt":
        return ["filt", e[1], _map_ex(e[2], lambda x: ["lit", "r"] if _is_callish(x) else None)]
    return e


def _neutral_caller_scope(body):
    """replace every `caller.x()` of this callable's own scope (not nested defs, not <%call> bodies … those belong
    to the scope too in Python terms, but mako's `caller` mention test does not look there) by a literal"""
    def fix(e):
        return _map_ex(e, lambda x: ["lit", "q"] if x[0] == "caller" else None)
    for n in body:
        k = n[0]
        if k == "expr":
            n[1] = fix(n[1])
        elif k == "if":
            n[1] = fix(n[1])
            _neutral_caller_scope(n[2])
            _neutral_caller_scope(n[3])
        elif k == "for":
            n[2] = [fix(e) for e in n[2]]
            _neutral_caller_scope(n[3])
        elif k == "while":
            _neutral_caller_scope(n[2])
        elif k == "try":
            _neutral_caller_scope(n[1])
            _neutral_caller_scope(n[2])
        elif k == "block":
            _neutral_caller_scope(n[4])
        elif k == "call":
            n[1] = fix(n[1])


def _scope_uses_caller(body):
    """`'caller' in undeclared` of one scope as mako's _Identifiers computes it (Codegen/Model.lean `usesCaller`):
    own expressions, control lines, the content of blocks, <%call expr>; not nested defs, not <%call> bodies"""
    for n in body:
        k = n[0]
        if k == "expr" and G._ex_uses_caller(n[1]):
            return True
        if k == "if" and (G._ex_uses_caller(n[1]) or _scope_uses_caller(n[2]) or _scope_uses_caller(n[3])):
            return True
        if k == "for" and (any(G._ex_uses_caller(e) for e in n[2]) or _scope_uses_caller(n[3])):
            return True
        if k == "while" and _scope_uses_caller(n[2]):
            return True
        if k == "try" and (_scope_uses_caller(n[1]) or _scope_uses_caller(n[2])):
            return True
        if k == "block" and _scope_uses_caller(n[4]):
            return True
        if k == "call" and G._ex_uses_caller(n[1]):
            return True
    return False


def lexical_caller_defs(body):
    """the def nodes that see the `caller` PARAMETER of an enclosing `ccall(caller)` instead of the caller of their
    own call: written inside a <%call>, using `caller`, while the scope around already knows the name `caller`
    (follows Codegen/Model.lean: Scope.cd / Scope.bind, subScope, effLex, callDefs)"""
    found = []

    def sub(cd, bind_in, dbody):
        uses = _scope_uses_caller(dbody)
        own = uses and not cd
        return (cd or uses, False if own else bind_in), (False if own else bind_in), uses

    def scope(nodes, cd, bind, skip_defs=False):
        """nodes of one Python function scope (control structure flattened); `skip_defs`: the scope is the body
        of a <%call> - its defs (at any control depth) are written into ccall, not into body()"""
        for n in nodes:
            k = n[0]
            if k in ("if", "for", "while", "try"):
                for slot in G.BODY_SLOTS[k]:
                    scope(n[slot], cd, bind, skip_defs)
            elif k == "def" and skip_defs:
                continue
            elif k in ("def", "block"):
                s, lex, uses = sub(cd, bind, n[4])
                if lex and uses and k == "def":
                    found.append(n)
                scope(n[4], s[0], s[1])
            elif k == "call":
                call_defs(n[3], cd)
                # the body function: `caller` is declared (the ccall parameter)
                scope(n[3], True, True, True)

    def call_defs(nodes, cd):
        """defs textually inside a <%call> (at any control depth): written into ccall with the enclosing cd"""
        for n in nodes:
            k = n[0]
            if k in ("if", "for", "while", "try"):
                for slot in G.BODY_SLOTS[k]:
                    call_defs(n[slot], cd)
            elif k == "def":
                s, lex, uses = sub(cd, True, n[4])
                if lex and uses:
                    found.append(n)
                scope(n[4], s[0], s[1])
    scope(body, _scope_uses_caller(body), False)
    return found


def _ret_sites(body, buffering=False, acc=None, path=()):
    """`ret` nodes whose nearest enclosing callable is a buffered / filtered / cached def or block"""
    acc = [] if acc is None else acc
    for i, n in enumerate(body):
        k = n[0]
        if k == "ret" and buffering:
            acc.append((body, i))
        elif k in ("def", "block"):
            fl = n[3]
            _ret_sites(n[4], fl["buffered"] or fl["cached"] or bool(fl["filters"]), acc)
        elif k == "call":
            _ret_sites(n[3], False, acc)       # returns from body()
        elif k in G.BODY_SLOTS:
            for slot in G.BODY_SLOTS[k]:
                _ret_sites(n[slot], buffering, acc)
    return acc


def _defs_in_call_tags(body, in_tag=False, acc=None):
    """def nodes written into a ccall: textually inside a <%call>, no def in between"""
    acc = [] if acc is None else acc
    for n in body:
        k = n[0]
        if k == "def":
            if in_tag:
                acc.append(n)
            _defs_in_call_tags(n[4], False, acc)
        elif k == "block":
            _defs_in_call_tags(n[4], False, acc)
        elif k == "call":
            _defs_in_call_tags(n[3], True, acc)
        elif k in G.BODY_SLOTS:
            for slot in G.BODY_SLOTS[k]:
                _defs_in_call_tags(n[slot], in_tag, acc)
    return acc


def _defs_of_nested_calls(content, nested=False, acc=None):
    """def nodes of the <%call>s nested in the content of a <%call> (no def in between): mako writes them into the
    OUTER ccall as well"""
    acc = [] if acc is None else acc
    for n in content:
        k = n[0]
        if k == "def":
            if nested:
                acc.append(n)
        elif k == "call":
            _defs_of_nested_calls(n[3], True, acc)
        elif k in ("if", "try", "for", "while"):
            for slot in G.BODY_SLOTS[k]:
                _defs_of_nested_calls(n[slot], nested, acc)
    return acc


def _callee_ids(e):
    found = []
    _map_ex(e, lambda x: found.append(x[1]) if x[0] in ("call", "capture") else None)
    return found


def _body_exprs(body):
    """(container, key) of every expression slot of a body, through control lines, blocks and <%call> bodies (the
    callee's own scope and what it renders in place), not nested defs"""
    for n in body:
        k = n[0]
        if k in ("expr", "if", "call"):
            yield n, 1
        if k == "for":
            for i in range(len(n[2])):
                yield n[2], i
        if k == "block":
            yield from _body_exprs(n[4])
        elif k != "def":
            for slot in G.BODY_SLOTS.get(k, ()):
                yield from _body_exprs(n[slot])


def outer_callee_sites(bodies):
    """[(container, key, def id)]: expression slots of the callee of a <%call> that mention `caller.<d>` for a def d
    written in a <%call> NESTED in the content of that call (recorded quirk F-C05-5: the outer caller exports it)"""
    defs = {}
    for b in bodies:
        for _, n in G.walk(b):
            if n[0] == "def":
                defs[n[1]] = n
    sites = []
    for b in bodies:
        for _, n in G.walk(b):
            if n[0] != "call":
                continue
            inner = set(d[1] for d in _defs_of_nested_calls(n[3]))
            if not inner:
                continue
            for f in _callee_ids(n[1]):
                if f not in defs:
                    continue
                for cont, key in _body_exprs(defs[f][4]):
                    if _any_ex(cont[key], lambda x: x[0] == "caller" and x[1] in inner):
                        sites.append((cont, key, inner))
    return sites


def features(bodies):
    """{feature name: number of sites} of the recorded quirks present in the template set"""
    res = {}

    def add(name, n):
        if n:
            res[name] = res.get(name, 0) + n
    for b in bodies:
        add("call-in-call-expr-args", sum(1 for _, n in G.walk(b) if n[0] == "call" and _call_expr_arg_sites(n[1])))
        add("return-in-buffering-def", len(_ret_sites(b)))
        add("caller-in-def-nested-in-call", len(lexical_caller_defs(b)))
        add("decorated-def-in-call", sum(1 for d in _defs_in_call_tags(b) if d[3]["deco"]))
    add("nested-call-def-reached-by-outer-callee", len(outer_callee_sites(bodies)))
    return res


def neutralise(bodies, feature):
    """copy of the set with every site of `feature` replaced by something harmless"""
    bodies = copy.deepcopy(bodies)
    if feature == "nested-call-def-reached-by-outer-callee":
        for cont, key, inner in outer_callee_sites(bodies):
            cont[key] = _map_ex(cont[key], lambda x: ["lit", "q"] if x[0] == "caller" and x[1] in inner else None)
        return bodies
    for b in bodies:
        if feature == "call-in-call-expr-args":
            for _, n in G.walk(b):
                if n[0] == "call":
                    n[1] = _neutral_call_expr(n[1])
        elif feature == "return-in-buffering-def":
            for cont, i in sorted(_ret_sites(b), key=lambda t: -t[1]):
                cont[i] = ["text", "x"]
        elif feature == "caller-in-def-nested-in-call":
            for _ in range(20):
                ds = lexical_caller_defs(b)
                if not ds:
                    break
                _neutral_caller_scope(ds[0][4])
        elif feature == "decorated-def-in-call":
            for d in _defs_in_call_tags(b):
                d[3]["deco"] = False
        else:
            raise ValueError(feature)
    return bodies


def sanitize(bodies, allow=()):
    for f in FEATURES:
        if f not in allow and features(bodies).get(f):
            bodies = neutralise(bodies, f)
    return bodies


def plant(gen, bodies, feature):
    """make sure the feature of a dedicated quirk stream is present (the random generator produces it, but not in
    every set): add one small instance built from the defs the set already has"""
    r = gen.rng
    b = bodies[0]
    top = {n[1]: n for n in b if n[0] == "def"}
    wr = [d for d in top if gen.info[d]["uses_caller"] and not gen.info[d]["wants"] and gen.info[d]["arity"] <= 1]
    lf = [d for d in top if not gen.info[d]["uses_caller"]]
    if feature == "return-in-buffering-def":
        name = gen.fresh_def()
        fl = r.choice([G.FL(buffered=True), G.FL(filters=[r.randrange(6)]), G.FL(buffered=True, filters=[1]),
                       G.FL(cached=True)])
        d = ["def", name, [], fl, [["text", gen.text()], ["ret"], ["text", "y"]]]
        gen.info[name] = {"arity": 0, "uses_caller": False, "wants": {}, "supplied": False, "body_arity": 0}
        b.insert(0, d)
        b.insert(r.randint(1, len(b)), ["expr", ["cat", ["lit", "p"], ["call", name, []]], []])
    elif feature == "call-in-call-expr-args":
        def mk(name, params, body, **info):
            gen.info[name] = dict({"arity": len(params), "uses_caller": True, "wants": {}, "supplied": False,
                                   "body_arity": 0}, **info)
            b.insert(0, ["def", name, params, G.FL(), body])
        foo, bar, x = gen.fresh_def(), gen.fresh_def(), gen.fresh_var()
        mk(foo, [x], [["text", "[f:"], ["expr", ["var", x], []], ["text", ":"], ["expr", ["caller", 0, []], []],
                      ["text", "]"]])
        mk(bar, [], [["text", "(b:"], ["expr", ["caller", 0, []], []], ["text", ")"]])
        form = r.choice(["def-call", "caller-body", "leaf-call"])
        if form == "def-call":
            # a def called by name inside the argument list: it must not see the pending caller
            b.append(["call", ["call", foo, [["call", bar, []]]], [], [["text", "FB"]]])
        elif form == "leaf-call" and lf:
            # a leaf def called in the argument list is harmless by itself ...
            l = r.choice(lf)
            arg = ["call", l, [["lit", "p"] for _ in range(gen.info[l]["arity"])]]
            b.append(["call", ["call", foo, [arg]], [], [["text", "FB"]]])
        else:
            # outer(): <%call expr="foo(caller.body())">, called with a body that itself makes a call with content
            outer = gen.fresh_def()
            inner = ["call", ["call", foo, [["caller", 0, []]]], [], [["text", "FB"]]]
            mk(outer, [], [["text", "{"], inner, ["text", "}"]])
            b.append(["call", ["call", outer, []], [],
                      [["text", "O1"], ["call", ["call", bar, []], [], [["text", "BB"]]], ["text", "O2"]]])
    elif feature == "caller-in-def-nested-in-call":
        # outer() uses caller and calls a wrapper with content; a def of that call is called with content of its own
        foo, outer, inner = gen.fresh_def(), gen.fresh_def(), gen.fresh_def()
        for n_ in (foo, outer, inner):
            gen.info[n_] = {"arity": 0, "uses_caller": True, "wants": {}, "supplied": False, "body_arity": 0}
        b.insert(0, ["def", foo, [], G.FL(), [["text", "[f:"], ["expr", ["caller", 0, []], []], ["text", "]"]]])
        idef = ["def", inner, [], G.FL(), [["text", "i:"], ["expr", ["caller", 0, []], []]]]
        icall = ["call", ["call", inner, []], [], [["text", "OWN"]]]
        mention = [["expr", ["caller", 0, []], []]] if r.random() < 0.8 else []
        d = ["def", outer, [], G.FL(), mention + [["call", ["call", foo, []], [], [idef, ["text", "B"], icall]]]]
        b.insert(0, d)
        b.append(["call", ["call", outer, []], [], [["text", "TOPBODY"]]])
    elif feature == "decorated-def-in-call":
        foo, inner = gen.fresh_def(), gen.fresh_def()
        d = ["def", foo, [], G.FL(), [["text", "["], ["expr", ["caller", 0, []], []], ["text", "|"],
                                      ["expr", ["caller", inner, []], []], ["text", "]"]]]
        idef = ["def", inner, [], G.FL(deco=True), [["text", "I"]]]
        gen.info[foo] = {"arity": 0, "uses_caller": True, "wants": {inner: 0}, "supplied": True, "body_arity": 0}
        gen.info[inner] = {"arity": 0, "uses_caller": False, "wants": {}, "supplied": False, "body_arity": 0}
        b.insert(0, d)
        b.append(["call", ["call", foo, []], [], [idef, ["text", "B"]]])


# --------------------------------------------------------------------------------------------- statistics

def call_nesting(body):
    """histogram {depth: count} of <%call> nodes by their nesting depth in other <%call> bodies (through defs too:
    textual nesting), and where they are written"""
    hist = {}

    def go(nodes, depth, where):
        for n in nodes:
            k = n[0]
            if k == "call":
                key = "call@depth%d:%s" % (depth + 1, where)
                hist[key] = hist.get(key, 0) + 1
                go(n[3], depth + 1, "call-body")
            elif k == "def":
                go(n[4], depth, "def")
            elif k == "block":
                go(n[4], depth, "block")
            elif k in ("for", "while"):
                go(n[G.BODY_SLOTS[k][0]], depth, "loop")
            elif k in ("if", "try"):
                for slot in G.BODY_SLOTS[k]:
                    go(n[slot], depth, where)
    go(body, 0, "body")
    return hist


def refinement_constructs(bodies):
    """how often the constructs the Lean refinement (`Calls.GoodAll`) was extended to occur in a template set: blocks,
    includes, the defs a <%call> exports from below a control line / from a nested <%call>, cached defs"""
    hist = {}

    def add(k):
        hist[k] = hist.get(k, 0) + 1

    def go(nodes, in_call, under_ctl, nested_call):
        # in_call: textually inside the content of a <%call> (not through a def); under_ctl: below a control line
        # of that content; nested_call: inside a further <%call> of that content
        for n in nodes:
            k = n[0]
            if k == "def":
                if n[3]["cached"]:
                    add("cached-def")
                if in_call and under_ctl:
                    add("call-def-under-control-line")
                if in_call and nested_call:
                    add("call-def-in-nested-call")
                go(n[4], False, False, False)
            elif k == "block":
                add("block:" + ("anonymous" if n[2] else "named") + (":flags" if n[3]["buffered"] or n[3]["filters"] else ""))
                go(n[4], False, False, False)
            elif k == "inc":
                add("include")
            elif k == "call":
                go(n[3], True, False, in_call)
            elif k in ("if", "try", "for", "while"):
                for slot in G.BODY_SLOTS[k]:
                    go(n[slot], in_call, in_call or under_ctl, nested_call)
    for b in bodies:
        go(b, False, False, False)
    return hist


def expr_forms(body):
    """how defs are called from expressions: by name, capture, inside a concatenation, as an argument"""
    hist = {}

    def add(k):
        hist[k] = hist.get(k, 0) + 1

    def ex(e, ctx):
        k = e[0]
        if k == "cat":
            ex(e[1], "cat")
            ex(e[2], "cat")
        elif k == "filt":
            ex(e[2], "filt")
        elif k in ("call", "capture"):
            add("%s-in-%s" % (k, ctx))
            for a in e[2]:
                ex(a, "arg")
        elif k == "caller":
            add("caller.%s-in-%s" % ("body" if e[1] == 0 else "def", ctx))
            for a in e[2]:
                ex(a, "arg")
    for _, n in G.walk(body):
        k = n[0]
        if k == "expr":
            ex(n[1], "expr")
        elif k == "if":
            ex(n[1], "if")
        elif k == "for":
            for e in n[2]:
                ex(e, "for")
        elif k == "call":
            e = n[1]
            while e[0] == "cat":
                e = e[2] if e[2][0] in ("call", "capture") else e[1]
            add("callexpr:" + e[0])
            for a in e[2] if e[0] in ("call", "capture") else []:
                ex(a, "callexpr-arg")
    return hist
