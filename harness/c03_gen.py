"""C03: grammar-directed generator of templates with nested control structures, and its four renderings.

A template is a tree (JSON-able lists; a *body* is a list of nodes):

  node ::= ["text", s] | ["expr", E] | ["comment", "line"|"doc", text] | ["py", [PS…], margin]
         | ["if", [[C, body]…], orelse|None, O] | ["for", var, ITER, body, orelse|None, O]
         | ["while", n, body, O] | ["try", body, [[EXC, body]…], O] | ["with", tag, var, body, O]
         | ["def", id, [params], FL, body] | ["call", E, body] | ["block", id, FL, body] | ["modcode"]
  O    ::= {"mg": [[ws before %, ws after %] per control line], "cmt": trailing comment of the `for` line | None}
  PS   ::= ["assign", var, string (may contain one newline)] | ["pyif", C, var, s1, s2] | ["ret"] | ["brk"] | ["cont"]
  FL   ::= {"buffered": bool, "filters": [ids]}
  E    ::= ["lit", s] | ["var", v] | ["cat", E, E] | ["boom"] | ["kboom"] | ["filt", i, E] | ["call", def id, [E…]]
         | ["callerbody"] | ["loop", attr] | ["loopvar"] | ["closed"] | ["pulled"]
  C    ::= ["truthy", E] | ["loopc", attr]               (condition of `% if/elif`, of a python `if`)
  ITER ::= ["list", [E…]] | ["str", s] | ["gen", [E…]] | ["iter", [E…]] | ["tgen", [E…]]  (tgen: lazy, every item an
           evaluation point of its own, counted by pulledcount())
  EXC  ::= None (bare except) | "Exception" | "Boom" | "KeyError" | "(KeyError, Boom)"
  attr ::= index | first | last | even | odd | reverse_index | cycle | parent.index

Renderings:
  to_source(tree)      Mako source text
  native_source(tree)  source of a PLAIN PYTHON function (native if/for/while/try/with, closures for defs and call
                       bodies, `loop` = an object computed from enumerate()) - the reference renderer of the oracle
  lower(tree)          the tree of harness/gen_template.py (C13's grammar: feeds the Lean pipeline `tgt run|spec`),
                       or None when the template uses a form the shared target language lacks
  ct_wire(tree)        the control-line skeleton in the wire syntax of lean/MakoModel/Control/Drv.lean
"""
from __future__ import annotations

import copy

from harness.common import enc

TEXT_ALPHABET = "abcxyz01 <>&.,;!-"
LIT_ALPHABET = "pqr789 "
PRE_MARGINS = ["", "", " ", "  ", "    ", "\t", " \t", "\t\t  ", "        "]
POST_MARGINS = ["", " ", " ", "  ", "\t"]
BLOCK_MARGINS = ["", "  ", "    ", "      ", "        ", "\t", "\t\t"]
LOOP_ATTRS = ["index", "first", "last", "even", "odd", "reverse_index", "cycle", "parent.index"]
SIZED_FREE = ["index", "first", "even", "odd", "cycle"]      # do not need len()
EXCS = [None, "Exception", "Boom", "KeyError", "(KeyError, Boom)"]


def FL(buffered=False, filters=()):
    return {"buffered": bool(buffered), "filters": list(filters)}


# ============================================================================================ source text

def ex_src(e):
    k = e[0]
    if k == "lit":
        return "'%s'" % e[1]
    if k == "var":
        return "v%d" % e[1]
    if k == "cat":
        return "(%s + %s)" % (ex_src(e[1]), ex_src(e[2]))
    if k == "boom":
        return "boom()"
    if k == "kboom":
        return "kboom()"
    if k == "filt":
        return "flt%d(%s)" % (e[1], ex_src(e[2]))
    if k == "call":
        return "d%d(%s)" % (e[1], ", ".join(ex_src(a) for a in e[2]))
    if k == "callerbody":
        return "caller.body()"
    if k == "loop":
        return "str(%s)" % loop_src(e[1])
    if k == "loopvar":
        return "str(loop)"
    if k == "closed":
        return "closedcount()"
    if k == "pulled":
        return "pulledcount()"
    raise ValueError(e)


PARENT_PROBES = {
    "parent_is_none": "(loop.parent is None)",
    "parent_bool": "bool(loop.parent)",
    "parent_guard": "(loop.parent.index if loop.parent else -1)",
    "parent_depth": "pdepth(loop)",
}


def loop_src(attr):
    if attr == "cycle":
        return "loop.cycle('p', 'q', 'r')"
    if attr in PARENT_PROBES:
        return PARENT_PROBES[attr]
    return "loop." + attr


def cond_src(c):
    if c[0] == "truthy":
        return ex_src(c[1])
    if c[0] == "loopc":
        return loop_src(c[1])
    raise ValueError(c)


def iter_src(it):
    k = it[0]
    if k == "list":
        return "[%s]" % ", ".join(ex_src(e) for e in it[1])
    if k == "str":
        return "'%s'" % it[1]
    if k == "gen":
        return "gen([%s])" % ", ".join(ex_src(e) for e in it[1])
    if k == "iter":
        return "iter([%s])" % ", ".join(ex_src(e) for e in it[1])
    if k == "tgen":
        return "tgen([%s])" % ", ".join(ex_src(e) for e in it[1])
    raise ValueError(it)


def iter_len(it):
    return len(it[1])


def py_lines(stmts):
    """source lines of a python block, without margin; a multi-line string continues at column 0 (its content)"""
    out = []
    for s in stmts:
        k = s[0]
        if k == "assign":
            v = s[2]
            if "\n" in v:
                a, b = v.split("\n", 1)
                out.append(("v%d = \"\"\"%s" % (s[1], a), True))
                out.append((b + '"""', False))          # False: no margin - inside the literal
            else:
                out.append(("v%d = '%s'" % (s[1], v), True))
        elif k == "pyif":
            out.append(("if %s:" % cond_src(s[1]), True))
            out.append(("    v%d = '%s'" % (s[2], s[3]), True))
            out.append(("else:", True))
            out.append(("    v%d = '%s'" % (s[2], s[4]), True))
        elif k == "ret":
            out.append(("return ''", True))
        elif k == "brk":
            out.append(("break", True))
        elif k == "cont":
            out.append(("continue", True))
        else:
            raise ValueError(s)
    return out


def py_block_text(stmts, margin):
    """the text between `<%` and `%>`"""
    lines = py_lines(stmts)
    if margin is None:          # inline form: <% stmt %>
        assert len(lines) == 1
        return " " + lines[0][0] + " "
    return "\n" + "".join((margin if m else "") + l + "\n" for l, m in lines)


class _Src:
    def __init__(self):
        self.out = []
        self.bol = True
        self.line = 1
        self.anon_line = {}     # line of the <%block> tag -> block id

    def emit(self, s):
        if s:
            self.out.append(s)
            self.line += s.count("\n")
            self.bol = s.endswith("\n")

    def fresh_line(self):
        if not self.bol:
            self.emit("\\\n")       # consumed by the lexer: no text node


def cont_text(opts, i, text):
    """a control-line text, continued after its keyword with backslash-newline when the options say so"""
    bs = opts.get("bs")
    if bs and i < len(bs) and bs[i] is not None and " " in text:
        kw, rest = text.split(" ", 1)
        return kw + " \\\n" + bs[i] + rest
    return text


def ctl_lines(n):
    """the control lines of a structure that are not end lines: [(keyword, text, body)]"""
    k = n[0]
    o = n[-1]
    if k == "if":
        lines = [("if" if j == 0 else "elif", ("if " if j == 0 else "elif ") + cond_src(c) + ":", b)
                 for j, (c, b) in enumerate(n[1])]
        if n[2] is not None:
            lines.append(("else", "else:", n[2]))
    elif k == "for":
        cmt = (" # " + o["cmt"]) if o.get("cmt") else ""
        lines = [("for", "for v%d in %s:%s" % (n[1], iter_src(n[2]), cmt), n[3])]
        if n[4] is not None:
            lines.append(("else", "else:", n[4]))
    elif k == "while":
        lines = [("while", "while below(%d):" % n[1], n[2])]
    elif k == "try":
        lines = [("try", "try:", n[1])] + [("except", "except:" if e is None else "except %s:" % e, b) for e, b in n[2]]
    elif k == "with":
        lines = [("with", "with cm('%s') as v%d:" % (n[1], n[2]), n[3])]
    else:
        raise ValueError(n)
    return [(kw, text if kw == "for" else cont_text(o, i, text), b) for i, (kw, text, b) in enumerate(lines)]


def _ctl(s, opts, i, text):
    mg = opts["mg"][i] if i < len(opts["mg"]) else ["", " "]
    s.fresh_line()
    s.emit(mg[0] + "%" + mg[1] + text + "\n")


def _flags_attrs(fl):
    a = ""
    if fl["buffered"]:
        a += ' buffered="True"'
    if fl["filters"]:
        a += ' filter="%s"' % ", ".join("flt%d" % i for i in fl["filters"])
    return a


def _body_src(s, body):
    for n in body:
        _node_src(s, n)


def _node_src(s, n):
    k = n[0]
    if k == "text":
        s.emit(n[1])
    elif k == "expr":
        s.emit("${%s}" % ex_src(n[1]))
    elif k == "comment":
        if n[1] == "line":
            s.fresh_line()
            s.emit("## " + n[2] + "\n")
        else:
            s.emit("<%doc>" + n[2] + "</%doc>")
    elif k == "py":
        s.emit("<%" + py_block_text(n[1], n[2]) + "%>")
    elif k == "modcode":
        s.emit("<%! import os %>")
    elif k in ("if", "for", "while", "try", "with"):
        o = n[-1]
        lines = ctl_lines(n)
        for i, (kw, text, body) in enumerate(lines):
            _ctl(s, o, i, text)
            _body_src(s, body)
        _ctl(s, o, len(lines), "end" + k)
    elif k == "def":
        s.emit('<%%def name="d%d(%s)"%s>' % (n[1], ", ".join("v%d" % v for v in n[2]), _flags_attrs(n[3])))
        _body_src(s, n[4])
        s.emit("</%def>")
    elif k == "call":
        s.emit('<%%call expr="%s">' % ex_src(n[1]))
        _body_src(s, n[2])
        s.emit("</%call>")
    elif k == "block":
        s.fresh_line()
        s.anon_line[n[1]] = s.line
        s.emit("<%%block%s>" % _flags_attrs(n[2]))
        _body_src(s, n[3])
        s.emit("</%block>")
    else:
        raise ValueError(n)


def to_source(body, page_enable_loop=None, with_anon=False):
    from harness.c03_rt import PRELUDE
    s = _Src()
    s.emit(PRELUDE)
    if page_enable_loop is not None:
        s.emit('<%%page enable_loop="%s"/>' % ("True" if page_enable_loop else "False"))
    _body_src(s, body)
    if with_anon:
        return "".join(s.out), dict(s.anon_line)
    return "".join(s.out)


# ============================================================================================ tree utilities

def sub_bodies(n):
    """the bodies directly under a node, in document order"""
    k = n[0]
    if k == "if":
        return [b for _, b in n[1]] + ([n[2]] if n[2] is not None else [])
    if k == "for":
        return [n[3]] + ([n[4]] if n[4] is not None else [])
    if k == "while":
        return [n[2]]
    if k == "try":
        return [n[1]] + [b for _, b in n[2]]
    if k == "with":
        return [n[3]]
    if k == "def":
        return [n[4]]
    if k == "call":
        return [n[2]]
    if k == "block":
        return [n[3]]
    return []


def walk(body):
    for n in body:
        yield n
        for b in sub_bodies(n):
            yield from walk(b)


def count_nodes(body):
    return sum(1 for _ in walk(body))


def kinds_hist(body):
    h = {}
    for n in walk(body):
        k = n[0]
        h[k] = h.get(k, 0) + 1
        if k == "if":
            if len(n[1]) > 1:
                h["if:elif"] = h.get("if:elif", 0) + 1
            if n[2] is not None:
                h["if:else"] = h.get("if:else", 0) + 1
        if k == "for":
            h["for:" + n[2][0]] = h.get("for:" + n[2][0], 0) + 1
            h["for:len%d" % iter_len(n[2])] = h.get("for:len%d" % iter_len(n[2]), 0) + 1
            if n[4] is not None:
                h["for:else"] = h.get("for:else", 0) + 1
        if k == "try":
            h["try:%d-handlers" % len(n[2])] = h.get("try:%d-handlers" % len(n[2]), 0) + 1
        if k in ("if", "for", "while", "try", "with"):
            for b in sub_bodies(n):
                real = [c for c in b if c[0] != "comment"]
                if not b:
                    h["suite:empty"] = h.get("suite:empty", 0) + 1
                elif not real:
                    h["suite:comment-only"] = h.get("suite:comment-only", 0) + 1
    return h


def ex_mentions_loop(e):
    k = e[0]
    if k in ("loop", "loopvar"):
        return True
    if k == "cat":
        return ex_mentions_loop(e[1]) or ex_mentions_loop(e[2])
    if k == "filt":
        return ex_mentions_loop(e[2])
    if k == "call":
        return any(ex_mentions_loop(a) for a in e[2])
    return False


def cond_mentions_loop(c):
    return c[0] == "loopc" or (c[0] == "truthy" and ex_mentions_loop(c[1]))


def iter_mentions_loop(it):
    return it[0] != "str" and any(ex_mentions_loop(e) for e in it[1])


def header_loop_refs(n):
    """does a control line of node `n` (primary or ternary) reference `loop`? -> list of bools per non-end line"""
    k = n[0]
    if k == "if":
        return [cond_mentions_loop(c) for c, _ in n[1]] + ([False] if n[2] is not None else [])
    if k == "for":
        return [iter_mentions_loop(n[2])] + ([False] if n[4] is not None else [])
    if k == "while":
        return [False]
    if k == "try":
        return [False] + [False for _ in n[2]]
    if k == "with":
        return [False]
    return []


def py_mentions_loop(stmts):
    return any(s[0] == "pyif" and cond_mentions_loop(s[1]) for s in stmts)


def detected(n):
    """what mako's LoopVariable finds at or below node `n`: control-line headers, expressions and python blocks at
    any depth (through every tag), but no tag attribute (`<%call expr>`)"""
    k = n[0]
    if k == "expr":
        return ex_mentions_loop(n[1])
    if k == "py":
        return py_mentions_loop(n[1])
    if any(header_loop_refs(n)):
        return True
    return any(detected(c) for b in sub_bodies(n) for c in b)


def scope_mentions_loop(body):
    """`'loop' in undeclared` of the scope that holds `body` (as _Identifiers computes it): expressions, control
    lines and python blocks of the scope itself, the expression of a <%call>, the content of blocks - not the
    content of nested defs or <%call> bodies"""
    for n in body:
        k = n[0]
        if k == "expr" and ex_mentions_loop(n[1]):
            return True
        if k == "py" and py_mentions_loop(n[1]):
            return True
        if k == "call" and ex_mentions_loop(n[1]):
            return True
        if k in ("if", "for", "while", "try", "with"):
            if any(header_loop_refs(n)):
                return True
            if any(scope_mentions_loop(b) for b in sub_bodies(n)):
                return True
        if k == "block" and scope_mentions_loop(n[3]):
            return True
    return False


# ============================================================================================ lowering to C13's tree

class NotLowerable(Exception):
    pass


def _lower_ex(e):
    k = e[0]
    if k in ("lit", "var", "boom"):
        return list(e)
    if k == "cat":
        return ["cat", _lower_ex(e[1]), _lower_ex(e[2])]
    if k == "filt":
        return ["filt", e[1], _lower_ex(e[2])]
    if k == "call":
        return ["call", e[1], [_lower_ex(a) for a in e[2]]]
    if k == "callerbody":
        return ["caller", 0, []]
    if k == "loop" and e[1] == "index":
        return ["loopindex"]
    raise NotLowerable(k)


def _lower_cond(c):
    if c[0] == "truthy":
        return _lower_ex(c[1])
    raise NotLowerable("loop condition")


def _lower_body(body):
    out = []
    for n in body:
        k = n[0]
        if k == "text":
            out.append(["text", n[1]])
        elif k == "expr":
            out.append(["expr", _lower_ex(n[1]), []])
        elif k == "comment":
            pass
        elif k == "py":
            for s in n[1]:
                if s[0] in ("ret", "brk", "cont"):
                    out.append([s[0]])
                else:
                    raise NotLowerable("python block")
        elif k == "if":
            clauses, orelse = n[1], n[2]
            node = _lower_body(orelse) if orelse is not None else []
            for c, b in reversed(clauses):
                node = [["if", _lower_cond(c), _lower_body(b), node]]
            out += node
        elif k == "for":
            if n[2][0] != "list" or n[4] is not None:
                raise NotLowerable("for form")
            out.append(["for", n[1], [_lower_ex(e) for e in n[2][1]], _lower_body(n[3])])
        elif k == "while":
            out.append(["while", n[1], _lower_body(n[2])])
        elif k == "try":
            if len(n[2]) != 1 or n[2][0][0] not in (None, "Exception"):
                raise NotLowerable("try form")
            out.append(["try", _lower_body(n[1]), _lower_body(n[2][0][1])])
        elif k == "def":
            fl = {"buffered": n[3]["buffered"], "filters": list(n[3]["filters"]), "cached": False, "deco": False}
            out.append(["def", n[1], list(n[2]), fl, _lower_body(n[4])])
        elif k == "call":
            out.append(["call", _lower_ex(n[1]), [], _lower_body(n[2])])
        elif k == "block":
            fl = {"buffered": n[2]["buffered"], "filters": list(n[2]["filters"]), "cached": False, "deco": False}
            out.append(["block", n[1], True, fl, _lower_body(n[3])])
        else:
            raise NotLowerable(k)
    return out


def lower(body):
    try:
        return _lower_body(body)
    except NotLowerable:
        return None


# ============================================================================================ native reference

class _N:
    """emitter of the native Python source"""

    def __init__(self):
        self.lines = []
        self.ind = 0
        self.uid = 0

    def w(self, s):
        self.lines.append("    " * self.ind + s)

    def fresh(self):
        self.uid += 1
        return self.uid


def _n_ex(e, lp):
    """Python expression (a str value); `lp`: name of the loop object of the innermost lexically enclosing
    `% for`, or None"""
    k = e[0]
    if k == "lit":
        return repr(e[1])
    if k == "var":
        return "v%d" % e[1]
    if k == "cat":
        return "(%s + %s)" % (_n_ex(e[1], lp), _n_ex(e[2], lp))
    if k == "boom":
        return "boom()"
    if k == "kboom":
        return "kboom()"
    if k == "filt":
        return "flt%d(%s)" % (e[1], _n_ex(e[2], lp))
    if k == "call":
        return "d%d(%s)" % (e[1], ", ".join(["__out", "None"] + [_n_ex(a, lp) for a in e[2]]))
    if k == "callerbody":
        return "caller.body(__out)"
    if k == "loop":
        return "str(%s)" % _n_loop(e[1], lp)
    if k == "loopvar":
        return "str(__loopvar)"
    if k == "closed":
        return "closedcount()"
    if k == "pulled":
        return "pulledcount()"
    raise ValueError(e)


def _n_loop(attr, lp):
    if lp is None:
        return "noloop()"
    if attr in PARENT_PROBES:
        return PARENT_PROBES[attr].replace("loop", lp)
    if attr == "cycle":
        return "%s.cycle('p', 'q', 'r')" % lp
    return "%s.%s" % (lp, attr)


def _n_cond(c, lp):
    if c[0] == "truthy":
        return _n_ex(c[1], lp)
    return _n_loop(c[1], lp)


def _n_iter(it, lp):
    k = it[0]
    if k == "str":
        return repr(it[1])
    return "[%s]" % ", ".join(_n_ex(e, lp) for e in it[1])     # list, generator, iterator: the same items in order


def _n_callable(N, name, params, fl, body, lp, enable_loop):
    """def NAME(__dst, caller, params…): plain: writes to the caller's output and returns ''; buffered: returns its
    content; filtered: the filter functions see the whole content, once"""
    N.w("def %s(%s):" % (name, ", ".join(["__dst", "caller"] + ["v%d" % p for p in params])))
    N.ind += 1
    buffering = fl["buffered"] or bool(fl["filters"])
    N.w("__out = %s" % ("[]" if buffering else "__dst"))
    _n_hoist(N, body, lp, enable_loop)
    N.w("def __run():")
    N.ind += 1
    N.w("pass")
    _n_body(N, body, lp, enable_loop)
    N.ind -= 1
    N.w("__run()")
    if buffering:
        N.w("__c = ''.join(__out)")
        for f in fl["filters"]:
            N.w("__c = flt%d(__c)" % f)
        if fl["buffered"]:
            N.w("return __c")
        else:
            N.w("__dst.append(__c)")
            N.w("return ''")
    else:
        N.w("return ''")
    N.ind -= 1


def _n_hoist(N, body, lp, enable_loop, top=False):
    """the defs of a scope are visible in the whole scope: define them first (one level; nested control
    structures belong to the scope).  `loop` inside a def that sits textually inside a `% for` is that loop's
    object (closure) - the generator calls such a def only inside that loop."""
    for n in body:
        k = n[0]
        if k == "def":
            # a <%def> in the body of the template (also under control lines) is a top-level callable of the
            # module: it has no enclosing loop; elsewhere it is a closure
            _n_callable(N, "d%d" % n[1], n[2], n[3], n[4], None if top else lp, enable_loop)
        elif k == "for":
            # defs inside the loop body close over the loop object, which exists only while the loop runs:
            # they are defined inside the loop (see _n_body)
            if n[4] is not None:
                _n_hoist(N, n[4], lp, enable_loop, top)
        elif k in ("if", "while", "try", "with"):
            for b in sub_bodies(n):
                _n_hoist(N, b, lp, enable_loop, top)


def _n_body(N, body, lp, enable_loop, top=False):
    for n in body:
        k = n[0]
        if k == "text":
            N.w("__out.append(%r)" % n[1])
        elif k == "expr":
            N.w("__out.append(str(%s))" % _n_ex(n[1], lp))
        elif k in ("comment", "def", "modcode"):
            pass
        elif k == "py":
            for s in n[1]:
                if s[0] == "assign":
                    N.w("v%d = %r" % (s[1], s[2]))
                elif s[0] == "pyif":
                    N.w("if %s:" % _n_cond(s[1], lp))
                    N.w("    v%d = %r" % (s[2], s[3]))
                    N.w("else:")
                    N.w("    v%d = %r" % (s[2], s[4]))
                elif s[0] == "ret":
                    N.w("return")
                elif s[0] == "brk":
                    N.w("break")
                elif s[0] == "cont":
                    N.w("continue")
        elif k == "if":
            for j, (c, b) in enumerate(n[1]):
                N.w("%s %s:" % ("if" if j == 0 else "elif", _n_cond(c, lp)))
                N.ind += 1
                N.w("pass")
                _n_body(N, b, lp, enable_loop, top)
                N.ind -= 1
            if n[2] is not None:
                N.w("else:")
                N.ind += 1
                N.w("pass")
                _n_body(N, n[2], lp, enable_loop, top)
                N.ind -= 1
        elif k == "for":
            u = N.fresh()
            inner = ("__lp%d" % u) if enable_loop else lp
            if n[2][0] == "tgen":
                # a lazy iterable is consumed lazily, as Python's `for` does; its length is not known
                N.w("for __i%d, v%d in enumerate(tgen(%s)):" % (u, n[1], _n_iter(n[2], lp)))
                nlen = "None"
            else:
                N.w("__items%d = list(%s)" % (u, _n_iter(n[2], lp)))
                N.w("for __i%d, v%d in enumerate(__items%d):" % (u, n[1], u))
                nlen = "len(__items%d)" % u
            N.ind += 1
            N.w("pass")
            if enable_loop:
                N.w("__lp%d = NLoop(__i%d, %s, %s)" % (u, u, nlen, lp if lp else "None"))
            _n_hoist(N, n[3], inner, enable_loop, top)
            _n_body(N, n[3], inner, enable_loop, top)
            N.ind -= 1
            if n[4] is not None:
                N.w("else:")
                N.ind += 1
                N.w("pass")
                _n_body(N, n[4], lp, enable_loop, top)
                N.ind -= 1
        elif k == "while":
            N.w("while below(%d):" % n[1])
            N.ind += 1
            N.w("pass")
            _n_body(N, n[2], lp, enable_loop, top)
            N.ind -= 1
        elif k == "try":
            N.w("try:")
            N.ind += 1
            N.w("pass")
            _n_body(N, n[1], lp, enable_loop, top)
            N.ind -= 1
            for exc, b in n[2]:
                N.w("except:" if exc is None else "except %s:" % exc)
                N.ind += 1
                N.w("pass")
                _n_body(N, b, lp, enable_loop, top)
                N.ind -= 1
        elif k == "with":
            N.w("with cm(%r) as v%d:" % (n[1], n[2]))
            N.ind += 1
            N.w("pass")
            _n_body(N, n[3], lp, enable_loop, top)
            N.ind -= 1
        elif k == "call":
            u = N.fresh()
            _n_callable(N, "__cb%d" % u, [], FL(), n[2], lp, enable_loop)
            # the body is called as caller.body(): it writes where its caller writes
            N.w("def __cbw%d(__dst2, __f=__cb%d, __c=caller):" % (u, u))
            N.w("    return __f(__dst2, __c)")
            e = n[1]
            N.w("__out.append(str(%s))" % _n_call_expr(e, lp, "NCaller(__cbw%d)" % u))
        elif k == "block":
            u = N.fresh()
            _n_callable(N, "__blk%d" % u, [], n[2], n[3], lp, enable_loop)
            # the block renders where it is placed; a buffered block hands its content back and it is written there
            N.w("__out.append(str(__blk%d(__out, None)))" % u)
        else:
            raise ValueError(n)


def _n_call_expr(e, lp, callerobj):
    """the expression of a <%call>: the outermost def call receives the caller namespace"""
    if e[0] == "call":
        return "d%d(%s)" % (e[1], ", ".join(["__out", callerobj] + [_n_ex(a, lp) for a in e[2]]))
    if e[0] == "cat":
        return "(%s + %s)" % (_n_ex(e[1], lp), _n_call_expr(e[2], lp, callerobj))
    raise ValueError(e)


def native_source(body, enable_loop=True):
    N = _N()
    N.w("def __main(__dst, __loopvar):")
    N.ind += 1
    N.w("caller = None")
    N.w("__out = __dst")
    _n_hoist(N, body, None, enable_loop, True)
    N.w("def __run():")
    N.ind += 1
    N.w("pass")
    _n_body(N, body, None, enable_loop, True)
    N.ind -= 1
    N.w("__run()")
    N.ind -= 1
    return "\n".join(N.lines) + "\n"


def native_run(body, k, enable_loop=True, loopvar="LOOPVAR"):
    """-> (outcome 'ok'|'boom'|'keyerror'|'error', output so far)"""
    from harness import c03_rt as R
    src = native_source(body, enable_loop)
    env = {"boom": R.boom, "kboom": R.kboom, "below": R.below, "Boom": R.Boom, "cm": R.cm, "pdepth": R.pdepth,
           "closedcount": R.closedcount, "tgen": R.tgen, "pulledcount": R.pulledcount, "NLoop": R.NLoop, "NCaller": R.NCaller, "noloop": R.noloop}
    for i in range(6):
        env["flt%d" % i] = getattr(R, "flt%d" % i)
    exec(compile(src, "<native>", "exec"), env)
    out = []
    R.reset(k)
    try:
        env["__main"](out, loopvar)
        res = "ok"
    except R.Boom:
        res = "boom"
    except KeyError:
        res = "keyerror"
    except RecursionError:
        raise
    except Exception:       # noqa
        res = "error"
    return res, "".join(out), R.STATE.cnt


# ============================================================================================ control skeleton (Lean wire)

def _kinds(body):
    """the nodes a body contributes to the `nodes` list of the enclosing control line (independent
    re-implementation of the lexer's bookkeeping, from its description): a comment, a control structure (its
    primary line only), anything else - and for a tag, the nodes inside it as well"""
    out = []
    prev = None
    for n in body:
        k = n[0]
        if k == "text" and prev == "text":
            continue            # adjacent text runs are one Text node
        prev = k
        if k == "comment":
            out.append("kc")
        elif k in ("if", "for", "while", "try", "with"):
            out.append("kl %s 0" % enc(k))
        elif k in ("def", "call", "block"):
            out.append("ko")
            out += _kinds(sub_bodies(n)[0])
        else:
            out.append("ko")
    return out


def _hdr(kw, text, loopref, parts=None):
    h = "%s %s %d " % (enc(kw), enc(text), 1 if loopref else 0)
    if parts is None:
        return h + "0"
    return h + "1 %s %s" % (enc(parts[0]), enc(parts[1]))


def _ct(body, top_assigns):
    out = []
    prev = None
    for n in body:
        k = n[0]
        if k == "text" and prev == "text":
            continue            # adjacent text runs are one Text node
        prev = k
        if k == "comment":
            out.append("c")
        elif k == "text":
            out.append("s %s 0 0" % enc("__M_writer(0)"))
        elif k == "expr":
            out.append("s %s %d 0" % (enc("__M_writer(0)"), 1 if ex_mentions_loop(n[1]) else 0))
        elif k == "py":
            out.append("b %s %d %s" % (enc(py_block_text(n[1], n[2])), 1 if py_mentions_loop(n[1]) else 0,
                                       ("1 " + enc("0")) if top_assigns else "0"))
        elif k in ("def", "modcode"):
            inner = _kinds(n[4]) if k == "def" else []
            lr = any(detected(c) for c in n[4]) if k == "def" else False
            out.append("q %d %d %s" % (1 if lr else 0, len(inner), " ".join(inner)) if inner
                       else "q %d 0" % (1 if lr else 0))
        elif k in ("if", "for", "while", "try", "with"):
            refs = header_loop_refs(n)
            lines = ctl_lines(n)
            parts = None
            if k == "for":
                parts = ("v%d" % n[1], iter_src(n[2]))
            s = "ctl " + _hdr(lines[0][0], lines[0][1], refs[0], parts) + " " + _ct(lines[0][2], top_assigns)
            for (kw, text, b), r in zip(lines[1:], refs[1:]):
                s += " tc " + _hdr(kw, text, r) + " " + _ct(b, top_assigns)
            s += " tn"
            out.append(s)
        else:
            raise ValueError("not in the control skeleton: %r" % (k,))
    return " ".join(out + ["nil"])


def has_top_assign(body):
    """does the template body (not its defs) assign a variable in a python block?"""
    for n in body:
        if n[0] == "py" and any(s[0] in ("assign", "pyif") for s in n[1]):
            return True
        if n[0] in ("if", "for", "while", "try", "with"):
            if any(has_top_assign(b) for b in sub_bodies(n)):
                return True
    return False


def skeleton_ok(body):
    """templates the line-level Lean model covers: no <%call>, no <%block> in the body of the template"""
    for n in body:
        if n[0] in ("call", "block"):
            return False
        if n[0] in ("if", "for", "while", "try", "with") and not all(skeleton_ok(b) for b in sub_bodies(n)):
            return False
    return True


def ct_wire(body):
    return _ct(body, has_top_assign(body))


# ============================================================================================ generation

class Knobs:
    def __init__(self, **kw):
        self.max_depth = 5
        self.max_body = 4
        self.budget = 26
        self.constructs = {"text": 6, "expr": 6, "comment": 1.5, "modcode": 0.3, "py": 1.6, "if": 3, "for": 3.2, "while": 1, "try": 2,
                           "with": 0.8, "def": 1.4, "call": 1.2, "block": 0.5, "ret": 0.35, "brk": 0.6, "cont": 0.4}
        self.p_boom = 0.3
        self.p_empty_body = 0.12
        self.p_comment_body = 0.08
        self.p_loop_use = 0.65
        self.p_continued = 0.12       # a control line continued after its keyword with backslash-newline
        self.enable_loop = True
        self.multi_except = True      # several `% except` clauses (repaired in /repo by 1cb10d7)
        # shapes that hit recorded findings: off in the main streams, on in the `quirks` stream
        self.ret_in_buffered = False
        self.loop_only_in_call_expr = False
        self.unsized_len = False
        self.closure_mixed = False
        self.loop_in_call_body_def = False
        # directed search for the recorded shapes (oracle.quirks): `loop` is not used directly in a `% for` body,
        # only by the closures / call expressions in it; every def that can be is called
        self.hide_direct_loop = 0.0
        self.p_loop_in_call_args = 0.25
        self.call_defs = False
        self.p_callerbody = 0.35
        self.p_def_flag = 0.3
        self.lowerable = False      # stay inside the grammar of the shared target language (harness/gen_template.py)
        for k, v in kw.items():
            assert hasattr(self, k), k
            setattr(self, k, v)


class _Sc:
    def __init__(self, **kw):
        self.vars = []
        self.defs = []
        self.in_def = False       # `caller` is a parameter
        self.in_loop = False      # break / continue allowed (same callable)
        self.loop = None          # None | "direct" (a % for of this callable encloses) | "closure"
        self.loop_hidden = False  # the loop exists but the scope itself does not mention it (closures may)
        self.nested_for = False   # two % for of this callable enclose: loop.parent.index allowed
        self.unsized = False      # the innermost for iterates a generator / iterator
        self.lazy = False         # … a lazy one (tgen): last / reverse_index are never asked of it
        self.in_call_body = False  # directly in a <%call> body (under control lines): defs here are exported into
                                   # `ccall` next to body(), they are no closures of the body
        self.call_body_loop = False  # … and a `% for` of that body encloses this point
        self.no_loop_all = False  # inside a <%def> / <%block> written beside body() of a <%call> (F-C03-11): no `loop`
        self.no_parent = False    # inside the `% else:` of a `% for`: what `loop.parent` of a loop there is, is left open
        self.unsized_chain = False  # some loop `loop.parent…` can reach iterates one (bool() of it calls len())
        self.buffering = False
        self.top = True
        self.in_block = False
        self.no_loopctx = False   # inside a closure that reads the enclosing `loop`: its own `% for`s stay plain
        self.depth = 0
        self.__dict__.update(kw)

    def sub(self, **kw):
        s = _Sc(**self.__dict__)
        s.vars = list(self.vars)
        s.defs = list(self.defs)
        s.__dict__.update(kw)
        return s


class Gen:
    def __init__(self, rng, knobs=None):
        self.rng = rng
        self.k = knobs or Knobs()
        self.next_var = 1
        self.next_def = 1
        self.info = {}
        self.budget = self.k.budget
        self._param_vars = set()

    # -- helpers
    def fresh_var(self):
        v = self.next_var
        self.next_var += 1
        return v

    def fresh_def(self):
        d = self.next_def
        self.next_def += 1
        return d

    def text(self):
        r = self.rng
        return "".join(r.choice(TEXT_ALPHABET) for _ in range(r.randint(1, 4))) + ("\n" if r.random() < 0.25 else "")

    def lit(self, lo=0):
        r = self.rng
        return "".join(r.choice(LIT_ALPHABET) for _ in range(r.randint(lo, 3)))

    def opts(self, nlines):
        r = self.rng
        return {"mg": [[r.choice(PRE_MARGINS), r.choice(POST_MARGINS)] for _ in range(nlines)], "cmt": None,
                "bs": [(r.choice(["", "    ", "\t", "  "]) if r.random() < self.k.p_continued else None)
                       for _ in range(nlines)]}

    def loop_attr(self, sc):
        r = self.rng
        if self.k.lowerable:
            return "index"
        attrs = list(SIZED_FREE)
        if (not sc.unsized or self.k.unsized_len) and not sc.lazy:
            attrs += ["last", "reverse_index"]
        if sc.nested_for and sc.loop == "direct":
            attrs += ["parent.index"]
        # `loop.parent` of outermost and nested loops alike: None-ness, truth value, the guard idiom, the chain
        if not sc.no_parent:
            attrs += ["parent_is_none", "parent_depth"]
            if not sc.unsized_chain:
                attrs += ["parent_bool", "parent_guard"]
        return r.choice(attrs + ["index", "index"])

    # -- expressions
    def atom(self, sc):
        r = self.rng
        if r.random() < self.k.p_boom:
            return ["kboom"] if (r.random() < 0.2 and not self.k.lowerable) else ["boom"]
        if sc.vars and r.random() < 0.5:
            return ["var", r.choice(sc.vars)]
        if r.random() < 0.08 and not self.k.lowerable:
            return ["pulled"]         # how many items the lazy iterables have produced so far
        return ["lit", self.lit()]

    def expr(self, sc, depth=0, loop_ok=True, hidden_ok=False):
        r = self.rng
        if sc.loop_hidden and not hidden_ok:
            loop_ok = False
        choices = ["atom"] * 4
        if depth < 2:
            choices += ["cat", "filt"]
            if [d for d in sc.defs if not self.info[d]["uses_caller"]]:
                choices += ["call", "call"]
        if loop_ok and sc.loop and self.k.enable_loop:
            choices += ["loop"] * 3
        if loop_ok and not self.k.enable_loop:
            choices += ["loopvar"]
        k = r.choice(choices)
        if k == "atom":
            return self.atom(sc)
        if k == "cat":
            return ["cat", self.expr(sc, depth + 1, loop_ok, hidden_ok), self.expr(sc, depth + 1, loop_ok, hidden_ok)]
        if k == "filt":
            return ["filt", r.randrange(6), self.expr(sc, depth + 1, loop_ok, hidden_ok)]
        if k == "call":
            d = r.choice([d for d in sc.defs if not self.info[d]["uses_caller"]])
            return ["call", d, [self.expr(sc, depth + 1, loop_ok) for _ in range(self.info[d]["arity"])]]
        if k == "loop":
            return ["loop", self.loop_attr(sc)]
        if k == "loopvar":
            return ["loopvar"]
        raise AssertionError(k)

    def cond(self, sc):
        r = self.rng
        if sc.loop and not sc.loop_hidden and self.k.enable_loop and r.random() < 0.3 and not self.k.lowerable:
            attrs = ["first", "even", "odd", "index"]
            if (not sc.unsized or self.k.unsized_len) and not sc.lazy:
                attrs += ["last", "reverse_index"]
            return ["loopc", r.choice(attrs)]
        e = self.expr(sc, 1, loop_ok=False)
        return ["truthy", e]

    # -- bodies
    def body(self, sc, n=None, allow_special=True):
        r = self.rng
        if allow_special and sc.depth > 0:
            x = r.random()
            if x < self.k.p_empty_body:
                return []
            if x < self.k.p_empty_body + self.k.p_comment_body:
                return [self.comment() for _ in range(r.randint(1, 2))]
        if n is None:
            n = r.randint(1, self.k.max_body)
        out = []
        for _ in range(n):
            if self.budget <= 0:
                break
            node = self.node(sc)
            if node is not None:
                out.append(node)
        return out

    def comment(self):
        r = self.rng
        return ["comment", r.choice(["line", "line", "doc"]), "".join(r.choice("abc xyz") for _ in range(r.randint(1, 5)))]

    def pick_kind(self, sc):
        c = dict(self.k.constructs)
        if sc.depth >= self.k.max_depth:
            for k in ("if", "for", "while", "try", "with", "def", "call", "block"):
                c.pop(k, None)
        if not sc.in_loop:
            c.pop("brk", None)
            c.pop("cont", None)
        if sc.buffering and not self.k.ret_in_buffered:
            c.pop("ret", None)
        if not sc.defs:
            c.pop("call", None)
        if sc.in_block:
            for k in ("def", "call", "block"):
                c.pop(k, None)
        items = sorted(c.items())
        tot = sum(w for _, w in items)
        x = self.rng.random() * tot
        for k, w in items:
            x -= w
            if x <= 0:
                return k
        return "text"

    def node(self, sc):
        r = self.rng
        k = self.pick_kind(sc)
        self.budget -= 1
        d = sc.depth + 1
        if k == "text":
            return ["text", self.text()]
        if k == "expr":
            return ["expr", self.expr(sc)]
        if k == "comment":
            return self.comment()
        if k == "modcode":
            return ["modcode"]
        if k in ("ret", "brk", "cont"):
            margin = None if r.random() < 0.5 else r.choice(BLOCK_MARGINS)
            return ["py", [[k]], margin]
        if k == "py":
            stmts = []
            for _ in range(r.randint(1, 3)):
                v = self.fresh_var()
                x = r.random()
                if x < 0.35:
                    stmts.append(["assign", v, self.lit(1) + "\n" + r.choice(["", " ", "   ", "\t"]) + self.lit(1)])
                elif x < 0.6:
                    stmts.append(["pyif", self.cond(sc), v, self.lit(1), self.lit(1)])
                else:
                    stmts.append(["assign", v, self.lit(1)])
                sc.vars.append(v)
            return ["py", stmts, r.choice(BLOCK_MARGINS)]
        if k == "if":
            nclauses = r.choice([1, 1, 2, 2, 3])
            clauses = [[self.cond(sc), self.body(sc.sub(depth=d))] for _ in range(nclauses)]
            orelse = self.body(sc.sub(depth=d)) if r.random() < 0.5 else None
            return ["if", clauses, orelse, self.opts(nclauses + 2)]
        if k == "for":
            return self.gen_for(sc)
        if k == "while":
            return ["while", r.randint(0, 14), self.body(sc.sub(depth=d, in_loop=True)), self.opts(2)]
        if k == "try":
            nh = 1
            if self.k.multi_except and not self.k.lowerable and r.random() < 0.35:
                nh = r.choice([2, 2, 3])
            handlers = []
            for hi in range(nh):
                h = self.body(sc.sub(depth=d))
                excs = EXCS[:2] if self.k.lowerable else EXCS
                if hi < nh - 1:
                    excs = [e for e in excs if e is not None]      # a bare `except:` must be the last clause
                handlers.append([r.choice(excs), h])
            return ["try", self.body(sc.sub(depth=d), allow_special=r.random() < 0.3), handlers, self.opts(nh + 2)]
        if k == "with":
            v = self.fresh_var()
            s2 = sc.sub(depth=d)
            s2.vars.append(v)
            return ["with", r.choice("stu"), v, self.body(s2), self.opts(2)]
        if k == "def":
            return self.gen_def(sc)
        if k == "call":
            return self.gen_call(sc)
        if k == "block":
            fl = FL(buffered=r.random() < 0.3, filters=[r.randrange(6)] if r.random() < 0.3 else [])
            s2 = sc.sub(depth=d, in_loop=False, loop=None, nested_for=False, top=False, in_block=True,
                        no_loop_all=sc.no_loop_all or (sc.in_call_body and sc.call_body_loop
                                                       and not self.k.loop_in_call_body_def),
                        in_call_body=False, call_body_loop=False,
                        buffering=fl["buffered"] or bool(fl["filters"]))
            s2.vars = [v for v in sc.vars if v in self._param_vars]
            return ["block", self.fresh_def(), fl, self.body(s2, allow_special=False)]
        raise AssertionError(k)

    def gen_for(self, sc):
        r = self.rng
        d = sc.depth + 1
        v = self.fresh_var()
        n = r.choice([0, 1, 1, 2, 2, 3, 4])
        kind = "list" if self.k.lowerable else r.choice(["list", "list", "list", "str", "gen", "iter", "tgen", "tgen"])
        if kind == "str":
            it = ["str", "".join(r.choice("pqr789") for _ in range(n))]
        elif kind == "tgen":
            # the items themselves are plain (the evaluation point is the production of the item)
            it = ["tgen", [(["var", r.choice(sc.vars)] if sc.vars and r.random() < 0.4 else ["lit", self.lit(1)])
                           for _ in range(n)]]
        else:
            it = [kind, [self.expr(sc, 1, loop_ok=r.random() < 0.3 and not sc.no_loopctx and not sc.no_loop_all)
                         for _ in range(n)]]
        use_loop = r.random() < self.k.p_loop_use and self.k.enable_loop and not sc.no_loopctx and not sc.no_loop_all
        s2 = sc.sub(depth=d, in_loop=True, loop="direct" if (use_loop or sc.loop == "direct") else sc.loop,
                    nested_for=(sc.loop == "direct"), unsized=kind in ("gen", "iter", "tgen"), lazy=kind == "tgen",
                    call_body_loop=sc.in_call_body or sc.call_body_loop,
                    unsized_chain=sc.unsized_chain or kind in ("gen", "iter", "tgen"))
        if not use_loop and sc.loop:
            # `loop` inside this body would denote this loop: LoopVariable then mangles it
            s2.loop = "direct"
        if not self.k.enable_loop or sc.no_loopctx or sc.no_loop_all:
            s2.loop = None
        hide = bool(s2.loop) and r.random() < self.k.hide_direct_loop
        if hide:
            s2.loop = "direct"
            s2.loop_hidden = True
            use_loop = False
        s2.vars.append(v)
        # a nested def that reads `loop` or has loops of its own is called at the loop level it is written at only:
        # called from a deeper `% for` it would see that loop / have it as the parent of its own loops (closures
        # share the LoopStack and read `loop` at call time), while textually its innermost enclosing loop is the
        # outer one - the property text leaves this open
        s2.defs = [d for d in s2.defs if not self.info[d].get("reads_loop")]
        known = set(s2.defs)
        body = self.body(s2)
        if self.k.call_defs:
            for dd in s2.defs:
                if dd not in known and not self.info[dd]["uses_caller"]:
                    body.append(["expr", ["call", dd, [["lit", "p"] for _ in range(self.info[dd]["arity"])]]])
        # the `% else:` clause runs after exhaustion but before `% endfor`: the property text does not say which
        # loop `loop` denotes there (mako: still this loop, index = n) - `loop` is not used in it
        orelse = self.body(sc.sub(depth=d, loop=None, nested_for=False, no_parent=True)) \
            if (r.random() < 0.22 and not self.k.lowerable) else None
        o = self.opts(3)
        node = ["for", v, it, body, orelse, o]
        if self.k.enable_loop:
            if use_loop and not detected(node) and r.random() < 0.8:
                # make sure a loop that is meant to use `loop` does, in varying positions
                self.plant_loop(node, s2)
            if r.random() < 0.2:
                # a trailing comment, with or without a colon (the loop rewrite cuts it off since /repo 675f827)
                o["cmt"] = r.choice(["c ", "note: ", "a: b: "]) + self.lit().replace(" ", "")
        return node

    def plant_loop(self, node, s2):
        """reference `loop` once: directly, only in an `% elif` header, only in an `% except` body … (varied)"""
        r = self.rng
        body = node[3]
        where = r.choice(["direct", "direct", "except", "iter"] if self.k.lowerable
                         else ["direct", "direct", "elif", "except", "pyif", "iter"])
        attr = self.loop_attr(s2)
        cattrs = ["index", "first", "odd"] + ([] if (s2.unsized and not self.k.unsized_len) or s2.lazy else ["last"])
        if where == "direct":
            body.insert(r.randint(0, len(body)), ["expr", ["loop", attr]])
        elif where == "elif":
            body.insert(r.randint(0, len(body)),
                        ["if", [[["truthy", ["lit", ""]], [["text", "n"]]], [["loopc", r.choice(cattrs)], [["text", "e"]]]],
                         [["text", "z"]], self.opts(4)])
        elif where == "except":
            body.insert(r.randint(0, len(body)),
                        ["try", [["expr", ["boom"]]], [["Exception", [["expr", ["loop", attr]]]]], self.opts(3)])
        elif where == "pyif":
            v = self.fresh_var()
            body.insert(0, ["py", [["pyif", ["loopc", r.choice(cattrs)], v, "y", "n"]], r.choice(BLOCK_MARGINS)])
            body.insert(1, ["expr", ["var", v]])
        else:
            v = self.fresh_var()
            body.insert(r.randint(0, len(body)),
                        ["for", v, ["list", [["loop", "index"]]], [["expr", ["var", v]]], None, self.opts(2)])

    def gen_def(self, sc):
        r = self.rng
        name = self.fresh_def()
        params = [self.fresh_var() for _ in range(r.choice([0, 0, 1, 1, 2]))]
        fl = FL(buffered=r.random() < self.k.p_def_flag, filters=[r.randrange(6)] if r.random() < self.k.p_def_flag else [])
        closure_loop = sc.loop if not sc.top else None
        beside = sc.in_call_body and sc.call_body_loop and not self.k.loop_in_call_body_def
        if beside:
            closure_loop = None       # recorded finding F-C03-11: such a def cannot see the loop of the call body
        reads, plain = self.closure_mode(closure_loop)
        s2 = sc.sub(depth=sc.depth + 1, in_def=True, in_loop=False, top=False, nested_for=False,
                    in_call_body=False, call_body_loop=False, loop_hidden=False,
                    loop=("closure" if reads else None), no_loopctx=plain,
                    no_loop_all=sc.no_loop_all or beside,
                    buffering=fl["buffered"] or bool(fl["filters"]))
        s2.vars = [v for v in sc.vars if v in self._param_vars] + params
        self._param_vars.update(params)
        body = self.body(s2, allow_special=False)
        if r.random() < self.k.p_callerbody and sc.depth + 1 < self.k.max_depth:
            body.insert(r.randint(0, len(body)), ["expr", ["callerbody"]])
            uses = True
        else:
            uses = False
        # a nested def (a closure sharing the LoopStack of the function around it) that reads `loop` or has loops of
        # its own behaves according to the loops running at its CALL site
        sensitive = (not sc.top) and (bool(reads) or any(detected(c) for c in body))
        self.info[name] = {"arity": len(params), "uses_caller": uses, "reads_loop": sensitive}
        sc.defs.append(name)
        return ["def", name, params, fl, body]

    def gen_call(self, sc):
        r = self.rng
        cands = [d for d in sc.defs if self.info[d]["uses_caller"]] or sc.defs
        callee = r.choice(cands)
        loop_in_args = bool(sc.loop) and self.k.enable_loop and r.random() < self.k.p_loop_in_call_args
        # arguments without def calls: a def called while the expression is evaluated would take the pending caller
        e = ["call", callee, [self.expr(sc, 2, loop_ok=loop_in_args, hidden_ok=True)
                              for _ in range(self.info[callee]["arity"])]]
        reads, plain = self.closure_mode(sc.loop)
        s2 = sc.sub(depth=sc.depth + 1, in_loop=False, top=False, buffering=False, nested_for=False,
                    in_call_body=True, call_body_loop=False, loop_hidden=False,
                    loop=("closure" if reads else None), no_loopctx=plain)
        body = self.body(s2, allow_special=False)
        return ["call", e, body]

    def closure_mode(self, outer_loop):
        """a closure (nested def, <%call> body) under a `% for`: either it reads the enclosing `loop` and its own
        `% for`s have no loop context, or it has loops of its own and does not read the enclosing one - mako's
        closures cannot do both (`loop = __M_loop._enter(…)` makes `loop` a local of the closure: recorded finding).
        -> (reads the enclosing loop, own loops stay plain)"""
        if not outer_loop or not self.k.enable_loop:
            return False, False
        if self.k.closure_mixed:
            return True, False
        if self.k.hide_direct_loop:
            return True, True
        if self.rng.random() < 0.6:
            return True, True
        return False, False

    def template(self):
        r = self.rng
        sc = _Sc(top=True)
        body = []
        for _ in range(r.choice([0, 1, 1, 2])):
            self.budget -= 1
            body.append(self.gen_def(sc))
        rest = self.body(sc, r.randint(2, self.k.max_body + 2))
        body = body + rest
        if self.k.call_defs:
            for d in sc.defs:
                if not self.info[d]["uses_caller"]:
                    body.append(["expr", ["call", d, [["lit", "p"] for _ in range(self.info[d]["arity"])]]])
        if self.k.enable_loop and not self.k.loop_only_in_call_expr:
            fix_loop_scopes(body, self.k)
        return body


def _callable_scopes(body):
    """(scope body, is it the body of a def / call / block) for the template and every callable in it"""
    yield body
    for n in walk(body):
        if n[0] in ("def", "call", "block"):
            yield sub_bodies(n)[0]


def fix_loop_scopes(body, knobs):
    """`loop` used ONLY in a <%call expr> under a `% for` is not seen by mako's LoopVariable (recorded finding
    F-C03-5): unless the knobs ask for that shape, put a direct `${loop.index}` into such loops.  (A mention only
    inside a nested def or <%call> body is fine since /repo bca4969: the function holding the `% for` then
    creates its `__M_loop`.)"""
    def fix(b):
        for n in b:
            if n[0] == "for":
                in_call_expr = any(c[0] == "call" and ex_mentions_loop(c[1]) for c in walk(n[3]))
                if in_call_expr and not detected(n) and not knobs.loop_only_in_call_expr:
                    n[3].append(["expr", ["loop", "index"]])
            if n[0] in ("if", "for", "while", "try", "with"):
                for sb in sub_bodies(n):
                    fix(sb)
    for scope in _callable_scopes(body):
        fix(scope)
