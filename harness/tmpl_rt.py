"""Runtime helpers that generated templates import in their `<%! %>` block (see gen_template.py).

The *exception oracle*: a global counter of evaluation points; the evaluation point whose number equals the
crash point `k` raises `Boom`.  Every helper that counts is one evaluation point of the Lean target model
(`Expr.boom`, `Expr.filt`, `Stmt.whileLt`, decorated calls).
"""
from __future__ import annotations


class Boom(Exception):
    """raised by the evaluation point number k"""

    def __init__(self, at):
        Exception.__init__(self, "boom at evaluation point %d" % at)
        self.at = at


class AbortRequest(BaseException):
    """not derived from Exception, with constructor arguments (cannot be re-created from its class alone)"""

    def __init__(self, status, location):
        BaseException.__init__(self, status, location)
        self.status = status
        self.location = location


class State:
    cnt = 0
    k = -1
    last = None        # the object raised (identity is checked by `unhandled_propagates_unchanged`)
    factory = None     # optional: evaluation point number -> exception object to raise instead of Boom
    trace = None       # optional list of labels of the evaluation points passed


STATE = State()


def reset(k=-1, trace=False, factory=None):
    STATE.cnt = 0
    STATE.k = k
    STATE.last = None
    STATE.factory = factory
    STATE.trace = [] if trace else None


def tick(label="?"):
    i = STATE.cnt
    STATE.cnt = i + 1
    if STATE.trace is not None:
        STATE.trace.append(label)
    if i == STATE.k:
        STATE.last = STATE.factory(i) if STATE.factory is not None else Boom(i)
        raise STATE.last
    return i


def boom():
    tick("boom")
    return ""


def below(m):
    i = tick("while")
    return i < m


def _mkflt(i):
    def flt(s):
        tick("flt%d" % i)
        return "%d(%s)" % (i, s)
    flt.__name__ = "flt%d" % i
    return flt


NFILTERS = 6
for _i in range(NFILTERS):
    globals()["flt%d" % _i] = _mkflt(_i)


def deco(fn):
    """`decorator="deco"`: an evaluation point before and one after the decorated callable"""
    def wrapped(context, *a, **kw):
        tick("deco-pre")
        r = fn(*a, **kw)
        tick("deco-post")
        return r
    return wrapped


def probe(context):
    """stack depths of the real Context, as the model's `Expr.probe` prints them"""
    cs = context.caller_stack
    return "%d.%d.%d" % (len(context._buffer_stack), len(cs), 0 if cs.nextcaller is None else 1)


PRELUDE = "<%! from harness.tmpl_rt import boom, below, deco, probe, " + \
    ", ".join("flt%d" % i for i in range(NFILTERS)) + " %>"
