"""Runtime helpers imported by the templates of the C03 check (and by its native reference functions).

Evaluation points come from harness/tmpl_rt.py (one global counter; the evaluation point whose number equals the
crash point raises).  Added here: a second planted exception class (`kboom` raises KeyError), a context manager for
`% with`, and the native `loop` object of the reference renderer.
"""
from __future__ import annotations

from harness import tmpl_rt as _rt
from harness.tmpl_rt import Boom, STATE, below, boom, probe, tick  # noqa: F401 (re-exported)
from harness.tmpl_rt import flt0, flt1, flt2, flt3, flt4, flt5  # noqa: F401


class WithState:
    opened = 0
    closed = 0
    pulled = 0


WS = WithState()


def reset(k=-1):
    _rt.reset(k)
    WS.opened = 0
    WS.closed = 0
    WS.pulled = 0


def kboom():
    """evaluation point that raises KeyError (not Boom) when it is the crash point"""
    i = STATE.cnt
    STATE.cnt = i + 1
    if i == STATE.k:
        STATE.last = KeyError("kboom %d" % i)
        raise STATE.last
    return ""


class cm:
    """`% with cm('t') as v:` binds 't!' and counts entries / exits; exceptions pass through"""

    def __init__(self, tag):
        self.tag = tag

    def __enter__(self):
        WS.opened += 1
        return self.tag + "!"

    def __exit__(self, *exc):
        WS.closed += 1
        return False


def closedcount():
    return "%d/%d" % (WS.closed, WS.opened)


def pdepth(lp):
    """walk `loop.parent, loop.parent.parent, …` up to None: the number of enclosing loop contexts"""
    n = 0
    p = lp.parent
    while p is not None:
        n += 1
        if n > 20:
            raise RuntimeError("parent chain does not end in None")
        p = p.parent
    return n


def gen(items):
    """an iterable without __len__"""
    return (x for x in items)


def tgen(items):
    """a LAZY iterable with observable laziness: producing an item is an evaluation point (it raises when it is
    the crash point - a generator that fails part way) and is counted (`pulledcount()`): a loop over it must
    interleave production and body, lose nothing written before a failure, and leave unconsumed what comes after
    a `break` / `return`"""
    for x in items:
        boom()
        WS.pulled += 1
        yield x


def pulledcount():
    return "<%d>" % WS.pulled


PRELUDE = ("<%! from harness.c03_rt import boom, kboom, below, Boom, cm, closedcount, gen, tgen, pulledcount, probe, pdepth, "
           "flt0, flt1, flt2, flt3, flt4, flt5 %>")


# ------------------------------------------------------------------------------------------ reference side

class TemplateError(Exception):
    """the reference renderer's own error (no loop context, no caller …)"""


class NLoop:
    """the `loop` object of the native reference: plain values computed from enumerate() and the length of the
    materialised iterable"""

    def __init__(self, index, n, parent):
        self.index = index
        self.n = n                  # None: a lazy iterable, whose length is not known while it is consumed
        self.parent = parent
        self.first = index == 0
        self.even = index % 2 == 0
        self.odd = index % 2 == 1
        if n is not None:
            self.last = index == n - 1
            self.reverse_index = n - index - 1

    def cycle(self, *values):
        if not values:
            raise ValueError("You must provide values to cycle through")
        return values[self.index % len(values)]


class NCaller:
    def __init__(self, body):
        self.body = body


def noloop():
    raise TemplateError("no loop context")
