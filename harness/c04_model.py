"""C04 helper: (a) encode the real parse tree of a template for the Lean model (per-construct declared /
undeclared identifier sets are taken from mako's own nodes – they are inputs of the model), (b) parse the
model's answer, (c) read the declaration prelude of every generated function out of `Template.code` with `ast`.
"""
from __future__ import annotations

import ast
import re

from harness.common import enc, dec


def enc_names(xs):
    xs = list(xs)
    return "+".join(enc(x) for x in xs) if xs else "_"


def dec_names(f):
    return [] if f == "_" else [dec(x) for x in f.split("+")]


# --------------------------------------------------------------------------- (a) parse tree -> wire

class Encoded:
    def __init__(self):
        self.tokens = []
        self.module_declared = set()
        self.ns_names = []
        self.has_ns_imports = False
        self.page_enable_loop = False
        self.tags = {}            # tag -> node
        self.sid_tag = {}         # S__ site id -> tag of the node containing it
        self.unsupported = []
        self.scope_of = {}        # tag -> path of the generated function the node's code is emitted into
        self.mark_tag = {}        # marker id ("ASG3", "LOOP4", …) -> tag of the node containing M__('<id>:…')
        self.loop_fors = []       # tags of `% for` lines whose line or suite mentions `loop` (codegen.LoopVariable)


SID = re.compile(r"S__\((\d+)\s*,")
MID = re.compile(r"M__\('([A-Z]+\d+):")


def _generated_flag(name):
    """a Bool fact of lean/MakoModel/Generated/Names.lean (regenerated from the code under test before every run)"""
    import os
    path = os.path.join(os.path.dirname(os.path.dirname(os.path.abspath(__file__))), "lean", "MakoModel", "Generated", "Names.lean")
    m = re.search(r"def %s : Bool := (true|false)" % name, open(path, encoding="utf-8").read())
    return bool(m) and m.group(1) == "true"


def encode_template(text, imports=(), filename=None, loop_enabled=True):
    """lex `text` with the real lexer and encode its node tree"""
    from mako import lexer, parsetree, ast as mast
    for_reads_loop = _generated_flag("forLineReadsLoop")
    node = lexer.Lexer(text, filename).parse()
    e = Encoded()
    counter = [0]
    for imp in imports:
        code = mast.PythonCode(imp + "\n", source="", lineno=0, pos=0, filename="template defined imports")
        e.module_declared |= set(code.declared_identifiers)

    cur = [("render_body",)]

    def tag_of(n, texts=()):
        counter[0] += 1
        t = counter[0]
        e.tags[t] = n
        e.scope_of[t] = cur[0]
        for tx in texts:
            for m in SID.finditer(tx or ""):
                e.sid_tag[int(m.group(1))] = t
            for m in MID.finditer(tx or ""):
                e.mark_tag[m.group(1)] = t
        return t

    def sub(path, nodes, out, incall=None):
        saved = cur[0]
        cur[0] = path
        walk(nodes, out, False, incall)
        cur[0] = saved

    def walk(nodes, out, top, incall=None):
        for n in nodes:
            if isinstance(n, (parsetree.Text, parsetree.Comment)):
                continue
            if isinstance(n, parsetree.Expression):
                t = tag_of(n, [n.text, n.escapes])
                out += ["L", str(t), enc_names(sorted(n.declared_identifiers())), enc_names(sorted(n.undeclared_identifiers()))]
            elif isinstance(n, parsetree.ControlLine):
                if n.isend:
                    continue
                t = tag_of(n, [n.text])
                if n.keyword == "for":
                    from mako import codegen
                    lv = codegen.LoopVariable()
                    n.accept_visitor(lv)
                    if lv.detected:
                        e.loop_fors.append(t)
                und = set(n.undeclared_identifiers())
                if t in e.loop_fors and for_reads_loop and (loop_enabled or e.page_enable_loop):
                    # _Identifiers.visitControlLine (regenerated fact): such a line counts as a reader of `loop`
                    und.add("loop")
                out += ["L", str(t), enc_names(sorted(n.declared_identifiers())), enc_names(sorted(und))]
            elif isinstance(n, parsetree.Code):
                if n.ismodule:
                    if top:
                        e.module_declared |= set(n.declared_identifiers())
                    continue
                t = tag_of(n, [n.text])
                out += ["C", str(t), enc_names(sorted(n.declared_identifiers())), enc_names(sorted(n.undeclared_identifiers()))]
            elif isinstance(n, parsetree.IncludeTag):
                t = tag_of(n, list(n.attributes.values()))
                out += ["L", str(t), enc_names(sorted(n.declared_identifiers())), enc_names(sorted(n.undeclared_identifiers()))]
            elif isinstance(n, parsetree.NamespaceTag):
                if top:
                    e.ns_names.append(n.name)
                    if "import" in n.attributes:
                        e.has_ns_imports = True
                if n.nodes:
                    e.unsupported.append("namespace-with-defs")
            elif isinstance(n, parsetree.InheritTag):
                continue
            elif isinstance(n, parsetree.TextTag):
                t = tag_of(n)
                out += ["T", str(t), enc_names(sorted(n.undeclared_identifiers()))]
            elif isinstance(n, parsetree.PageTag):
                t = tag_of(n)
                if top:
                    try:
                        e.page_enable_loop = bool(eval(n.attributes.get("enable_loop", "False")))
                    except Exception:
                        pass
                    if n.body_decl.kwargs:
                        e.unsupported.append("page-kwargs")
                out += ["P", str(t), enc_names(list(n.declared_identifiers())), enc_names(sorted(n.undeclared_identifiers()))]
            elif isinstance(n, parsetree.DefTag):
                t = tag_of(n)
                out += ["D", str(t), enc(n.funcname), enc_names(list(n.declared_identifiers())),
                        enc_names(sorted(n.undeclared_identifiers()))]
                path = ("render_" + n.funcname,) if top else (incall or cur[0]) + (n.funcname,)
                sub(path, n.nodes, out)
                out.append(".")
            elif isinstance(n, parsetree.BlockTag):
                t = tag_of(n)
                out += ["B", str(t), "_" if n.is_anonymous else enc(n.name), enc(n.funcname),
                        enc_names(list(n.declared_identifiers())), enc_names(sorted(n.undeclared_identifiers()))]
                path = (incall or cur[0]) + (n.funcname,) if n.is_anonymous else ("render_" + n.name,)
                sub(path, n.nodes, out)
                out.append(".")
            elif isinstance(n, (parsetree.CallTag, parsetree.CallNamespaceTag)):
                t = tag_of(n, [n.expression])
                out += ["K", str(t), enc_names(list(n.body_decl.allargnames)), enc_names(sorted(n.declared_identifiers())),
                        enc_names(sorted(n.undeclared_identifiers()))]
                sub(cur[0] + (("ccall", t), "body"), n.nodes, out, incall=cur[0] + (("ccall", t),))
                out.append(".")
            else:
                e.unsupported.append(type(n).__name__)
    walk(node.nodes, e.tokens, True)
    e.tokens.append(".")
    return e


def request(e, strict, enable_loop, imp=(), ctx=(), bi=(), extra=(), stops=(), ctx_none=()):
    """the `names full …` request line for an encoded template"""
    el = bool(enable_loop or e.page_enable_loop)
    head = ["names", "full", enc_names(sorted(e.module_declared)), enc_names(e.ns_names),
            "1" if e.has_ns_imports else "0", "1" if strict else "0", "1" if el else "0", "1" if enable_loop else "0",
            enc_names(sorted(imp)), enc_names(sorted(ctx)), enc_names(sorted(ctx_none)), enc_names(sorted(bi)), enc_names(sorted(extra)),
            "+".join(str(s) for s in stops) if stops else "_",
            "+".join(str(s) for s in e.loop_fors) if e.loop_fors else "_"]
    return " ".join(head + e.tokens)


# --------------------------------------------------------------------------- (b) answer of the model

def parse_path(p):
    out = []
    for el in p.split(">"):
        if el[0] == "f":
            out.append(dec(el[1:]))
        elif el[0] == "c":
            out.append(("ccall", int(el[1:])))
        else:
            out.append("body")
    return tuple(out)


def parse_full(resp):
    """-> dict(scopes={path: {...}}, conflicts=[names], ml={stop: (found, {name: val}, sfound, {name: val})})"""
    if resp in ("bad-args", "bad-op", "bad-request"):
        raise ValueError("model: " + resp)
    main, c, ml = resp.split(" #")
    scopes = {}
    for s in main.split(";"):
        f = dict(kv.split("=", 1) for kv in s.split("|"))
        decls = {}
        if f["D"] != "_":
            for d in f["D"].split("+"):
                n, k = d.split(":")
                decls[dec(n)] = k
        res = {}
        if f["R"] != "_":
            for r in f["R"].split("+"):
                n, impl, val, spec = r.split(":")
                res[dec(n)] = (impl, val, spec)
        scopes[parse_path(f["P"])] = {
            "kind": f["K"], "tag": int(f["G"]), "toplevel": f["T"] == "1", "loop": f["L"] == "1",
            "mlocals": None if f["M"] == "none" else set(dec_names(f["M"])),
            "decls": decls, "order": dec_names(f["O"]),
            "mlocals_order": None if f["MO"] == "none" else dec_names(f["MO"]), "conflicts": dec_names(f["X"]),
            "updates": None if f["U"] == "-" else [dec_names(x) for x in f["U"].split("/")[1:]], "entry_errors": dec_names(f["E"]), "res": res,
            "for_errors": [] if f["FE"] == "_" else [int(x) for x in f["FE"].split("+")]}
    assert c.startswith("C=") and ml.startswith("ML=")
    mls = {}
    if ml[3:] != "_":
        for item in ml[3:].split(";"):
            k, fa, a, fb, b = item.split(":")

            def dd(x):
                return {} if x == "_" else {dec(kv.split("=")[0]): kv.split("=")[1] for kv in x.split("+")}
            mls[int(k)] = (fa == "1", dd(a), fb == "1", dd(b))
    return {"scopes": scopes, "conflicts": dec_names(c[2:]), "ml": mls}


# --------------------------------------------------------------------------- (c) Template.code -> scopes

def _is_name(n, name):
    return isinstance(n, ast.Name) and n.id == name


def _call_name(n):
    """dotted name of a call's function"""
    if isinstance(n, ast.Call):
        f = n.func
        parts = []
        while isinstance(f, ast.Attribute):
            parts.append(f.attr)
            f = f.value
        if isinstance(f, ast.Name):
            parts.append(f.id)
            return ".".join(reversed(parts))
    return None


def _const(n):
    return n.value if isinstance(n, ast.Constant) else None


def _fetch_shape(st, nxt):
    """(name, shape, consumed) for the statements emitted by write_variable_declares for a plain identifier"""
    # try: x = context['x'] / except KeyError: raise NameError("'x' is not defined")
    if isinstance(st, ast.Try) and len(st.body) == 1 and isinstance(st.body[0], ast.Assign) and len(st.handlers) == 1:
        a = st.body[0]
        h = st.handlers[0]
        if (isinstance(a.value, ast.Subscript) and _is_name(a.value.value, "context") and _is_name(h.type, "KeyError")
                and len(h.body) == 1 and isinstance(h.body[0], ast.Raise) and _call_name(h.body[0].exc) == "NameError"):
            x = a.targets[0].id
            if _const(a.value.slice) == x and _const(h.body[0].exc.args[0]) == "'%s' is not defined" % x:
                return x, "strict", 1
    if isinstance(st, ast.Assign) and len(st.targets) == 1 and isinstance(st.targets[0], ast.Name) and isinstance(st.value, ast.Call):
        x = st.targets[0].id
        cn = _call_name(st.value)
        args = st.value.args
        if cn == "context.get" and len(args) == 2 and _const(args[0]) == x and _is_name(args[1], "UNDEFINED"):
            return x, "plain", 1
        if cn == "_import_ns.get" and len(args) == 2 and _const(args[0]) == x:
            if _call_name(args[1]) == "context.get" and _const(args[1].args[0]) == x and _is_name(args[1].args[1], "UNDEFINED"):
                return x, "import", 1
            if _is_name(args[1], "UNDEFINED") and isinstance(nxt, ast.If):
                t = nxt.test
                if (isinstance(t, ast.Compare) and _is_name(t.left, x) and isinstance(t.ops[0], ast.Is)
                        and _is_name(t.comparators[0], "UNDEFINED") and len(nxt.body) == 1):
                    inner = _fetch_shape(nxt.body[0], None)
                    if inner and inner[0] == x and inner[1] == "strict":
                        return x, "import-strict", 2
        if cn == "_mako_get_namespace" and len(args) == 2 and _is_name(args[0], "context") and _const(args[1]) == x:
            return x, "ns", 1
    return None


class CodeScope:
    def __init__(self):
        self.decls = {}          # name -> kind letter as the model reports it
        self.shapes = set()
        self.loop = False
        self.mlocals = None
        self.mlocals_order = None
        self.updates = []        # key lists of the `__M_locals.update(...)` statements of the function itself, in order
        self.importns = False
        self.populate = []
        self.odd = []            # prelude statements not understood
        self.dups = []           # names declared twice
        self.after_writer = []   # declarations found after `__M_writer = context.writer()` (must be empty)


def _unwrap_try(body):
    """generated functions: `__M_caller = …; try: <everything> finally: …`"""
    stmts = list(body)
    if stmts and isinstance(stmts[0], ast.Assign) and _is_name(stmts[0].targets[0], "__M_caller"):
        stmts = stmts[1:]
    if len(stmts) >= 1 and isinstance(stmts[0], ast.Try) and stmts[0].finalbody:
        return list(stmts[0].body)
    return stmts


def _is_stub(fn):
    if len(fn.body) == 1 and isinstance(fn.body[0], ast.Return) and isinstance(fn.body[0].value, ast.Call):
        c = fn.body[0].value
        if isinstance(c.func, ast.Name) and c.func.id == "render_" + fn.name and c.args:
            a0 = c.args[0]
            if _is_name(a0, "context"):
                return "S0"
            if _call_name(a0) == "context._locals" and len(a0.args) == 1 and _is_name(a0.args[0], "__M_locals"):
                return "S1"
    return None


def analyse_code(code):
    """-> {path tuple: CodeScope}; a `ccall` is named ("ccall", k) by its occurrence index k within its function"""
    tree = ast.parse(code)
    scopes = {}

    def find_ccalls(stmts, acc):
        for st in stmts:
            if isinstance(st, ast.FunctionDef):
                if st.name == "ccall":
                    acc.append(st)
                continue
            for fld in ("body", "orelse", "finalbody"):
                sub = getattr(st, fld, None)
                if isinstance(sub, list):
                    find_ccalls(sub, acc)
            for h in getattr(st, "handlers", []) or []:
                find_ccalls(h.body, acc)

    def find_updates(stmts, acc):
        for st in stmts:
            if isinstance(st, ast.FunctionDef):
                continue
            if isinstance(st, ast.Expr) and _call_name(st.value) == "__M_locals.update":
                keys = None
                for n in ast.walk(st.value):
                    if isinstance(n, ast.ListComp) and isinstance(n.generators[0].iter, ast.List):
                        keys = [_const(e) for e in n.generators[0].iter.elts]
                acc.append(keys)
                continue
            for fld in ("body", "orelse", "finalbody"):
                sub = getattr(st, fld, None)
                if isinstance(sub, list):
                    find_updates(sub, acc)
            for h in getattr(st, "handlers", []) or []:
                find_updates(h.body, acc)

    def do_function(fn, path, unwrap=True):
        sc = CodeScope()
        scopes[path] = sc
        stmts = _unwrap_try(fn.body) if unwrap else list(fn.body)
        i = 0
        seen_writer = False
        rest_start = len(stmts)
        while i < len(stmts):
            st = stmts[i]
            nxt = stmts[i + 1] if i + 1 < len(stmts) else None
            if isinstance(st, ast.Assign) and _is_name(st.targets[0], "__M_writer") and _call_name(st.value) == "context.writer":
                rest_start = i + 1
                seen_writer = True
                break
            if isinstance(st, ast.Expr) and _call_name(st.value) == "context._push_buffer":
                i += 1
                continue
            if isinstance(st, ast.Assign) and _is_name(st.targets[0], "__M_locals") and _call_name(st.value) == "__M_dict_builtin":
                sc.mlocals = {k.arg for k in st.value.keywords}
                sc.mlocals_order = [k.arg for k in st.value.keywords]
                i += 1
                continue
            if isinstance(st, ast.Assign) and _is_name(st.targets[0], "_import_ns") and isinstance(st.value, ast.Dict):
                sc.importns = True
                i += 1
                continue
            if isinstance(st, ast.Expr) and isinstance(st.value, ast.Call) and isinstance(st.value.func, ast.Attribute) \
                    and st.value.func.attr == "_populate":
                sc.populate.append(ast.unparse(st.value.args[1]))
                i += 1
                continue
            if isinstance(st, ast.Assign) and len(st.targets) == 2 and _is_name(st.targets[0], "loop") \
                    and _call_name(st.value) == "runtime.LoopStack":
                sc.loop = True
                i += 1
                continue
            if isinstance(st, ast.FunctionDef):
                stub = _is_stub(st)
                if st.name in sc.decls:
                    sc.dups.append(st.name)
                if stub:
                    sc.decls[st.name] = stub
                else:
                    sc.decls[st.name] = "I"
                    do_function(st, path + (st.name,))
                i += 1
                continue
            fs = _fetch_shape(st, nxt)
            if fs:
                x, shape, used = fs
                if x in sc.decls:
                    sc.dups.append(x)
                sc.decls[x] = "N" if shape == "ns" else "F"
                if shape != "ns":
                    sc.shapes.add(shape)
                i += used
                continue
            sc.odd.append(ast.unparse(st)[:80])
            i += 1
        if not seen_writer:
            sc.odd.append("no __M_writer = context.writer()")
        body = stmts[rest_start:]
        for st in body:
            if _fetch_shape(st, None) or (isinstance(st, ast.FunctionDef) and st.name != "ccall" and _is_stub(st)):
                sc.after_writer.append(ast.unparse(st)[:60])
        find_updates(body, sc.updates)
        ccs = []
        find_ccalls(body, ccs)
        for k, cc in enumerate(ccs):
            for st in cc.body:
                if isinstance(st, ast.FunctionDef):
                    if st.name == "body":
                        do_function(st, path + (("ccall", k), "body"), unwrap=False)
                    else:
                        do_function(st, path + (("ccall", k), st.name))
        return sc

    for st in tree.body:
        if isinstance(st, ast.FunctionDef) and st.name.startswith("render_"):
            do_function(st, (st.name,))
    return scopes


def align_ccalls(model_scopes):
    """rename ("ccall", tag) path elements of the model to ("ccall", k): k = rank of the tag among the calls
    emitted into the same function"""
    groups = {}
    for p in model_scopes:
        for i, el in enumerate(p):
            if isinstance(el, tuple):
                groups.setdefault(p[:i], set()).add(el[1])
    rank = {pre: {t: k for k, t in enumerate(sorted(ts))} for pre, ts in groups.items()}
    out = {}
    for p, v in model_scopes.items():
        q = []
        for i, el in enumerate(p):
            if isinstance(el, tuple):
                # the prefix must be expressed in original tags
                q.append(("ccall", rank[p[:i]][el[1]]))
            else:
                q.append(el)
        out[tuple(q)] = v
    return out
