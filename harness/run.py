"""Entry point of every check:  ./check <ID> [--tier quick|thorough] [--seed N] [--replay FILE]

Pipeline (DESIGN.md section 2): regen -> prove -> audit -> correspond -> oracle -> classify -> evidence.
Exit 0: property held on everything explored (KNOWN-FINDING lines may be printed).
Exit 1: a line `VIOLATION property=<ID> replay=<path>[ no-failing-input-found]` was printed.
Exit 2: internal error / timeout (neither verdict).
"""
from __future__ import annotations

import argparse
import importlib
import json
import os
import sys
import time
import traceback

HERE = os.path.dirname(os.path.abspath(__file__))
VERIF = os.path.dirname(HERE)
sys.path.insert(0, VERIF)
REPO = os.environ.get("MAKO_REPO", "/repo")
sys.path.insert(0, REPO)
os.environ.setdefault("MAKO_VERIF", "1")

from harness import common  # noqa: E402
from harness.common import Ctx, write_json_atomic, jsonable, case_hash  # noqa: E402


def _git_head(d):
    """commit the tree is at (+ '-dirty' when tracked files differ from it)"""
    try:
        h = common.subprocess.run(["git", "-C", d, "rev-parse", "--short", "HEAD"], capture_output=True, text=True,
                                  timeout=20).stdout.strip()
        dirty = common.subprocess.run(["git", "-C", d, "status", "--porcelain", "--untracked-files=no", "--", ".",
                                       ":!evidence", ":!lean/Audit"],        # rewritten by the checks themselves
                                      capture_output=True, text=True, timeout=20).stdout.strip()
        return h + ("-dirty" if dirty else "")
    except Exception:      # noqa: BLE001 - informational only
        return "unknown"


def _descendants(pid):
    """pids of all live descendants of `pid` (from /proc; Linux)"""
    kids = {}
    for d in os.listdir("/proc"):
        if d.isdigit():
            try:
                with open("/proc/%s/stat" % d) as f:
                    st = f.read()
                ppid = int(st[st.rindex(")") + 2:].split()[1])
                kids.setdefault(ppid, []).append(int(d))
            except (OSError, ValueError):
                pass
    out, todo = [], [pid]
    while todo:
        for k in kids.get(todo.pop(), []):
            out.append(k)
            todo.append(k)
    return out


def _install_deadline(pid, tier):
    """a check that does not finish (a dead pool worker, a hung driver) ends with exit 2 - neither verdict - instead
    of hanging: VERIF_DEADLINE seconds (default: quick 1500, thorough 3600) after start the run is abandoned"""
    import signal
    import threading
    limit = float(os.environ.get("VERIF_DEADLINE", "1500" if tier == "quick" else "3600"))

    def abort():
        sys.stderr.write("[%s] deadline of %.0f s passed: the run is abandoned (exit 2, no verdict)\n" % (pid, limit))
        sys.stderr.flush()
        for k in _descendants(os.getpid()):
            try:
                os.kill(k, signal.SIGKILL)
            except OSError:
                pass
        os._exit(2)
    t = threading.Timer(limit, abort)
    t.daemon = True
    t.start()


def main(argv=None):
    ap = argparse.ArgumentParser()
    ap.add_argument("pid")
    ap.add_argument("--tier", default=os.environ.get("VERIF_TIER", "quick"), choices=["quick", "thorough"])
    ap.add_argument("--seed", type=int, default=None)
    ap.add_argument("--replay", default=None)
    ap.add_argument("--no-lean", action="store_true", help="skip build/audit (debugging only; evidence not written)")
    args = ap.parse_args(argv)
    seed = args.seed
    if seed is None:
        try:
            seed = int(os.environ.get("VERIF_SEED", "0"))
        except ValueError:
            seed = 0
    pid = args.pid
    if not args.replay:
        _install_deadline(pid, args.tier)
    ctx = Ctx(pid, args.tier, seed)
    try:
        mod = importlib.import_module("harness.props." + pid)
    except Exception:
        traceback.print_exc()
        return 2

    if args.replay:
        data = json.load(open(args.replay))
        if not hasattr(mod, "replay"):
            print("no replay function for", pid)
            return 2
        try:
            ok = mod.replay(ctx, data)
        except Exception:
            traceback.print_exc()
            return 2
        print("REPLAY property=%s result=%s" % (pid, "holds" if ok else "fails"))
        return 0 if ok else 1

    try:
        return pipeline(ctx, mod, args)
    except common.subprocess.TimeoutExpired:
        traceback.print_exc()
        return 2
    except KeyboardInterrupt:
        return 2


def pipeline(ctx, mod, args):
    pid = ctx.pid
    # 1. regen --------------------------------------------------------------------------------
    regen_groups = getattr(mod, "REGEN", [])
    if regen_groups:
        sys.path.insert(0, os.path.join(VERIF, "tools"))
        import regen
        for g in regen_groups:
            try:
                changed = regen.regenerate(g, REPO, ctx.log)
                ctx.branch("regen:%s:%s" % (g, "rewritten" if changed else "unchanged"))
            except regen.RegenError as e:
                ctx.broke("regen:" + g, str(e))
                ctx.log("regen %s FAILED: %s" % (g, e))

    theorems, examples = common.props_theorems(pid)
    ctx.obligations = list(theorems)
    targets = ["MakoModel.Props." + pid] + list(getattr(mod, "LEAN_EXTRA_TARGETS", []))
    checker_cmd = "cd lean && lake build %s && lake env lean Audit/%s.lean" % (" ".join(targets), pid)
    if not args.no_lean:
        # 2. prove -----------------------------------------------------------------------------
        try:
            common.gen_drivers(ctx.log)
            for op in getattr(mod, "DRIVER_OPS", []):        # others are built on first use
                common.driver_for(op, ctx.log)
        except common.LeanError as e:
            ctx.broke("driver-build", str(e))
        ok, out = common.lean_build(targets, ctx.log)
        if not ok:
            ctx.broke("proof:lake build " + " ".join(targets), out)
        # 3. audit -----------------------------------------------------------------------------
        hits = common.grep_forbidden(pid, getattr(mod, 'DRIVER_OPS', []))
        if hits:
            ctx.broke("audit:forbidden-token", "\n".join(hits))
        if ok:
            aok, axioms, aout = common.lean_audit(pid, theorems, ctx.log)
            ctx.axioms = axioms
            if not aok:
                ctx.broke("audit:axioms", aout)
            else:
                ctx.discharged = [t for t in theorems if t in axioms]
        if ctx.tier == "thorough" and ok:
            cok, cout = common.leanchecker(targets, ctx.log)
            checker_cmd += " && lake env leanchecker " + " ".join(targets)
            if not cok:
                ctx.broke("leanchecker", cout)

    # 4./5. correspondence + oracle ------------------------------------------------------------
    try:
        mod.run(ctx)
    except common.LeanError as e:
        ctx.broke("correspondence:driver", "%s\n%s" % (e, traceback.format_exc()))
    except Exception as e:  # a harness crash is a broken tie, not a verdict
        ctx.broke("correspondence:harness-exception", traceback.format_exc())
        ctx.log("harness exception: %r" % (e,))
    for name, s in ctx.streams.items():
        if s["kind"] == "corr" and s["disagreements"]:
            first = next((d for d in ctx.disagreements if d["stream"] == name), None)
            ctx.broke("correspondence:" + name, json.dumps(jsonable(first))[:4000])

    # 6. classify ------------------------------------------------------------------------------
    known = common.load_known()
    reported_known = {}
    new = []
    for v in ctx.violations:
        hit = None
        for e in known.get("findings", []):
            if common.finding_matches(e, pid, v):
                hit = e
                break
        if hit is not None:
            reported_known.setdefault(hit["id"], (hit, v))
        else:
            new.append(v)
    for fid, (e, v) in sorted(reported_known.items()):
        print("KNOWN-FINDING: property=%s %s: %s" % (pid, fid, e.get("description", "")))

    rc = 0
    replay_path = None
    if new:
        v = new[0]
        replay_path = os.path.join(VERIF, "replays", "%s-%s.json" % (pid, case_hash(v)))
        write_json_atomic(replay_path, {
            "property": pid, "kind": "failing-input", "seed": ctx.seed, "tier": ctx.tier,
            "site": v["site"], "stream": v["stream"], "case": v["case"], "detail": v["detail"],
            "other_violations": new[1:20],
            "broken": ctx.broken,
            "how_to_replay": "./check %s --replay %s" % (pid, os.path.relpath(replay_path, VERIF)),
        })
        print("VIOLATION property=%s replay=%s" % (pid, replay_path))
        rc = 1
    elif ctx.broken:
        # a proof obligation, the audit or a correspondence no longer checks, and the search found no
        # failing input that is not already a recorded finding
        replay_path = os.path.join(VERIF, "replays", "%s-broken-%s.json" % (pid, case_hash([b["what"] for b in ctx.broken])))
        write_json_atomic(replay_path, {
            "property": pid, "kind": "no-failing-input-found", "seed": ctx.seed, "tier": ctx.tier,
            "no_longer_checks": [b["what"] for b in ctx.broken],
            "broken": ctx.broken,
            "first_disagreements": ctx.disagreements[:10],
            "oracle_cases_searched": sum(s["cases"] for s in ctx.streams.values() if s["kind"] == "oracle"),
        })
        print("VIOLATION property=%s replay=%s no-failing-input-found" % (pid, replay_path))
        rc = 1

    # 7. evidence ------------------------------------------------------------------------------
    if not args.no_lean:
        evaluations = sum(s["cases"] for s in ctx.streams.values())
        cov = {
            "obligations": len(ctx.obligations),
            "discharged": len(ctx.discharged),
            "checker_cmd": checker_cmd,
            "trusted_base": common.TRUSTED_BASE + list(getattr(mod, "TRUSTED_EXTRA", [])),
            "theorems": [{"name": t, "axioms": ctx.axioms.get(t)} for t in ctx.obligations],
            "nonvacuity_examples": examples,
            "evaluations": evaluations,
            "distinct_nontrivial": len(ctx.nontrivial),
            "distinct_nontrivial_capped": len(ctx.nontrivial) >= 2_000_000,   # the counter stops at two million
            "repo": REPO, "repo_head": _git_head(REPO), "verif_head": _git_head(VERIF),
            "rule": getattr(mod, "RULE", ""),
            "samples": ctx.samples or ["(no sample recorded)"],
            "streams": ctx.streams,
            "branches": dict(sorted(ctx.branches.items())),
            "correspondence_disagreements": len(ctx.disagreements),
            "oracle_violations_total": len(ctx.violations),
            "oracle_violations_known": sorted(reported_known),
            "oracle_violations_new": len(new),
            "broken": [b["what"] for b in ctx.broken],
            "model_requests_answered_by_lean_driver": ctx._drv.n if ctx._drv else 0,
            "notes": ctx.notes,
        }
        if ctx.streams and all(s.get("exhaustive") for s in ctx.streams.values()):
            cov["exhaustive"] = True
        ev = {
            "property_id": pid,
            "tier": ctx.tier,
            "seed": ctx.seed,
            "level": "proof",
            "coverage": cov,
            "assumptions": list(getattr(mod, "ASSUMPTIONS", [])),
            "wall_s": round(ctx.elapsed(), 2),
            "violations": len(new) + (1 if (ctx.broken and not new) else 0),
        }
        # evidence/ describes runs against /repo itself; a run against a scratch checkout (MAKO_REPO, seeded changes,
        # revert tests) leaves its record in evidence_scratch/ (not committed) so that it never replaces it
        evdir = "evidence" if os.path.realpath(REPO) == "/repo" else "evidence_scratch"
        os.makedirs(os.path.join(VERIF, evdir), exist_ok=True)
        write_json_atomic(os.path.join(VERIF, evdir, pid + ".json"), ev)
    ctx.log("done rc=%d: %d theorems (%d discharged), %d cases, %d disagreements, %d violations (%d known), broken=%s"
            % (rc, len(ctx.obligations), len(ctx.discharged), sum(s["cases"] for s in ctx.streams.values()),
               len(ctx.disagreements), len(ctx.violations), len(ctx.violations) - len(new), [b["what"] for b in ctx.broken]))
    return rc


if __name__ == "__main__":
    sys.exit(main())
