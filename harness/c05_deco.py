"""C05 streams about `decorator=` ("a decorator= wraps the call"):

  oracle.decorators   NO Lean.  Defs - TOP-LEVEL (runtime._decorate_toplevel) and NESTED (runtime._decorate_inline) - with
                      rich signatures and a decorator that TRANSFORMS the arguments (replaces keyword values, adds a
                      keyword, drops one, reverses / marks the positionals, calls the def twice with other keywords;
                      harness/c05_rt.py), called along every path on which keywords reach the decorator as keywords:
                      `self.d(..)`, `local.d(..)`, `<%self:d k="..">`, `capture(self.d, ..)`, and by bare name (for a
                      top-level def that goes through the generated stub: ordinary parameters arrive positionally,
                      keyword-only parameters and **kw as keywords).  Expected text: the SAME Python decorator applied to a
                      plain Python function with the same parameter list (Python's own binding), written through a
                      recording fake context.
  corr.deco           the real `_decorate_toplevel` / `_decorate_inline` around a recording render function vs the Lean
                      model (`Codegen/Deco.lean`, driver op `c05 deco`): which (context, positionals, keywords) the
                      render callable is entered with, for every family x small argument lists.
"""
from __future__ import annotations

import copy
import itertools
import json

from harness import c05_rt
from harness import c05_rich as R
from harness.common import enc, dec

FORMS_TOP = ["name", "self", "local", "nstag", "capture-self", "capture-name"]
FORMS_NESTED = ["name", "capture-name"]


# --------------------------------------------------------------------------------------------- template text

def source(spec):
    d = spec["def"]
    fl = d["flags"]
    attrs = ' decorator="xd_%s"' % d["family"]
    if fl.get("buffered"):
        attrs += ' buffered="True"'
    if fl.get("filter"):
        attrs += ' filter="flt1"'
    deftext = '<%%def name="d(%s)"%s>[%s]</%%def>' % (R.sig_text(d["sig"]), attrs, R.show_text(d["sig"]))
    act = spec["act"]
    a = R.actual_text(act)
    form = spec["form"]
    if form == "name":
        s = "${d(%s)}" % a
    elif form in ("self", "local"):
        s = "${%s.d(%s)}" % (form, a)
    elif form == "nstag":
        s = "<%%self:d%s/>" % R.attr_text(act)
    elif form == "capture-self":
        s = "${'p' + capture(self.d%s) + 'q'}" % (", " + a if a else "")
    elif form == "capture-name":
        s = "${'p' + capture(d%s) + 'q'}" % (", " + a if a else "")
    else:
        raise ValueError(form)
    if spec["nested"]:
        return c05_rt.DECO_IMPORT + '<%def name="outer()">' + deftext + "A" + s + "Z</%def>${outer()}"
    return c05_rt.DECO_IMPORT + deftext + "A" + s + "Z"


# --------------------------------------------------------------------------------------------- expectation

class _Ctx:
    def __init__(self):
        self.out = []

    def write(self, s):
        self.out.append(s)


def expect(spec):
    """the same decorator object around a plain Python function; Python's own binding"""
    d = spec["def"]
    sig = d["sig"]
    fl = d["flags"]
    env = spec["env"]
    ctx = _Ctx()
    ns = {}
    exec("def f(%s):\n    return dict(locals())" % R.sig_text(sig), ns)

    def render(*a, **kw):                       # what the def's render callable does with its arguments
        bound = ns["f"](*a, **kw)
        content = "[" + R.show_value(sig, bound) + "]"
        if fl.get("filter"):
            content = "1(%s)" % content
        if fl.get("buffered"):
            return content
        ctx.write(content)
        return ""
    deco = getattr(c05_rt, "xd_" + d["family"])
    plain = deco(render)                        # takes (context, *args, **kw)

    def val(x):
        return env[x["var"]] if isinstance(x, dict) else x
    act = spec["act"]
    args = [val(x) for x in act["args"]]
    if act.get("star"):
        args += list(env[act["star"]])
    kwargs = {}
    for k, v in act["kwargs"]:
        if k in kwargs:
            raise SyntaxError("keyword argument repeated")
        kwargs[k] = val(v)
    if act.get("starstar"):
        for k, v in env[act["starstar"]].items():
            if k in kwargs:
                return ("exc", "TypeError")      # multiple values for keyword argument
            kwargs[k] = v
    form = spec["form"]
    via_stub = (not spec["nested"]) and form in ("name", "capture-name")
    try:
        if via_stub:
            # the generated stub `def d(SIG): return render_d(context, <as_call>)` binds first; ordinary parameters
            # then arrive positionally, keyword-only parameters and **kw as keywords
            b = ns["f"](*args, **kwargs)
            a2 = [b[p] for p in sig["pos"]] + (list(b[sig["star"]]) if sig["star"] else [])
            k2 = {n: b[n] for n, _ in sig["kwonly"]}
            if sig["starstar"]:
                k2.update(b[sig["starstar"]])
            value = plain(ctx, *a2, **k2)
        else:
            value = plain(ctx, *args, **kwargs)
    except TypeError:
        return ("exc", "TypeError")
    side = "".join(ctx.out)
    if form in ("name", "self", "local", "nstag"):
        text = side + value
    else:
        text = "p" + side + "q"          # capture: what was written is the value, the return value is dropped
    return ("val", "A" + text + "Z")


def render(spec):
    from mako.template import Template
    src = source(spec)
    try:
        t = Template(src)
    except Exception as ex:      # noqa
        return ("compile-error", "%s: %s" % (type(ex).__name__, ex)), src
    try:
        return ("val", t.render_unicode(**spec["env"])), src
    except Exception as ex:      # noqa
        return ("exc", type(ex).__name__), src


def check(spec):
    try:
        exp = expect(spec)
    except SyntaxError:
        return "skip", None, None
    got, src = render(spec)
    if got[0] == "compile-error" and "keyword argument repeated" in got[1]:
        return "skip", None, src
    if got != exp:
        return "decorator-does-not-wrap-the-call", {"got": got, "expected": exp}, src
    return None, {"got": got}, src


# --------------------------------------------------------------------------------------------- generation

def gen_case(r):
    nested = r.random() < 0.4
    sig = R.gen_sig(r, ["a", "b", "c", "k", "m", "xs", "kw"])
    if r.random() < 0.5 and not sig["starstar"]:
        sig["starstar"] = "kw"                   # **kw makes added / renamed keywords bind
    family = r.choice(c05_rt.DECO_FAMILIES[1:] + ("kwrepl", "kwadd", "twice"))
    flags = r.choice([{}, {}, {"buffered": True}, {"filter": True}, {"buffered": True, "filter": True}])
    env = {"g": r.choice(["G", "g g"]), "lst": [r.choice(R.VALUES) for _ in range(r.choice([0, 1, 2]))],
           "dct": r.choice([{}, {"extra": "E"}, {"k": "KK"}, {"z": "Z", "y": "Y"}])}
    form = r.choice(FORMS_NESTED if nested else FORMS_TOP)
    act = R.gen_actual(r, sig, ["lst"], ["dct"], wrong=0.06, keywords_only=form == "nstag")
    if form != "nstag" and r.random() < 0.5:
        # push the ordinary parameters to keywords: that is where a decorator's keyword changes show
        n = len(act["args"])
        names = sig["pos"][:n]
        if len(names) == n and not act.get("star"):
            act["kwargs"] = [[p, v] for p, v in zip(names, act["args"])] + act["kwargs"]
            act["args"] = []
    return {"deco": True, "nested": nested, "form": form, "act": act, "env": env,
            "def": {"sig": sig, "family": family, "flags": flags}}


def shrink(spec):
    def bad(s):
        try:
            return check(s)[0] == "decorator-does-not-wrap-the-call"
        except Exception:      # noqa
            return False
    cur = spec
    progress = True
    while progress:
        progress = False
        cands = []
        for key in ("buffered", "filter"):
            if cur["def"]["flags"].get(key):
                c = copy.deepcopy(cur)
                c["def"]["flags"][key] = False
                cands.append(c)
        for key in ("args", "kwargs"):
            for i in range(len(cur["act"][key])):
                c = copy.deepcopy(cur)
                del c["act"][key][i]
                cands.append(c)
        for key in ("star", "starstar"):
            if cur["act"].get(key):
                c = copy.deepcopy(cur)
                c["act"][key] = None
                cands.append(c)
        s = cur["def"]["sig"]
        for i in range(len(s["pos"])):
            c = copy.deepcopy(cur)
            p = c["def"]["sig"]["pos"].pop(i)
            c["def"]["sig"]["defaults"].pop(p, None)
            cands.append(c)
        for i in range(len(s["kwonly"])):
            c = copy.deepcopy(cur)
            del c["def"]["sig"]["kwonly"][i]
            cands.append(c)
        for c in cands:
            if bad(c):
                cur = c
                progress = True
                break
    return cur


# --------------------------------------------------------------------------------------------- streams

def oracle(ctx):
    st = ctx.stream("oracle.decorators", "oracle")
    n = 260 if ctx.quick else 4000
    reported = 0
    for _ in range(n):
        spec = gen_case(ctx.rng)
        site, detail, src = check(spec)
        if site == "skip":
            ctx.branch("deco:skipped")
            continue
        st["cases"] += 1
        ctx.branch("deco:family:" + spec["def"]["family"])
        ctx.branch("deco:path:" + ("inline:" if spec["nested"] else "toplevel:") + spec["form"])
        ctx.branch("deco:keywords-reach-decorator:%s" % bool(spec["act"]["kwargs"] or spec["act"].get("starstar")))
        got = (detail or {}).get("got") or ("?",)
        ctx.branch("deco:outcome:" + (got[0] if got[0] == "val" else str(got[1])))
        if got[0] == "val":
            ctx.nontriv(("deco", json.dumps(spec, sort_keys=True)))
        if site and reported < 3:
            reported += 1
            small = shrink(spec)
            s2, d2, src2 = check(small)
            case = dict(small)
            case["input"] = src2
            ctx.violation(site, case, d2, "oracle.decorators")
    ctx.log("oracle.decorators: %d cases" % st["cases"])


class _RecCtx:
    def __init__(self, cid):
        self.cid = cid

    def write(self, s):
        pass


def _wire_args(a, kw):
    return "%d %s %d %s" % (len(a), " ".join(enc(x) for x in a), len(kw),
                            " ".join(enc(k) + " " + enc(v) for k, v in kw.items()))


def corr(ctx):
    """real runtime._decorate_toplevel / _decorate_inline around a recording render function vs the Lean model"""
    from mako import runtime
    st = ctx.stream("corr.deco", exhaustive=True)
    vals = ["x", "y z", ""]
    arglists = []
    for npos in range(0, 3):
        for nkw in range(0, 3):
            for pos in itertools.product(vals[:2], repeat=npos):
                for kws in itertools.permutations(["k", "m", "extra"], nkw):
                    arglists.append((list(pos), {k: vals[(i + npos) % 3] for i, k in enumerate(kws)}))
    reqs, impl = [], []
    for family in c05_rt.DECO_FAMILIES:
        deco = getattr(c05_rt, "xd_" + family)
        for top in (True, False):
            for a, kw in arglists:
                trace = []
                cid = 7
                c = _RecCtx(cid)
                if top:
                    def render_d(context, *aa, **kk):
                        trace.append((context.cid, list(aa), dict(kk)))
                        return ""
                    fn = runtime._decorate_toplevel(deco)(render_d)
                    fn(c, *a, **kw)
                else:
                    def d(*aa, **kk):
                        trace.append((cid, list(aa), dict(kk)))
                        return ""
                    fn = runtime._decorate_inline(c, deco)(d)
                    fn(*a, **kw)
                impl.append(" ".join(["%d" % len(trace)] + ["%d %s" % (t[0], _wire_args(t[1], t[2])) for t in trace])
                            .replace("  ", " ").strip())
                reqs.append(("c05 deco %s %s %d %s" % ("top" if top else "inl", family, cid, _wire_args(a, kw)))
                            .replace("  ", " ").strip())
    outs = ctx.driver().ask_many(reqs)
    for q, o, i in zip(reqs, outs, impl):
        st["cases"] += 1
        if " ".join(o.split()) != " ".join(i.split()):
            ctx.disagree("corr.deco", {"input": q}, o, i)
    ctx.log("corr.deco: %d cases" % st["cases"])


def replay(ctx, case):
    spec = {k: case[k] for k in ("deco", "nested", "form", "act", "env", "def") if k in case}
    site, detail, src = check(spec)
    print("template:\n" + (src or ""))
    print("render context:", json.dumps(spec["env"]))
    print("result:", json.dumps(detail))
    if site and site != "skip":
        print("property violated:", site)
        return False
    return True
