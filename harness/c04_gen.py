"""C04 helper: template generator with ground truth + reference interpreter of the property's resolution order.

The generator builds a small tree of constructs (assignments, reads, loops, defs, blocks, calls with content),
renders it to Mako source and keeps the ground truth (which construct binds / reads which name, with which
marker value).  `Reference` interprets the *tree* (not mako's output) by the resolution order of the property
text; it is the oracle's specification and shares nothing with mako's identifier analysis or the Lean model.
"""
from __future__ import annotations

import builtins as _builtins
import functools
import sys
import types


# --------------------------------------------------------------------------- runtime support imported by templates

class Mark:
    """a recognisable value written by one binding site"""

    def __init__(self, tag):
        self.tag = tag

    def __repr__(self):
        return "Mark(%r)" % (self.tag,)

    def __call__(self, *a, **k):      # usable as a filter / callable
        return a[0] if a else ""

    def __iter__(self):               # usable as a loop source
        return iter([self])


class Blank:
    def __str__(self):
        return ""

    def __call__(self, *a, **k):
        return a[0] if a else ""

    def __bool__(self):
        return True


RECORDS = []        # (site id, observation) in execution order


def observe(v):
    from mako import runtime
    if isinstance(v, Mark):
        return v.tag
    if v is runtime.UNDEFINED:
        return "UNDEF"
    if v is None or isinstance(v, (bool, int, str)) or v == []:
        return "VAL:" + repr(v)
    if isinstance(v, functools.partial):
        return "IMPORT:" + getattr(v.func, "__name__", "?")
    if isinstance(v, runtime.Namespace):
        return "NS"
    if isinstance(v, (runtime.LoopStack, runtime.LoopContext)):
        return "LOOPCTX"
    if isinstance(v, runtime.Context):
        return "CONTEXT"
    if isinstance(v, types.BuiltinFunctionType) or (isinstance(v, type) and getattr(_builtins, v.__name__, None) is v):
        return "BUILTIN"
    if isinstance(v, types.FunctionType):
        return "DEF:" + v.__name__
    if isinstance(v, dict):
        return "DICT"
    return "OTHER:" + type(v).__name__


def S__(i, v, ret=None):
    RECORDS.append((i, "CALL" if (v is None and ret is not None) else observe(v)))   # S__(i, None, f): a call site
    return Blank() if ret is None else ret


def M__(tag):
    return Mark(tag)


def install_rt():
    m = types.ModuleType("c04rt")
    m.S__ = S__
    m.M__ = M__
    sys.modules["c04rt"] = m
    return m


IMPORTS = ["from c04rt import S__, M__"]


# --------------------------------------------------------------------------- generator tree

class Node:
    pass


class Assign(Node):
    """<% x = M__('tag') %>"""

    def __init__(self, names, tag):
        self.names, self.tag = list(names), tag

    def src(self):
        return "<%% %s %%>\n" % "; ".join("%s = M__(%r)" % (n, self.tag) for n in self.names)


class Raw(Node):
    """<% code %> with explicitly given (for the reference) bound names -> marker expression"""

    def __init__(self, code, binds=(), reads=()):
        self.code, self.binds, self.reads = code, list(binds), list(reads)

    def src(self):
        return "<%\n" + self.code + "\n%>\n"


class Read(Node):
    """a read site of `name`: how = expr | ctl | attr | filter"""

    def __init__(self, sid, name, how="expr"):
        self.sid, self.name, self.how = sid, name, how

    def src(self):
        if self.how == "expr":
            return "${S__(%d, %s)}\n" % (self.sid, self.name)
        if self.how == "ctl":
            return "%% if S__(%d, %s):\n%% endif\n" % (self.sid, self.name)
        if self.how == "attr":
            return "<%%include file=\"${S__(%d, %s, '/inc.html')}\"/>\n" % (self.sid, self.name)
        if self.how == "filter":
            return "${'' | S__(%d, %s)}\n" % (self.sid, self.name)
        raise ValueError(self.how)


class For(Node):
    """% for x in M__('tag'):"""

    def __init__(self, names, tag, body):
        self.names, self.tag, self.body = list(names), tag, body

    def src(self):
        tgt = self.names[0] if len(self.names) == 1 else "(" + ", ".join(self.names) + ")"
        it = "M__(%r)" % self.tag if len(self.names) == 1 else "[(%s,)]" % ", ".join("M__(%r)" % self.tag for _ in self.names)
        return "%% for %s in %s:\n%s%% endfor\n" % (tgt, it, "".join(n.src() for n in self.body))


class If(Node):
    """% if True:  … % endif  – a control block of the same function"""

    def __init__(self, body):
        self.body = body

    def src(self):
        return "% if True:\n" + "".join(n.src() for n in self.body) + "% endif\n"


class Def(Node):
    """<%def name="f(params)">; params: list of (name, default tag or None)"""

    def __init__(self, name, params, body):
        self.name, self.params, self.body = name, list(params), body

    def sig(self):
        return ", ".join(p if d is None else "%s=M__(%r)" % (p, d) for p, d in self.params)

    def src(self):
        return "<%%def name=\"%s(%s)\">\n%s</%%def>\n" % (self.name, self.sig(), "".join(n.src() for n in self.body))


class CallDef(Node):
    """${f(M__('tag'), …)}  – a call by name"""

    def __init__(self, name, argtags=(), via=None, sid=None):
        self.name, self.argtags, self.via, self.sid = name, list(argtags), via, sid

    def src(self):
        callee = self.name if self.via is None else "%s.%s" % (self.via, self.name)
        if self.sid is not None:     # the call site records itself before the call
            callee = "S__(%d, None, %s)" % (self.sid, callee)
        return "${%s(%s)}\n" % (callee, ", ".join("M__(%r)" % t for t in self.argtags))


class AnonBlock(Node):
    def __init__(self, body):
        self.body = body

    def src(self):
        return "<%%block>\n%s</%%block>\n" % "".join(n.src() for n in self.body)


class NamedBlock(Node):
    def __init__(self, name, body, args=()):
        self.name, self.body, self.args = name, body, list(args)

    def src(self):
        a = ' args="%s"' % ", ".join(self.args) if self.args else ""
        return "<%%block name=\"%s\"%s>\n%s</%%block>\n" % (self.name, a, "".join(n.src() for n in self.body))


class Call(Node):
    """<%call expr="callee()" args="a,b"> body (+ defs) </%call>; the callee invokes caller.body(M('tag')…) once
    and then each def of the call once"""

    def __init__(self, callee, args, argtag, body):
        self.callee, self.args, self.argtag, self.body = callee, list(args), argtag, body

    def src(self):
        a = ' args="%s"' % ", ".join(self.args) if self.args else ""
        return "<%%call expr=\"%s()\"%s>\n%s</%%call>\n" % (self.callee, a, "".join(n.src() for n in self.body))


class Template:
    def __init__(self):
        self.page_args = []          # (name, default tag)
        self.imports = []            # names imported with <%namespace file="/lib.html" import=…>
        self.import_star = False
        self.ns_names = []           # <%namespace name=… file="/lib.html"/>
        self.module = []             # (name, tag) module-level assignments
        self.body = []
        self.lib_defs = ["libdef"]   # defs of /lib.html
        self.enable_loop = True      # is the loop context enabled for this template (constructor flag or <%page>)
        self.page_enable_loop = False   # <%page enable_loop="True"/>

    def wrappers(self):
        """callee defs used by Call nodes: name -> (args passed to body, def names invoked)"""
        res = {}

        def walk(nodes):
            for n in nodes:
                if isinstance(n, Call):
                    res[n.callee] = n
                for attr in ("body",):
                    if hasattr(n, attr):
                        walk(getattr(n, attr))
        walk(self.body)
        return res

    def src(self):
        out = []
        if self.page_args or self.page_enable_loop:
            attrs = ""
            if self.page_enable_loop:
                attrs += " enable_loop=\"True\""
            if self.page_args:
                attrs += " args=\"%s\"" % ", ".join("%s=M__(%r)" % (n, t) if t is not None else n for n, t in self.page_args)
            out.append("<%%page%s/>\n" % attrs)
        if self.imports or self.import_star:
            out.append("<%%namespace file=\"/lib.html\" import=\"%s\"/>\n" % ("*" if self.import_star else ", ".join(self.imports)))
        for n in self.ns_names:
            out.append("<%%namespace name=\"%s\" file=\"/lib.html\"/>\n" % n)
        if self.module:
            out.append("<%%!\n%s\n%%>\n" % "\n".join("%s = M__(%r)" % (n, t) for n, t in self.module))
        out.extend(n.src() for n in self.body)
        for callee, c in sorted(self.wrappers().items()):
            defs = [d.name for d in c.body if isinstance(d, Def)]
            out.append("<%%def name=\"%s()\">\n${caller.body(%s)}\n%s</%%def>\n" % (
                callee, ", ".join("M__(%r)" % c.argtag for _ in c.args),
                "".join("${caller.%s()}\n" % d for d in defs)))
        return "".join(out)

    def lib_src(self):
        return "".join("<%%def name=\"%s()\"></%%def>\n" % d for d in self.lib_defs)


# --------------------------------------------------------------------------- reference interpreter (the specification)

class StrictNameError(Exception):
    pass


class Unbound(Exception):
    """Python's own rule: a name assigned in a function is local to it; read before assignment fails"""


class Frame:
    def __init__(self, kind, local_names, parent, top):
        self.kind = kind
        self.local_names = set(local_names)     # names bound somewhere in this function's own code / its parameters
        self.values = {}
        self.defs = {}                          # nested defs by name
        self.parent = parent                    # closure parent
        self.top = top if top is not None else self


def own_assigned(nodes):
    """names assigned by the nodes of one function's own code (loops belong to the function; blocks, defs, calls do not)"""
    res = set()
    for n in nodes:
        if isinstance(n, Assign):
            res.update(n.names)
        elif isinstance(n, Raw):
            res.update(b for b, _ in n.binds)
        elif isinstance(n, For):
            res.update(n.names)
            res |= own_assigned(n.body)
        elif isinstance(n, If):
            res |= own_assigned(n.body)
    return res


def own_defs(nodes, toplevel):
    res = {}
    for n in nodes:
        if isinstance(n, Def) and not toplevel:
            res[n.name] = n
        elif isinstance(n, (For, If)):
            res.update(own_defs(n.body, toplevel))
    return res


def all_top_defs(t):
    res = {}

    def walk(nodes, root):
        for n in nodes:
            if isinstance(n, Def) and root:
                res[n.name] = n
            elif isinstance(n, NamedBlock):
                res[n.name] = n
                walk(n.body, False)
            elif isinstance(n, AnonBlock):
                walk(n.body, False)
            elif isinstance(n, (For, If)):
                walk(n.body, root)
    walk(t.body, True)
    return res


class Reference:
    """expected records of a render, by the property's resolution order"""

    def __init__(self, t, data, strict, builtin_names=None):
        self.t, self.data, self.strict = t, dict(data), strict
        self.records = []
        self.topdefs = all_top_defs(t)
        self.wrappers = t.wrappers()
        self.module = {n: tag for n, tag in t.module}
        self.imports = set(t.lib_defs) if t.import_star else set(t.imports)

    # ---- resolution order of the property text
    def resolve(self, fr, x):
        f = fr
        while f is not None:
            if x in f.local_names:
                if x in f.values:
                    return f.values[x]
                raise Unbound(x)
            if x in f.defs:
                return "DEF:" + x
            f = f.parent
        if x in self.module:
            return self.module[x]
        if x in ("UNDEFINED",):
            return "UNDEF"
        if x == "loop" and self.t.enable_loop:
            return "LOOPCTX"
        if x in self.topdefs or x in self.wrappers:
            return "DEF:" + x
        if x in self.t.ns_names:
            return "NS"
        if x in self.imports:
            return "IMPORT:render_" + x
        ctx = fr.top.ctxdata
        if x in ctx:
            return ctx[x]
        if hasattr(_builtins, x):
            return "BUILTIN"
        if self.strict:
            raise StrictNameError("'%s' is not defined" % x)
        return "UNDEF"

    def overlay(self, fr):
        """context data handed to a def called by name from `fr`: for the body (and the closures nested in it) the
        page arguments and the current values of the body's <% %> assignments are overlaid"""
        top = fr.top
        if top.kind != "body":
            return top.ctxdata
        d = dict(top.ctxdata)
        d["pageargs"] = "DICT"
        for n in top.page_names:
            if n in top.values:
                d[n] = top.values[n]
        for n in top.code_assigned:
            if n in top.values:
                d[n] = top.values[n]
        return d

    def run(self):
        t = self.t
        body = Frame("body", own_assigned(t.body) | {n for n, _ in t.page_args} | {"pageargs"}, None, None)
        body.ctxdata = self.data
        body.page_names = [n for n, _ in t.page_args]
        body.code_assigned = set()
        body.values["pageargs"] = "DICT"
        for n, tag in t.page_args:
            if n in self.data:
                body.values[n] = self.data[n]
            elif tag is not None:
                body.values[n] = tag
            else:
                raise TypeError("missing page argument")
        body.defs = {}
        self.exec_nodes(t.body, body, True)
        return self.records

    def exec_nodes(self, nodes, fr, root=False):
        for n in nodes:
            if isinstance(n, Assign):
                for x in n.names:
                    fr.values[x] = n.tag
                    if fr.kind == "body":
                        fr.code_assigned.add(x)
            elif isinstance(n, Raw):
                for x in n.reads:
                    self.resolve(fr, x)
                for x, tag in n.binds:
                    fr.values[x] = tag
                    if fr.kind == "body":
                        fr.code_assigned.add(x)
            elif isinstance(n, Read):
                self.records.append((n.sid, self.resolve(fr, n.name)))
            elif isinstance(n, For):
                for x in n.names:
                    fr.values[x] = n.tag
                self.exec_nodes(n.body, fr, root)
            elif isinstance(n, If):
                self.exec_nodes(n.body, fr, root)
            elif isinstance(n, Def):
                pass
            elif isinstance(n, CallDef):
                if n.sid is not None:
                    self.resolve(fr, n.name)
                    self.records.append((n.sid, "CALL"))
                self.call(fr, n.name, n.argtags)
            elif isinstance(n, AnonBlock):
                f = Frame("anon", own_assigned(n.body), fr, fr.top)
                f.defs = own_defs(n.body, False)
                self.exec_nodes(n.body, f)
            elif isinstance(n, NamedBlock):
                # rendered in place through the `self` namespace: a top-level function on the render-time context
                f = Frame("named", own_assigned(n.body) | set(n.args) | {"pageargs"}, None, None)
                f.ctxdata = fr.top.ctxdata if fr.top.kind != "body" else self.data
                f.values["pageargs"] = "DICT"
                f.defs = own_defs(n.body, False)
                for a in n.args:
                    f.values[a] = fr.top.ctxdata.get(a, "UNDEF")
                self.exec_nodes(n.body, f)
            elif isinstance(n, Call):
                # the callee runs caller.body(args) once, then every def of the call once
                cc = Frame("ccall", {"caller"}, fr, fr.top)
                cc.values["caller"] = "NS"
                cc.defs = {d.name: d for d in n.body if isinstance(d, Def)}
                b = Frame("callbody", own_assigned(n.body) | set(n.args), cc, fr.top)
                for a in n.args:
                    b.values[a] = n.argtag
                self.exec_nodes(n.body, b)
                # the defs of a <%call> are siblings of its body (exported through `caller`); their `caller` is the
                # context's, not the call's
                ccd = Frame("ccall", set(), fr, fr.top)
                ccd.defs = cc.defs
                for d in n.body:
                    if isinstance(d, Def):
                        f = Frame("calldef", own_assigned(d.body) | {p for p, _ in d.params}, ccd, fr.top)
                        f.defs = own_defs(d.body, False)
                        for p, dflt in d.params:
                            f.values[p] = dflt
                        self.exec_nodes(d.body, f)
            else:
                raise TypeError(n)

    def call(self, fr, name, argtags):
        # a nested def visible from here?
        f = fr
        while f is not None:
            if name in f.defs:
                d = f.defs[name]
                nf = Frame("nested", own_assigned(d.body) | {p for p, _ in d.params}, f, f.top)
                break
            f = f.parent
        else:
            d = self.topdefs[name]
            nf = Frame("topdef", own_assigned(d.body) | {p for p, _ in d.params}, None, None)
            nf.ctxdata = self.overlay(fr)
        nf.defs = own_defs(d.body, False)
        for (p, dflt), i in zip(d.params, range(len(d.params))):
            nf.values[p] = argtags[i] if i < len(argtags) else dflt
        self.exec_nodes(d.body, nf)
