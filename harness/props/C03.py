"""C03 - control lines and Python blocks execute with Python semantics; the `loop` object.

Streams
  corr.regex        the six regexes of PythonPrinter vs the Lean predicates: every concatenation of <= L tokens
                    (keywords, `:`, `#`, blank, tab, newline, form feed, U+00A0, `x`) - exhaustive;
  corr.printer      PythonPrinter.writeline / write_indented_block vs the Lean state machine: all sequences of <= 2
                    calls (thorough: <= 3, over 21 of them) over 31 lines + `None` + 2 blocks, and random longer
                    ones (indent of every written entry, final indent, suite_is_empty and indent_detail,
                    MakoException);
  corr.lexctl       Lexer.match_control_line vs `lexCtl` (margins, `%%`, `##`, backslash-newline, CR/LF);
  corr.fragment     ast.PythonFragment (accept / reject; keyword) vs `fragmentAdmits`, and `HeaderOk` vs the real
                    printer on the same text - exhaustive over a header token alphabet;
  corr.loopctx      runtime.LoopContext / LoopStack vs the Lean `LoopCtx` attributes (all n <= 6, all indices) and,
                    starting from an EMPTY LoopStack, the parent chain of a context at depth 1..5 (ends in None);
  corr.declares     the declarations written for `loop` and plain names, enable_loop on / off;
  corr.kids         the `nodes` list the real lexer hangs under every control line vs `kidsOf` (Lean);
  corr.events       the real printer calls (writeline / None / write_indented_block) for the body of generated
                    templates vs `emitCT` (Lean), canonicalised (headers by text, output lines by kind);
  corr.indent       the indentation the real printer wrote every one of those entries with vs the Lean printer run
                    on the Lean emission;
  corr.target       real `Template.code` parsed with `ast` (harness/target_canon.py) vs the S-expression of the
                    Lean `codegenModule` - for templates that lower to the shared target grammar;
  corr.behaviour    render (outcome, output, evaluation counter) for every crash point vs the Lean pipeline
  corr.spec         (`tgt run`: codegen -> exec;  `tgt spec`: the stack-free specification renderer);
  oracle.native     NO LEAN: every generated template is also translated to a plain Python function (native
                    if/elif/else, for/else, while, try/except, with, closures; `loop` computed from enumerate())
                    and run for every crash point: outcome and output must agree with mako;
  oracle.quirks     the same oracle on the shapes of the recorded findings: hand-made minimal trees, then a random
                    search with the generator steered towards one shape at a time (hit counts per shape in the
                    evidence branches `quirk:<shape>:…`; KNOWN-FINDING lines);
  oracle.handwritten fixed templates with the expected output written next to them (margins, empty and comment-only
                    suites, suites of defs / module code only, continued headers and clauses, blocks at margins, `loop` used only
                    in a nested def / call body,
                    for/else + break, with, typed and several excepts, `loop` after a caught exception, the
                    outermost `loop.parent`, form feed after a header colon, colon in a `% for` comment).

`loop` and callables under a `% for` - what mako does, by direct experiment on the current /repo (every combination
below was rendered; "ok" = the lexical reading of the property: `loop` read in the callable is the loop around it, a
loop of its own has that loop as `parent`).  Callable kinds: nested <%def> (called in place), <%call> body, <%ns:def>
body (= <%call>), anonymous <%block>, named <%block> (only allowed in the template body).  Positions of the `% for`:
template body, <%def> body, <%call> body, anonymous block.  Content of the callable: N nothing about `loop`, R reads
`loop`, F a `% for` of its own using `loop`/`loop.parent`, RF both.  Whether the scope that holds the `% for` mentions
`loop` itself no longer matters (since /repo bca4969 it creates its `__M_loop` whenever the `% for` is rewritten;
before, R/F/RF with the only mention inside a def / call body raised NameError `__M_loop` - F-C03-4, repaired).

  callable                       for in            N    R                F                 RF
  <%call>/<%ns:def> body         anywhere          ok   ok               ok                UnboundLocal (7)
  nested <%def>                  def / block       ok   ok               ok                UnboundLocal (7)
  <%def> (= top-level def)       template body     ok   own scope: "No loop context" / parent None  (by design: a
                                                        module-level callable; the reference does the same)
  <%def> directly in <%call>     that body         ok   No loop ctx (11) parent None (11b) No loop ctx (11)
  anonymous <%block>             template / def    ok   ok               ok                UnboundLocal (7)
  anonymous <%block> in <%call>  that body         ok   No loop ctx (11) parent None (11b) No loop ctx (11)
  <%def>/<%block> in <%call>     OUTSIDE the call  ok   ok               ok                UnboundLocal (7)
  any callable                   anonymous block   ok   ok               ok                UnboundLocal (7)
  named <%block>                 template body     ok   own scope, as a top-level def (by design); not generated
  named <%block>                 def / call        CompileException (not allowed there)

  (7) F-C03-7: the callable is a closure, assigns `loop` (its own rewritten `for`) and reads it - itself
      (UnboundLocalError) or through a callable nested in it (NameError: free variable `loop`)
  (11)/(11b) F-C03-11: a <%def> / anonymous <%block> directly in a <%call> body (under its control lines) is
      written into `ccall` BESIDE body(), so it is no closure of the body: it has a LoopStack of its own
      ((11) the read raises, (11b) a loop of its own has parent None)
Every recorded finding is matched by its shape plus "the symptom is one of that shape's" (`SHAPE_SITES` below: the
shape's own errors, or - when the template catches the error or a planted exception comes first - a value symptom);
any other site on a template of that shape is an unknown violation.
Shapes of the classifier (`hazards`): closure-mixed = (7), loop-in-call-body-def = (11), plus loop-only-in-call-expr
(F-C03-5), unsized-len (F-C03-6), ret-in-buffering (F-C03-3).  A generated template with any of these shapes is not
run in the main streams; oracle.quirks runs templates with exactly one of them.
"""
from __future__ import annotations

import copy
import io
import itertools
import json
import re

from harness import c03_gen as G
from harness import c03_rt as R
from harness import gen_template as G13
from harness import target_canon as TC
from harness.common import dec, enc

DRIVER_OPS = ["ctl", "tgt"]
LEAN_EXTRA_TARGETS = ["MakoModel.Codegen.Spec"]

RULE = ("templates from the grammar of harness/c03_gen.py: control structures nested to depth 5 (if/elif*/else?, "
        "for/else? over lists, strings, generators, iterators and LAZY generators whose every item is an evaluation point "
        "(it can fail part way; `pulledcount()` tells how many items were produced) of length 0..4, while, try/except with bare, "
        "Exception, Boom, KeyError and tuple clauses - one or several per `% try` -, with), every `%` line with its own "
        "random margin before and after the `%`, 12 % of the if/elif/while/with/except lines continued after the "
        "keyword with backslash-newline, `% for` lines with trailing comments (with and without colons), empty and "
        "comment-only bodies (## lines, <%doc>), bodies holding only <%def>s or <%! %> blocks, text / ${expr} / def calls / <%call> with "
        "body / anonymous blocks / nested defs in bodies, <% %> blocks at a uniform margin of 0-8 blanks or 1-2 tabs "
        "with multi-line string literals and nested python if/else, break / continue / return, `loop` used "
        "directly, only in an `% elif` header, only in an `% except` body, only in a python block, only in a nested "
        "for's iterable, inside closures, loop.parent.index of nested loops and - in outermost and nested loops alike - "
        "`loop.parent is None`, `bool(loop.parent)`, the guard `loop.parent.index if loop.parent else -1` and a walk of "
        "the parent chain up to None; planted exceptions boom() (Boom) and kboom() (KeyError) at "
        "every evaluation point k; enable_loop on / off / re-enabled or left alone by <%page>.  A case = (template, "
        "crash point, configuration); non-trivial when the template has a control structure and the render is not "
        "the crash-free one or the template uses `loop`; distinct = distinct (template, k, configuration)")
ASSUMPTIONS = [
    "CPython's execution of the generated module is the assumed target semantics (validated by corr.behaviour and "
    "oracle.native on every run)",
    "templates are well-scoped: variables are read where they are bound, defs are called after their definition, "
    "`caller.body()` only in defs that are invoked through <%call>",
    "`loop` inside the `% else:` clause of a `% for` is not probed (the property text does not say which loop it "
    "denotes there; mako: still the finished loop, index = n)",
    "a closure (nested def, <%call> body) under a `% for` either reads the enclosing `loop` or has loops of its own "
    "in the main streams (both at once is the recorded finding F-C03-7); a <%def> in a <%call> body under a `% for` "
    "of that body does not read `loop` there (F-C03-11)",
    "a nested def that reads the enclosing `loop` or has `% for`s with `loop` of its own is called at the loop level "
    "it is written at only, not from a deeper `% for` (there the closure sees the deeper loop, and its own loops get "
    "it as `parent`: nested defs share the LoopStack of the function around them - Python's closure semantics - "
    "while textually the innermost enclosing loop is the outer one; the property text leaves it open)",
    "the shared code-generator model (Codegen/Model.lean `refsLoop`) follows /repo bca4969 (a function holding a "
    "rewritten `% for` creates its `__M_loop`); a start-up probe of the driver guards the three `tgt` comparisons "
    "against an older model (it would leave out the templates whose `% for` is rewritten only because of a `loop` "
    "mention inside a nested def / <%call> body and count them in the evidence branches) - inactive now: 0 skipped",
    "`_FOR_LOOP` (the regex that splits a `% for` header) is a parameter of the Lean model: the harness supplies "
    "target and iterable of the generated header",
    "the shared specification renderer (Codegen/Spec.lean) gives a nested def / <%call> body no enclosing loop; "
    "the shared target model keeps one dynamic loop stack: templates in which a closure reads the enclosing `loop` "
    "are compared with the native reference only, not with `tgt run` / `tgt spec`",
]
TRUSTED_EXTRA = ["C03: harness/c03_gen.py (generator, source renderer, native-Python translation = oracle, lowering "
                 "to the shared target grammar, control skeleton), harness/c03_rt.py, harness/target_canon.py"]

FUEL = 900

# ------------------------------------------------------------------------------------------------ micro streams

RE_TOKS = ["if", "el", "else", "elif", "se", "except", "finally", "for", "try", "with", "while", "def", "class", "x",
           ":", "#", " ", "\t", "\n", "\x0c", "\xa0"]
PR_LINES = ["if x:", "elif y:", "else:", "for a in b:", "while 1:", "try:", "except A:", "except:", "except B:", "finally:",
            "with a as b:", "def f():", "class C:", "pass", "__M_writer('a')", "# c", "  # c", "", "  ", "x = {1:",
            "else", "format = context.get('format', UNDEFINED)", "if x: # c", "else: #c", "x = 1 # if:",
            "elsewhere = 3:", "iffy:", "\n", "elif b and \\\n     c:", "except (A, \\\n    B):", "else: # c\n"]


def _printer():
    from mako.pygen import PythonPrinter
    return PythonPrinter(io.StringIO())


def real_regex(pr, s):
    m = pr._re_compound.match(s)
    return " ".join(["1" if pr._re_space_comment.match(s) else "0", "1" if pr._re_space.match(s) else "0",
                     "1" if pr._re_indent.search(s) else "0", m.group(1) if m else "none",
                     "1" if pr._re_indent_keyword.match(s) else "0", "1" if pr._re_unindentor.match(s) else "0"])


def stream_regex(ctx, drv):
    st = ctx.stream("corr.regex", exhaustive=True)
    pr = _printer()
    L = 3 if ctx.quick else 4
    for n in range(L + 1):
        batch = ["".join(t) for t in itertools.product(RE_TOKS, repeat=n)]
        outs = drv.ask_many(["ctl re " + enc(s) for s in batch])
        for s, o in zip(batch, outs):
            st["cases"] += 1
            r = real_regex(pr, s)
            if o != r:
                ctx.disagree("corr.regex", {"input": s}, o, r)
    ctx.exhaustive["corr.regex"] = "all concatenations of <= %d of %d tokens" % (L, len(RE_TOKS))


class _RecStream:
    def __init__(self):
        self.w = []
        self.p = None

    def write(self, t):
        self.w.append((self.p.indent, t))


def real_print_answer(calls):
    """the indent level of every entry (a written line, or a whole block) in call order, final state"""
    from mako.pygen import PythonPrinter
    from mako import exceptions
    r = _RecStream()
    p = PythonPrinter(r)
    r.p = p
    err = False
    out = []
    pending = []      # number of physical lines of every block waiting for its flush
    for kind, arg in calls:
        n0 = len(r.w)
        try:
            if kind == "B":
                p.write_indented_block(arg)
                pending.append(len(re.split(r"\r?\n", arg)))
                continue
            p.writeline(arg)
        except exceptions.MakoException:
            err = True
            break
        new = r.w[n0:]
        i = 0
        for nl in pending:
            out.append(new[i][0] if nl else None)
            i += nl
        pending = []
        if arg is not None:
            out.append(new[i][0])
    if pending and not err:
        n0 = len(r.w)
        p.close()
        new = r.w[n0:]
        i = 0
        for nl in pending:
            out.append(new[i][0])
            i += nl
    return " ".join((["1" if err else "0", str(p.indent), "1" if getattr(p, "suite_is_empty", None) else "0"] +
                     [("none" if d is None else d) for d in reversed(p.indent_detail)] + ["|"] + [str(x) for x in out]))


def calls_wire(calls):
    f = []
    for kind, arg in calls:
        if kind == "B":
            f.append("B" + enc(arg))
        elif arg is None:
            f.append("N")
        else:
            f.append("W" + enc(arg))
    return " ".join(["ctl", "print"] + f)


def stream_printer(ctx, drv):
    st = ctx.stream("corr.printer")
    cases = []
    base = [("W", l) for l in PR_LINES] + [("W", None), ("B", "x = 1\ny = 2"), ("B", "  if a:\n      b = 1")]
    for n in range(0, 3 if ctx.quick else 4):
        for t in itertools.product(base[:15] + base[-6:] if n == 3 else base, repeat=n):
            cases.append(list(t))
    for _ in range(3000 if ctx.quick else 40000):
        cases.append([ctx.rng.choice(base + [("W", None)] * 3) for _ in range(ctx.rng.randint(3, 12))])
    outs = drv.ask_many([calls_wire(c) for c in cases])
    for c, o in zip(cases, outs):
        st["cases"] += 1
        r = real_print_answer(c)
        # the model's `out` counts a pending block at the moment of the call; when the real printer raised, blocks
        # still waiting are not written: compare up to the error
        if o != r:
            ctx.disagree("corr.printer", {"input": json.dumps(c)}, o, r)
        ctx.branch("printer:err" if r.startswith("1") else "printer:ok")


def real_lexctl(s):
    """(is comment, text) | None | 'raise'"""
    from mako import lexer, exceptions
    lx = lexer.Lexer(s)
    got = []

    def fake(cls, *a, **k):
        got.append((cls.__name__, a))
    lx.append_node = fake
    try:
        ok = lx.match_control_line()
    except exceptions.MakoException:
        return "raise"
    if not ok:
        return None
    name, a = got[0]
    if name == "Comment":
        return (True, a[0])
    return (False, a[2])


def stream_lexctl(ctx, drv):
    st = ctx.stream("corr.lexctl")
    toks = ["%", "%%", "##", "#", " ", "\t", "if x:", "endif", "for a in b:", "\\\n", "\\\r\n", "\n", "\r\n", "\r", "x", "\\"]
    cases = []
    for n in range(0, 4 if ctx.quick else 5):
        for t in itertools.product(toks, repeat=n):
            cases.append("".join(t))
    for _ in range(500 if ctx.quick else 5000):
        cases.append("".join(ctx.rng.choice(toks) for _ in range(ctx.rng.randint(4, 9))))
    outs = drv.ask_many(["ctl lex " + enc(s) for s in cases])
    for s, o in zip(cases, outs):
        st["cases"] += 1
        r = real_lexctl(s)
        if o == "none":
            m = None
        else:
            c, t = o.split(" ")
            m = (c == "1", dec(t))
        if r == "raise":
            # "Invalid control line" / a PythonFragment error: the regex matched a `%` line; the model must agree on that
            ctx.branch("lexctl:raise")
            if m is None or m[0]:
                ctx.disagree("corr.lexctl", {"input": s}, o, "raise")
            continue
        ctx.branch("lexctl:" + ("none" if r is None else ("comment" if r[0] else "control")))
        if m != r:
            ctx.disagree("corr.lexctl", {"input": s}, o, repr(r))


def real_fragment(s):
    from mako import ast as mast, exceptions
    try:
        mast.PythonFragment(s, source="", lineno=0, pos=0, filename=None)
    except exceptions.CompileException as e:
        msg = str(e)
        if msg.startswith("Fragment") or msg.startswith("Unsupported control keyword"):
            return "none"
        return "other"
    except exceptions.SyntaxException:
        pass         # the shape was admitted; Python rejected the completed statement (outside the model)
    except Exception:       # noqa
        pass
    m = re.match(r"^(\w+)", s.strip())
    return m.group(1) if m else "?"


def stream_fragment(ctx, drv):
    st = ctx.stream("corr.fragment", exhaustive=True)
    pr = _printer()
    toks = ["if", "elif", "else", "for", "while", "try", "except", "with", "finally", "x", " ", "\t", ":", "#", "\n",
            "\x0c", "\xa0", "(", "'"]
    L = 4 if ctx.quick else 5
    cases = []
    for n in range(1, L + 1):
        for t in itertools.product(toks, repeat=n):
            cases.append("".join(t))
    outs = drv.ask_many(["ctl frag " + enc(s) for s in cases])
    from mako.pygen import PythonPrinter
    for s, o in zip(cases, outs):
        st["cases"] += 1
        kw, hok = o.split(" ")
        r = real_fragment(s)
        if r != kw:
            ctx.disagree("corr.fragment", {"input": s, "what": "PythonFragment"}, kw, r)
        # HeaderOk on the real printer: the line has text, is no column-0 comment, and opens a level
        p = PythonPrinter(io.StringIO())
        p.writeline(s)
        hastext = not (pr._re_space_comment.match(s) or pr._re_space.match(s))
        real_h = "1" if (hastext and s[:1] != "#" and p.indent == 1) else "0"
        if real_h != hok:
            ctx.disagree("corr.fragment", {"input": s, "what": "HeaderOk"}, hok, real_h)
        if kw != "none":
            ctx.branch("fragment:admitted:" + ("header" if hok == "1" else "NOT-a-header"))
    ctx.exhaustive["corr.fragment"] = "all concatenations of 1..%d of %d tokens" % (L, len(toks))


def stream_loopctx(ctx, drv):
    from mako import runtime
    st = ctx.stream("corr.loopctx", exhaustive=True)
    reqs, exp = [], []
    for n in range(0, 7):
        for nv in range(0, 5):
            stack = runtime.LoopStack()
            outer = stack._enter(["o"])
            lc = stack._enter(list(range(n)))
            assert lc.parent is outer
            i = 0
            for _ in lc:
                vals = list(range(nv))
                try:
                    cyc = str(lc.cycle(*vals))
                except ValueError:
                    cyc = "none"
                exp.append(" ".join([str(lc.index), "1" if lc.first else "0", "1" if lc.last else "0",
                                     "1" if lc.even else "0", "1" if lc.odd else "0", str(lc.reverse_index), cyc]))
                reqs.append("ctl loop %d %d %d" % (n, i, nv))
                i += 1
            back = stack._exit()
            if back is not outer:
                ctx.broke("corr.loopctx", "LoopStack._exit() did not return the enclosing context")
    # `parent`, starting from an EMPTY stack: the outermost context has parent None, the chain of a context at
    # depth d has d-1 links and ends in None
    for depth in range(1, 6):
        stack = runtime.LoopStack()
        ctxs = [stack._enter([depth, i]) for i in range(depth)]
        top = ctxs[-1]
        chain = []
        p = top.parent
        while p is not None and len(chain) < 10:
            chain.append(ctxs.index(p) if p in ctxs else "not-a-LoopContext:" + type(p).__name__)
            p = getattr(p, "parent", None) if p in ctxs else None
        reqs.append("ctl parents %d" % depth)
        exp.append(("%d %d %s" % (len(chain), 1 if top.parent is None else 0, " ".join(str(x) for x in chain))).rstrip()
                   if chain else "0 %d " % (1 if top.parent is None else 0))
        for _ in range(depth):
            stack._exit()
        if stack.stack:
            ctx.broke("corr.loopctx", "LoopStack not empty after as many _exit as _enter")
    outs = drv.ask_many(reqs)
    for q, o, e in zip(reqs, outs, exp):
        st["cases"] += 1
        if o.rstrip() != e.rstrip():
            ctx.disagree("corr.loopctx", {"input": q}, o, e)


def stream_declares(ctx, drv):
    from mako.template import Template
    st = ctx.stream("corr.declares")
    names_sets = [["a"], ["loop"], ["a", "loop"], ["format", "loop", "zeta"], ["iffy", "classes"], []]
    for el in (True, False):
        for names in names_sets:
            src = "".join("${%s}" % n for n in names)
            code = Template(src, enable_loop=el).code
            body = code.split("def render_body")[1]
            lines = [l.strip() for l in body.split("\n")]
            i0 = next(i for i, l in enumerate(lines) if l.startswith("__M_locals ="))
            i1 = lines.index("__M_writer = context.writer()")
            real = lines[i0 + 1:i1]
            o = drv.ask(" ".join(["ctl", "decl", "1" if el else "0"] + [enc(n) for n in sorted(names)]))
            model = [] if o == "[]" else [dec(f) for f in o.split(" ")]
            st["cases"] += 1
            if model != real:
                ctx.disagree("corr.declares", {"input": src, "enable_loop": el}, model, real)


# ------------------------------------------------------------------------------------------------ implementation

class Cfg:
    """(Template enable_loop, <%page enable_loop>) -> effective setting"""

    def __init__(self, tmpl=True, page=None):
        self.tmpl = tmpl
        self.page = page

    @property
    def effective(self):
        return bool(self.tmpl or self.page)

    def name(self):
        return "enable_loop=%s,page=%s" % (self.tmpl, self.page)

    def to_json(self):
        return {"tmpl": self.tmpl, "page": self.page}


class Impl:
    def __init__(self, body, cfg):
        from mako.template import Template
        self.cfg = cfg
        self.src, self.anon = G.to_source(body, cfg.page, with_anon=True)
        self.t = Template(self.src, enable_loop=cfg.tmpl)

    def run(self, k):
        """-> (outcome, output so far, counter, exception signature)"""
        from mako.runtime import Context
        from mako import util
        R.reset(k)
        buf = util.FastEncodingBuffer()
        kw = {} if self.cfg.effective else {"loop": "LOOPVAR"}
        c = Context(buf, **kw)
        c._outputting_as_unicode = True
        sig = None
        try:
            self.t.render_context(c)
            res = "ok"
        except R.Boom:
            res = "boom"
        except KeyError:
            res = "keyerror"
        except RecursionError:
            raise
        except Exception as e:      # noqa
            res = "error"
            sig = exc_sig(e)
        return res, buf.getvalue(), R.STATE.cnt, sig


def exc_sig(e):
    name = type(e).__name__
    msg = str(e)
    for key in ("__M_loop", "'loop'", "No loop context", "has no len()", "Undefined"):
        if key in msg:
            return "%s:%s" % (name, key.strip("'"))
    return name


# ------------------------------------------------------------------------------------------------ hazards (known findings)

def _callable_level(body):
    """nodes of a body and of the control structures in it - not of nested defs, <%call> bodies, blocks"""
    for n in body:
        yield n
        if n[0] in ("if", "for", "while", "try", "with"):
            for b in G.sub_bodies(n):
                yield from _callable_level(b)


def hazards(body):
    """names of the recorded-finding shapes present in a template (sorted list)"""
    hz = set()
    for n in G.walk(body):
        if n[0] in ("def", "block"):
            fl = n[3] if n[0] == "def" else n[2]
            if (fl["buffered"] or fl["filters"]) and any(
                    c[0] == "py" and any(s[0] == "ret" for s in c[1]) for c in _callable_level(G.sub_bodies(n)[0])):
                hz.add("ret-in-buffering")

    def call_body(b, in_for):
        """a <%def> or anonymous <%block> directly in a <%call> body (under its control lines) is written into
        `ccall` beside body(): it is no closure of the body - it cannot see the loop of a `% for` of that body, and
        loops of its own do not have that loop as parent"""
        for n in b:
            k = n[0]
            if k in ("def", "block") and in_for:
                cb = G.sub_bodies(n)[0]
                if _mentions_outside_for(cb) or any(c[0] == "for" and G.detected(c) for c in _callable_level(cb)):
                    hz.add("loop-in-call-body-def")
            elif k == "for":
                call_body(n[3], True)
                if n[4] is not None:
                    call_body(n[4], in_for)
            elif k in ("if", "while", "try", "with"):
                for sb in G.sub_bodies(n):
                    call_body(sb, in_for)
    for n in G.walk(body):
        if n[0] == "call":
            call_body(n[2], False)

    def scope(sbody, is_template_body, lp_unsized, outer_loop):
        """sbody: body of a callable; is_template_body: <%def>s found here (also under control lines) are
        module-level callables with a scope of their own, not closures; lp_unsized: the loop `loop` denotes on
        entry (closure) iterates an unsized iterable; outer_loop: `loop` denotes an enclosing `% for` on entry"""
        own_for_detected = False

        def level(b, unsized, in_for):
            nonlocal own_for_detected
            for n in b:
                k = n[0]
                exprs = []
                if k == "expr":
                    exprs.append(n[1])
                for e in exprs:
                    check_len(e, unsized)
                if k == "py":
                    for s in n[1]:
                        if s[0] == "pyif" and s[1][0] == "loopc" and s[1][1] in ("last", "reverse_index") and unsized:
                            hz.add("unsized-len")
                if k == "if":
                    for c, _ in n[1]:
                        if c[0] == "loopc" and c[1] in ("last", "reverse_index") and unsized:
                            hz.add("unsized-len")
                if k == "for":
                    det = G.detected(n)
                    if det:
                        own_for_detected = True
                    un = n[2][0] in ("gen", "iter", "tgen")
                    if n[2][0] != "str":
                        for e in n[2][1]:
                            check_len(e, unsized)
                    level(n[3], un if det else unsized, True if det else in_for)
                    if n[4] is not None:
                        level(n[4], unsized, in_for)
                    # `loop` in a <%call expr> directly in this loop, not seen by LoopVariable
                    if not det and any(c[0] == "call" and G.ex_mentions_loop(c[1]) for c in _callable_level(n[3])):
                        hz.add("loop-only-in-call-expr")
                elif k in ("if", "while", "try", "with"):
                    for sb in G.sub_bodies(n):
                        level(sb, unsized, in_for)
                elif k == "def":
                    if is_template_body:
                        scope(n[4], False, False, False)
                    else:
                        scope(n[4], False, unsized, in_for or outer_loop)
                elif k == "call":
                    for a in n[1][2] if n[1][0] == "call" else []:
                        check_len(a, unsized)
                    scope(n[2], False, unsized, in_for or outer_loop)
                elif k == "block":
                    scope(n[3], False, unsized, in_for or outer_loop)

        def check_len(e, unsized):
            if e[0] == "loop" and e[1] in ("last", "reverse_index") and unsized:
                hz.add("unsized-len")
            elif e[0] == "cat":
                check_len(e[1], unsized)
                check_len(e[2], unsized)
            elif e[0] == "filt":
                check_len(e[2], unsized)
            elif e[0] == "call":
                for a in e[2]:
                    check_len(a, unsized)

        level(sbody, lp_unsized, False)
        if outer_loop and own_for_detected and _mentions_outside_for(sbody, deep=True):
            # the closure assigns `loop` (its own mangled for) and reads it - itself (UnboundLocalError) or through
            # a callable nested in it (NameError: free variable)
            hz.add("closure-mixed")

    # top-level defs are scopes of their own
    top_defs = [n for n in body if n[0] == "def"]
    rest = [n for n in body if n[0] != "def"]
    for d in top_defs:
        scope(d[4], False, False, False)
    scope(rest, True, False, False)
    return sorted(hz)


# ------------------------------------------------------------------------------------------------ oracle

def judge(body, cfg, k, impl=None):
    """-> (site | None, detail, real result, native result)"""
    try:
        impl = impl or Impl(body, cfg)
    except Exception as e:          # noqa - compile-time failure of a template the grammar says is fine
        nat = G.native_run(body, k, cfg.effective)
        return "compile:" + type(e).__name__, {"error": str(e)[:300], "native": nat}, None, nat
    real = impl.run(k)
    nat = G.native_run(body, k, cfg.effective)
    r3 = real[:3]
    if r3 == nat:
        return None, None, real, nat
    if real[0] == "error" and nat[0] != "error":
        site = "render:" + (real[3] or "error")
    elif real[0] == nat[0] == "ok":
        site = "output-differs"
    elif real[0] == nat[0]:
        site = "output-before-exception-differs" if real[1] != nat[1] else "counter-differs"
    else:
        site = "outcome-differs:%s-vs-%s" % (real[0], nat[0])
    return site, {"mako": real, "native": nat}, real, nat


# The symptoms of each recorded shape (by experiment on the current /repo, see the table in the module docstring).
# A defect that makes mako raise where the reference goes on shows as that error - or, when the template catches
# it (`% try`) or a crash point comes first, as any *value* symptom: other output, other output before the
# planted exception, another evaluation counter, another planted exception reached.  Compile errors and errors of
# other kinds are NOT symptoms of these shapes: they stay unknown violations.
VALUE_SITES = ("output-differs", "output-before-exception-differs", "counter-differs")
SHAPE_SITES = {
    "ret-in-buffering": [],                                             # the content is lost: value symptoms only
    "loop-only-in-call-expr": ["render:RuntimeException:No loop context"],   # … or the enclosing loop's values
    "unsized-len": ["render:TypeError:has no len()"],
    "closure-mixed": ["render:UnboundLocalError:loop", "render:NameError:loop"],
    "loop-in-call-body-def": ["render:RuntimeException:No loop context"],    # … or parent None (a value)
}


def symptom_of_shape(site, shape):
    if shape not in SHAPE_SITES or site is None:
        return False
    if site in VALUE_SITES or site.startswith("outcome-differs:") and "error" not in site:
        return True
    return site in SHAPE_SITES[shape]


def case_of(body, cfg, k, site=None):
    shape = "+".join(hazards(body)) or "none"
    return {"input": G.to_source(body, cfg.page), "k": k, "config": cfg.to_json(), "tree": body,
            "shape": shape, "symptom_of_shape": symptom_of_shape(site, shape)}


# ---- shrinking

def closed(body):
    defs, binders, used_defs, used_vars = set(), set(), set(), set()

    def ex(e):
        k = e[0]
        if k == "var":
            used_vars.add(e[1])
        elif k == "cat":
            ex(e[1]); ex(e[2])
        elif k == "filt":
            ex(e[2])
        elif k == "call":
            used_defs.add(e[1])
            for a in e[2]:
                ex(a)

    def cond(c):
        if c[0] == "truthy":
            ex(c[1])
    for n in G.walk(body):
        k = n[0]
        if k == "def":
            defs.add(n[1])
            binders.update(n[2])
        elif k == "expr":
            ex(n[1])
        elif k == "call":
            ex(n[1])
        elif k == "if":
            for c, _ in n[1]:
                cond(c)
        elif k == "for":
            binders.add(n[1])
            if n[2][0] != "str":
                for e in n[2][1]:
                    ex(e)
        elif k == "with":
            binders.add(n[2])
        elif k == "py":
            for s in n[1]:
                if s[0] in ("assign", "pyif"):
                    binders.add(s[1] if s[0] == "assign" else s[2])
                if s[0] == "pyif":
                    cond(s[1])
    return used_defs <= defs and used_vars <= binders


def _bodies_with_paths(body, path=()):
    """every body list in the tree (the list objects themselves)"""
    yield body
    for n in body:
        for b in G.sub_bodies(n):
            yield from _bodies_with_paths(b)


def shrinks(tree):
    """candidate smaller trees"""
    n_bodies = sum(1 for _ in _bodies_with_paths(tree))
    for bi in range(n_bodies):
        base = list(_bodies_with_paths(tree))[bi]
        for i in range(len(base)):
            def variant(f):
                t2 = copy.deepcopy(tree)
                b2 = list(_bodies_with_paths(t2))[bi]
                f(b2, i)
                return t2
            yield variant(lambda b, i: b.__delitem__(i))
            n = base[i]
            k = n[0]
            subs = G.sub_bodies(n)
            if k != "def":
                for si in range(len(subs)):
                    yield variant(lambda b, i, si=si: b.__setitem__(slice(i, i + 1), G.sub_bodies(b[i])[si]))
            if k not in ("text", "def"):
                yield variant(lambda b, i: b.__setitem__(i, ["text", "x"]))
            if k == "text" and len(n[1]) > 1:
                yield variant(lambda b, i: b.__setitem__(i, ["text", b[i][1][:1]]))
            if k == "if":
                if len(n[1]) > 1:
                    for ci in range(len(n[1])):
                        yield variant(lambda b, i, ci=ci: b[i][1].__delitem__(ci))
                if n[2] is not None:
                    yield variant(lambda b, i: b[i].__setitem__(2, None))
            if k == "for":
                if n[4] is not None:
                    yield variant(lambda b, i: b[i].__setitem__(4, None))
                if n[2][0] != "str" and len(n[2][1]) > 1:
                    yield variant(lambda b, i: b[i][2].__setitem__(1, b[i][2][1][:1]))
                if n[2][0] in ("gen", "iter", "str", "tgen"):
                    yield variant(lambda b, i: b[i].__setitem__(2, ["list", [["lit", "p"]]]))
                if n[5].get("cmt"):
                    yield variant(lambda b, i: b[i][5].__setitem__("cmt", None))
            if k == "try" and len(n[2]) > 1:
                for hi in range(len(n[2])):
                    yield variant(lambda b, i, hi=hi: b[i][2].__delitem__(hi))
            if k in ("if", "for", "while", "try", "with"):
                o = n[-1]
                if any(m != ["", " "] for m in o["mg"]):
                    yield variant(lambda b, i: b[i][-1].__setitem__("mg", [["", " "] for _ in b[i][-1]["mg"]]))
            if k in ("def", "block"):
                fl = n[3] if k == "def" else n[2]
                if fl["buffered"]:
                    yield variant(lambda b, i: (b[i][3] if b[i][0] == "def" else b[i][2]).__setitem__("buffered", False))
                if fl["filters"]:
                    yield variant(lambda b, i: (b[i][3] if b[i][0] == "def" else b[i][2]).__setitem__("filters", []))
            if k == "expr" and n[1][0] in ("cat", "filt"):
                yield variant(lambda b, i: b[i].__setitem__(1, b[i][1][-1]))
                if n[1][0] == "cat":
                    yield variant(lambda b, i: b[i].__setitem__(1, b[i][1][1]))
            if k == "py" and len(n[1]) > 1:
                for si in range(len(n[1])):
                    yield variant(lambda b, i, si=si: b[i][1].__delitem__(si))


def shrink(tree, fails, max_tests):
    tests = 0
    progress = True
    while progress and tests < max_tests:
        progress = False
        for cand in shrinks(tree):
            tests += 1
            if tests > max_tests:
                break
            try:
                bad = closed(cand) and fails(cand)
            except Exception:       # noqa
                bad = False
            if bad:
                tree = cand
                progress = True
                break
    return tree


def report(ctx, site, body, cfg, k, detail, stream):
    shape0 = "+".join(hazards(body)) or "none"
    seen = getattr(ctx, "_c03_reported", None)
    if seen is None:
        seen = ctx._c03_reported = {}
    key = (site, shape0, stream)
    if seen.get(key, 0) >= 2 or len(ctx.violations) >= 80:
        return
    seen[key] = seen.get(key, 0) + 1

    def fails(t):
        s, _, _, _ = judge(t, cfg, k)
        return s == site
    small = body
    try:
        small = shrink(copy.deepcopy(body), fails, 500 if ctx.quick else 2000)
    except Exception:       # noqa
        small = body
    if small is not body:
        s2, d2, _, _ = judge(small, cfg, k)
        if s2 == site:
            detail = d2
        else:
            small = body
    ctx.violation(site, case_of(small, cfg, k, site), detail, stream)


# ------------------------------------------------------------------------------------------------ structural streams

def kinds_of_real_nodes(nodes):
    from mako import parsetree
    out = []
    for c in nodes:
        if isinstance(c, parsetree.Comment):
            out.append("c")
        elif isinstance(c, parsetree.ControlLine):
            out.append("l%s:%d" % (c.keyword, 1 if c.isend else 0))
        else:
            out.append("o")
    return " ".join(out)


def real_kids(src):
    """children lists of the control lines that are not end lines, in document order"""
    from mako import lexer, parsetree
    root = lexer.Lexer(src).parse()
    res = []

    for n in root.nodes:        # the body of the template (control lines inside tags belong to those tags)
        if isinstance(n, parsetree.ControlLine) and not n.isend:
            res.append(kinds_of_real_nodes(n.nodes))
    return ";".join(res)


def record_printer_calls(src, enable_loop):
    """compile `src` with the printer's entry points wrapped: the calls, and for every written entry the indent"""
    from mako import pygen
    from mako.template import Template
    calls = []
    ow, ob = pygen.PythonPrinter.writeline, pygen.PythonPrinter.write_indented_block

    def wl(self, line):
        calls.append(("W", line))
        return ow(self, line)

    def wb(self, block, starting_lineno=None):
        calls.append(("B", block))
        return ob(self, block, starting_lineno)
    pygen.PythonPrinter.writeline = wl
    pygen.PythonPrinter.write_indented_block = wb
    try:
        Template(src, enable_loop=enable_loop)
    finally:
        pygen.PythonPrinter.writeline = ow
        pygen.PythonPrinter.write_indented_block = ob
    return calls


def body_section(calls):
    """the calls for the body of render_body: after its `__M_writer = context.writer()`, up to its final
    `return ''` (the one before the closing `finally:` of render_body)"""
    i0 = next(i for i, c in enumerate(calls) if c == ("W", "def render_body(context,**pageargs):"))
    i1 = next(i for i in range(i0, len(calls)) if calls[i] == ("W", "__M_writer = context.writer()"))
    # end of render_body: `return ''`, `finally:`, `context.caller_stack._pop_frame()`
    i2 = next(i for i in range(i1, len(calls) - 2)
              if calls[i] == ("W", "return ''") and calls[i + 1] == ("W", "finally:")
              and calls[i + 2] == ("W", "context.caller_stack._pop_frame()"))
    return calls[i1 + 1:i2], i1 + 1


def canon_event(kind, arg):
    if kind == "B":
        return "B"          # the block text is re-margined by the lexer (adjust_whitespace: C19's subject)
    if arg is None:
        return "N"
    if arg.startswith("__M_writer("):
        return "S"
    if arg.startswith("__M_locals_builtin_stored") or arg.startswith("__M_locals.update"):
        return "L"
    return "W:" + arg


def parse_gen_answer(o):
    toks = o.split(" ")
    i1 = toks.index("|")
    i2 = toks.index("|", i1 + 1)
    evs = []
    for f in toks[:i1]:
        if not f:
            continue
        if f == "N":
            evs.append(("W", None))
        elif f[0] == "B":
            evs.append(("B", dec(f[1:])))
        else:
            evs.append(("W", dec(f[1:])))
    outs = []
    for f in toks[i2 + 1:]:
        if f:
            d, t = f.split(":", 1)
            outs.append((int(d), dec(t)))
    return evs, toks[i1 + 1], outs


def structural(ctx, drv, items):
    """items: (body, cfg, impl) of skeleton-ok templates"""
    st_k = ctx.stream("corr.kids")
    st_e = ctx.stream("corr.events")
    st_i = ctx.stream("corr.indent")
    reqs, reqs2, meta = [], [], []
    for body, cfg, impl in items:
        w = G.ct_wire(body)
        reqs.append("ctl kids " + w)
        reqs2.append("ctl gen %d %s" % (1 if cfg.effective else 0, w))
        meta.append((body, cfg, impl))
    kids = drv.ask_many(reqs)
    gens = drv.ask_many(reqs2)
    for (body, cfg, impl), ko, go in zip(meta, kids, gens):
        case = {"input": impl.src, "tree": body, "config": cfg.to_json()}
        st_k["cases"] += 1
        rk = real_kids(impl.src)
        if ko != rk:
            ctx.disagree("corr.kids", case, ko, rk)
        st_e["cases"] += 1
        if go in ("bad-args", "bad-op"):
            ctx.disagree("corr.events", case, go, "?")
            continue
        evs, err, outs = parse_gen_answer(go)
        calls = record_printer_calls(impl.src, cfg.tmpl)
        sec, off = body_section(calls)
        real_c = [canon_event(*c) for c in sec]
        model_c = [canon_event(*c) for c in evs]
        if real_c != model_c:
            a, b = first_diff(real_c, model_c)
            ctx.disagree("corr.events", case, b, a)
            continue
        for c in real_c:
            ctx.branch("event:" + (c if c in ("N", "S", "L", "B") else "W:" + c[2:].split(" ")[0][:8]))
        # indentation: run the real printer on the whole real call sequence, look at the section
        st_i["cases"] += 1
        ans = real_print_answer(calls).split(" | ")
        depths_all = [int(x) for x in ans[1].split(" ")] if len(ans) > 1 and ans[1] else []
        # entries before the section
        n_before = sum(1 for kind, arg in calls[:off] if kind == "B" or arg is not None)
        n_sec = sum(1 for kind, arg in sec if kind == "B" or arg is not None)
        real_d = depths_all[n_before:n_before + n_sec]
        base = 2      # render_body: `def` + `try:`
        model_d = [d + base for d, _ in outs]
        if err != "0" or real_d != model_d:
            ctx.disagree("corr.indent", case, (err, model_d), real_d)


def first_diff(a, b):
    for i, (x, y) in enumerate(zip(a, b)):
        if x != y:
            return (i, x), (i, y)
    n = min(len(a), len(b))
    return (n, a[n:n + 2]), (n, b[n:n + 2])


def target_corr(ctx, drv, items):
    """items: (body, lowered, cfg, impl): real code vs the Lean codegen's S-expression"""
    st = ctx.stream("corr.target")
    if not shared_model_follows_bca4969(drv):
        n0 = len(items)
        items = [it for it in items if not closure_only_mention(it[0])]
        ctx.branch("model:shared-codegen-model-predates-bca4969:skipped-templates", n0 - len(items))
    reqs = ["tgt gen " + G13.to_wire(low) for _, low, _, _ in items]
    outs = drv.ask_many(reqs)
    for (body, low, cfg, impl), o in zip(items, outs):
        st["cases"] += 1
        case = {"input": impl.src, "tree": body, "config": cfg.to_json()}
        try:
            py = TC.from_python(impl.t.code, impl.anon)
        except TC.CanonError as ex:
            ctx.disagree("corr.target", dict(case, what="real code not understood"), None, str(ex))
            continue
        try:
            ln = TC.from_lean(o)
        except Exception as ex:      # noqa
            ctx.disagree("corr.target", dict(case, what="model answer not understood"), o[:300], str(ex))
            continue
        if py != ln:
            a, b = tc_first_diff(py, ln)
            ctx.disagree("corr.target", case, b, a)


def tc_first_diff(a, b):
    if isinstance(a, list) and isinstance(b, list):
        for x, y in zip(a, b):
            if x != y:
                return tc_first_diff(x, y)
        n = min(len(a), len(b))
        return a[n:n + 2], b[n:n + 2]
    return a, b


def _mentions_outside_for(body, deep=False):
    """`loop` referenced in a body at a place where it denotes a loop *enclosing* the body (not inside one of the
    body's own `% for`s; a for's iterable is evaluated outside it).  `deep`: also through the callables nested in
    the body (they read the same variable)"""
    for n in body:
        k = n[0]
        if k == "expr" and G.ex_mentions_loop(n[1]):
            return True
        if k == "py" and G.py_mentions_loop(n[1]):
            return True
        if k == "call" and G.ex_mentions_loop(n[1]):
            return True
        if deep and k in ("def", "call", "block") and _mentions_outside_for(G.sub_bodies(n)[0], True):
            return True
        if k == "for":
            if G.iter_mentions_loop(n[2]) or (n[4] is not None and _mentions_outside_for(n[4], deep)):
                return True
        elif k in ("if", "while", "try", "with"):
            if any(G.header_loop_refs(n)) or any(_mentions_outside_for(b, deep) for b in G.sub_bodies(n)):
                return True
    return False


def closure_reads_loop(body):
    """a nested def / <%call> body / block that reads the `loop` of the scope around it"""
    return any(n[0] in ("def", "call", "block") and _mentions_outside_for(G.sub_bodies(n)[0]) for n in G.walk(body))


def closure_only_mention(body):
    """a `% for` that is rewritten only because `loop` is mentioned inside a nested def / <%call> body below it,
    in a scope that does not mention `loop` itself (the shape /repo bca4969 repaired)"""
    def level(b, scope_mentions):
        for n in b:
            k = n[0]
            if k == "for" and G.detected(n) and not scope_mentions:
                return True
            if k in ("if", "for", "while", "try", "with"):
                if any(level(sb, scope_mentions) for sb in G.sub_bodies(n)):
                    return True
        return False
    scopes = [body] + [G.sub_bodies(n)[0] for n in G.walk(body) if n[0] in ("def", "call", "block")]
    return any(level(sc, G.scope_mentions_loop(sc)) for sc in scopes)


_SHARED_MODEL_FOLLOWS = {}


def shared_model_follows_bca4969(drv):
    """does the shared code-generator model (Codegen/Model.lean, maintained with C13) already create a LoopStack
    for a `% for` whose only `loop` mention sits in a <%call> body?  Probed once per run on a two-line template."""
    if "v" not in _SHARED_MODEL_FOLLOWS:
        probe = [["def", 1, [], {"buffered": False, "filters": [], "cached": False, "deco": False},
                  [["expr", ["caller", 0, []], []]]],
                 ["for", 2, [["lit", "p"]], [["call", ["call", 1, []], [], [["expr", ["loopindex"], []]]]]]]
        o = drv.ask("tgt run %d %d n 0 1 n %s" % (10 ** 9, FUEL, G13.to_wire(probe)))
        _SHARED_MODEL_FOLLOWS["v"] = o.startswith("val")
    return _SHARED_MODEL_FOLLOWS["v"]


def model_req(op, low, k):
    return "tgt %s %d %d n 0 1 n %s" % (op, k if k >= 0 else 10 ** 9, FUEL, G13.to_wire(low))


def parse_model(line):
    f = line.split(" ")
    res = f[0]
    if res.startswith("val"):
        res = "ok"
    elif res == "exc:0":
        res = "boom"
    elif res not in ("timeout", "bad-args", "bad-op"):
        res = "error"
    out = dec(f[1]) if len(f) > 1 else None
    cnt = int(f[6]) if len(f) > 6 else None
    return res, out, cnt


def behaviour_corr(ctx, drv, pending):
    """pending: (body, lowered, cfg, k, real result)"""
    st = ctx.stream("corr.behaviour")
    st2 = ctx.stream("corr.spec")
    if not shared_model_follows_bca4969(drv):
        pending = [p for p in pending if not closure_only_mention(p[0])]
    outs = drv.ask_many([model_req("run", low, k) for _, low, _, k, _ in pending])
    outs2 = drv.ask_many([model_req("spec", low, k) for _, low, _, k, _ in pending])
    for (body, low, cfg, k, real), o, o2 in zip(pending, outs, outs2):
        if closure_reads_loop(body):
            # the shared target model keeps ONE dynamic loop stack (a `<%call>` body run from a callee that owns a
            # LoopStack sees the callee's, not the lexically enclosing one) and the shared specification renderer
            # gives a nested callable no enclosing loop; C03 reads `loop` in a closure lexically, as Python's
            # closures do - judged by oracle.native
            ctx.branch("model:skipped-closure-reads-loop")
            continue
        st["cases"] += 1
        m = parse_model(o)
        case = {"input": G.to_source(body, cfg.page), "tree": body, "k": k, "config": cfg.to_json()}
        if (real[0], real[1], real[2]) != m:
            ctx.disagree("corr.behaviour", case, m, real[:3])
        st2["cases"] += 1
        s = parse_model(o2)
        if (real[0], real[1]) != s[:2]:
            ctx.disagree("corr.spec", case, s[:2], real[:2])


# ------------------------------------------------------------------------------------------------ generated streams

def knob_sets(ctx):
    K = G.Knobs
    q = ctx.quick
    return [
        # name, knobs, configuration, number of templates
        ("mixed", K(), Cfg(), 250 if q else 2500),
        ("loops", K(constructs={"text": 4, "expr": 7, "comment": 1, "py": 1.5, "if": 2.5, "for": 6, "while": 0.8,
                                "try": 3, "with": 0.5, "def": 1.2, "call": 1.2, "brk": 1, "cont": 0.6, "ret": 0.4},
                    p_loop_use=0.85, p_boom=0.4), Cfg(), 200 if q else 2000),
        ("deep", K(max_body=3, budget=40, constructs={"text": 4, "expr": 4, "comment": 1.5, "py": 1, "if": 4, "for": 4,
                                                      "while": 1.5, "try": 3, "with": 1.5, "brk": 0.5, "ret": 0.2},
                   p_empty_body=0.2, p_comment_body=0.15), Cfg(), 80 if q else 900),
        ("target-grammar", K(lowerable=True, constructs={"text": 5, "expr": 7, "comment": 1, "if": 3, "for": 4, "while": 1,
                                                         "try": 2.5, "def": 1.5, "call": 1.2, "block": 0.6, "ret": 0.4,
                                                         "brk": 0.6, "cont": 0.4}, p_loop_use=0.8), Cfg(),
         150 if q else 1500),
        ("loop-disabled", K(enable_loop=False), Cfg(tmpl=False), 60 if q else 600),
        ("loop-disabled-page-false", K(enable_loop=False), Cfg(tmpl=False, page=False), 20 if q else 200),
        ("page-reenables", K(p_loop_use=0.85), Cfg(tmpl=False, page=True), 60 if q else 600),
        ("page-false-on-enabled", K(p_loop_use=0.85), Cfg(tmpl=True, page=False), 20 if q else 200),
    ]


def _o(n):
    return {"mg": [["", " "] for _ in range(n)], "cmt": None}


def quirk_trees():
    """hand-made minimal shapes of the recorded findings (run through the same oracle and shrinker as the
    generated ones, so every finding is exercised on every run); more are searched for at random"""
    F = G.FL
    loop_i = ["expr", ["loop", "index"]]
    return {
        "ret-in-buffering": [
            [["def", 1, [], F(buffered=True), [["text", "x"], ["py", [["ret"]], None], ["text", "y"]]],
             ["text", "["], ["expr", ["call", 1, []]], ["text", "]"]],
            [["def", 1, [], F(filters=[2]), [["text", "x"], ["py", [["ret"]], None], ["text", "y"]]],
             ["text", "["], ["expr", ["call", 1, []]], ["text", "]"]]],
        "loop-only-in-call-expr": [
            [["def", 1, [2], F(), [["text", "("], ["expr", ["var", 2]], ["expr", ["callerbody"]], ["text", ")"]]],
             ["for", 1, ["list", [["lit", "p"], ["lit", "q"]]],
              [["call", ["call", 1, [["loop", "index"]]], [["text", "b"]]]], None, _o(2)]]],
        "closure-mixed": [
            [["def", 1, [], F(), [["text", "("], ["expr", ["callerbody"]], ["text", ")"]]],
             ["for", 1, ["list", [["lit", "p"], ["lit", "q"]]],
              [loop_i, ["call", ["call", 1, []],
                        [loop_i, ["for", 2, ["list", [["lit", "r"]]], [["expr", ["loop", "first"]]], None, _o(2)]]]],
              None, _o(2)]],
            # the read sits in a callable nested in the closure that has the loop of its own
            [["def", 1, [], F(), [["text", "("], ["expr", ["callerbody"]], ["text", ")"]]],
             ["for", 1, ["list", [["lit", "p"]]],
              [loop_i, ["call", ["call", 1, []],
                        [["call", ["call", 1, []], [loop_i]],
                         ["for", 2, ["list", [["lit", "r"]]], [["expr", ["loop", "first"]]], None, _o(2)]]]],
              None, _o(2)]]],
        "loop-in-call-body-def": [
            [["def", 1, [], F(), [["text", "("], ["expr", ["callerbody"]], ["text", ")"]]],
             ["call", ["call", 1, []],
              [["for", 2, ["list", [["lit", "p"], ["lit", "q"]]],
                [["def", 2, [], F(), [loop_i]], ["expr", ["call", 2, []]], loop_i], None, _o(2)]]]],
            # an anonymous block there reads the loop
            [["def", 1, [], F(), [["expr", ["callerbody"]]]],
             ["call", ["call", 1, []],
              [["for", 2, ["list", [["lit", "p"]]], [loop_i, ["block", 3, F(), [loop_i]]], None, _o(2)]]]],
            # ... or has a loop of its own, whose parent ought to be the loop around it
            [["def", 1, [], F(), [["expr", ["callerbody"]]]],
             ["call", ["call", 1, []],
              [["for", 2, ["list", [["lit", "p"]]],
                [["block", 3, F(), [["for", 4, ["list", [["lit", "q"]]], [["expr", ["loop", "parent_is_none"]]],
                                     None, _o(2)]]]], None, _o(2)]]]]],
        "unsized-len": [
            [["for", 1, ["gen", [["lit", "p"], ["lit", "q"]]], [["expr", ["loop", "last"]]], None, _o(2)]],
            [["for", 1, ["iter", [["lit", "p"], ["lit", "q"]]], [["expr", ["loop", "reverse_index"]]], None, _o(2)]]],
    }


_CLOSURES = {"text": 1, "expr": 5, "for": 7, "def": 6, "call": 6}
QUIRKS = [
    ("ret-in-buffering", dict(ret_in_buffered=True, call_defs=True, p_def_flag=0.7,
                              constructs={"text": 5, "expr": 3, "def": 5, "ret": 2.5, "if": 1})),
    ("loop-only-in-call-expr", dict(loop_only_in_call_expr=True, hide_direct_loop=1.0,
                                    p_loop_in_call_args=0.95, p_loop_use=0.95, budget=16,
                                    constructs={"text": 2, "expr": 2, "for": 7, "def": 4, "call": 8})),
    ("loop-in-call-body-def", dict(loop_in_call_body_def=True, p_loop_use=0.95, budget=26, call_defs=True,
                                   p_callerbody=0.9, constructs={"text": 1, "expr": 3, "for": 8, "def": 6, "call": 9})),
    ("unsized-len", dict(unsized_len=True, p_loop_use=0.95, constructs={"text": 3, "expr": 8, "for": 6, "if": 2})),
    ("closure-mixed", dict(closure_mixed=True, p_loop_use=0.95, budget=22, call_defs=True, p_callerbody=0.8,
                           constructs=_CLOSURES)),
]


def run_template(ctx, body, cfg, stream, st, pending, skel, lowered_items, tag):
    """all crash points for one template"""
    try:
        impl = Impl(body, cfg)
    except Exception:       # noqa
        st["cases"] += 1
        site, detail, _, _ = judge(body, cfg, -1)
        report(ctx, site, body, cfg, -1, detail, stream)
        ctx.branch("template:uncompilable")
        return
    base = impl.run(-1)
    total = base[2]
    cap = 18 if ctx.quick else 60
    ks = [-1] + list(range(min(total, cap)))
    has_ctl = any(n[0] in ("if", "for", "while", "try", "with") for n in G.walk(body))
    uses_loop = any(G.detected(n) for n in body)
    low = G.lower(body) if (cfg.effective or not uses_loop) else None
    reported = False
    for k in ks:
        st["cases"] += 1
        site, detail, real, nat = judge(body, cfg, k, impl)
        ctx.branch("outcome:" + (real[0] if real else "compile-error"))
        if has_ctl and (k >= 0 or uses_loop):
            ctx.nontriv((tag, k, cfg.name()))
        if site and not reported:
            report(ctx, site, body, cfg, k, detail, stream)
            reported = True
        if low is not None and real is not None:
            pending.append((body, low, cfg, k, real))
    if G.skeleton_ok(body):
        skel.append((body, cfg, impl))
    if low is not None:
        lowered_items.append((body, low, cfg, impl))


def handwritten(ctx):
    """fixed templates; `expect`: the output the equivalent Python gives"""
    from mako.template import Template
    st = ctx.stream("oracle.handwritten", "oracle")
    H = [
        ("margins", "  \t %   if x:\nA\n\t\t%elif y:\nB\n %  else:\nC\n% endif\n", {"x": 0, "y": 1}, "B\n", None),
        ("empty-bodies", "% if x:\n% elif y:\n## c\n% else:\n% endif\n% for a in b:\n% endfor\n% while 0:\n% endwhile\n"
                         "% try:\n% except:\n% endtry\n% with cm('t') as f:\n% endwith\nok", {"x": 0, "y": 0, "b": [1]},
         "ok", None),
        ("doc-only-body", "% if x:\n<%doc>d</%doc>\\\n% endif\nok", {"x": 1}, "ok", None),
        ("continued-header", "% if x and \\\n     y:\nA\n% endif\n", {"x": 1, "y": 1}, "A\n", None),
        ("block-at-margins", "% for a in [1, 2]:\n   <%\n\t\tt = a * 2\n\t\tu = '''q\n r'''\n   %>${t}${u}\n% endfor\n", {},
         "   2q\n r\n   4q\n r\n", None),
        ("for-else-break", "% for a in [1, 2]:\n${a}<% break %>\n% else:\nE\n% endfor\n% for a in []:\n% else:\nF\n% endfor\n",
         {}, "1F\n", None),
        ("with", "% with cm('t') as f:\n${f}\n% endwith\n${closedcount()}", {}, "t!\n1/1", None),
        ("typed-except", "% try:\n${kboom()}\n% except KeyError:\nK\n% endtry\n", {"__k": 0}, "K\n", None),
        ("several-excepts", "% try:\n${kboom()}\n% except Boom:\nB\n% except KeyError:\nK\n% except:\nO\n% endtry\n"
                            "% try:\n${boom()}\n% except KeyError:\nK\n% except Exception:\nE\n% endtry\n", {"__k": 0},
         "K\n\n", None),
        ("outermost-parent", "% for a in [1, 2]:\n${loop.parent is None}${bool(loop.parent)}"
                             "${loop.parent.index if loop.parent else -1}${pdepth(loop)}\\\n"
                             "% for b in [3]:\n(${loop.parent is None}${bool(loop.parent)}"
                             "${loop.parent.index if loop.parent else -1}${pdepth(loop)})\\\n% endfor\n% endfor\n", {},
         "TrueFalse-10(FalseTrue01)TrueFalse-10(FalseTrue11)", None),
        ("loop-only-in-nested-def", "<%def name=\"w()\">\\\n% for a in ['p', 'q']:\n<%def name=\"k()\">${loop.index}</%def>${k()}\\\n"
                                    "% endfor\n</%def>${w()}", {}, "01", None),
        ("loop-only-in-call-body", "<%def name=\"c()\">(${caller.body()})</%def>\\\n% for a in ['p', 'q']:\n"
                                   "<%call expr=\"c()\">${loop.index}</%call>\\\n% endfor\n", {}, "(0)(1)", None),
        ("lazy-generator-raises", "% try:\n% for a in tgen(['a', 'b', 'c']):\n[${loop.index}:${a}] \\\n% endfor\n% except Boom:\n"
                                  "caught\\\n% endtry\n", {"__k": 2}, "[0:a] [1:b] caught", None),
        ("lazy-generator-break", "% for a in tgen(['a', 'b', 'c', 'd']):\n${loop.index}\\\n% if loop.index == 1:\n<% break %>\\\n"
                                 "% endif\n% endfor\n${pulledcount()}", {}, "01<2>", None),
        ("loop-after-try", "% for a in [1, 2]:\n% try:\n% for b in [7, 8]:\n${loop.index}${boom()}\n% endfor\n% except Boom:\n"
                           "!${loop.index}\n% endtry\n% endfor\n", {"__k": 1}, "0\n1!0\n0\n1\n", None),
        ("modcode-only-suite", "% if x:\n<%! import os %>\\\n% endif\nok", {"x": 1}, "ok", None),
        ("def-only-suites", "% if x:\n<%def name=\"d()\">q</%def>\\\n% elif y:\n<%! import os %>\\\n% else:\n## c\n% endif\n"
                            "% for a in b:\n<%def name=\"e()\">zz</%def>\\\n% endfor\nok${d()}", {"x": 0, "y": 1, "b": [1]}, "okq", None),
        ("continued-clauses", "% if a:\nx\n% elif b and \\\n     c:\ny\n% endif\n% try:\n${kboom()}\n% except (KeyError, \\\n    ValueError):\nz\n% endtry\n",
         {"a": 0, "b": 1, "c": 1, "__k": 0}, "y\nz\n", None),
        ("header-formfeed", "% if x:\x0c\nA\n% endif\n", {"x": 1}, "A\n", None),
        ("for-comment-colon", "% for a in [1, 2]: # note: x\n${loop.index}\n% endfor\n% for a in {1: 2}:   # c\n"
                              "${loop.index}${a}\n% endfor\n", {}, "0\n1\n01\n", None),
    ]
    for name, src, data, expect, site in H:
        st["cases"] += 1
        data = dict(data)
        k = data.pop("__k", -1)
        full = R.PRELUDE + "\\\n" + src
        R.reset(k)
        try:
            got = Template(full).render(**data)
            err = None
        except Exception as e:      # noqa
            got, err = None, "%s: %s" % (type(e).__name__, str(e)[:160])
        ctx.branch("handwritten:" + name)
        if got != expect:
            ctx.violation(site or ("handwritten:" + name), {"input": src, "family": name, "data": repr(data), "k": k},
                          {"expected": expect, "got": got, "error": err}, "oracle.handwritten")


def run(ctx):
    drv = ctx.driver()
    pending, skel, lowered = [], [], []
    st = ctx.stream("oracle.native", "oracle")
    stq = ctx.stream("oracle.quirks", "oracle")
    try:
        n = 0
        for name, knobs, cfg, count in knob_sets(ctx):
            for _ in range(count):
                g = G.Gen(ctx.rng, knobs)
                body = g.template()
                for kk, v in G.kinds_hist(body).items():
                    ctx.branch("node:" + kk, v)
                hz = hazards(body)
                if not cfg.effective:       # nothing is mangled: only the shapes that do not involve `loop` matter
                    hz = [h for h in hz if h in ("ret-in-buffering",)]
                if hz:
                    # a recorded-finding shape slipped through the generator's own restrictions: it belongs to
                    # oracle.quirks, not here
                    ctx.branch("generator:hazard-skipped-in-main-stream:" + "+".join(hz))
                    continue
                run_template(ctx, body, cfg, "oracle.native", st, pending, skel, lowered, n)
                n += 1
                ctx.branch("stream:" + name)
            ctx.log("oracle %s: %d templates, %d runs, %d violations" % (name, n, st["cases"], len(ctx.violations)))
        # recorded-finding shapes, one knob at a time
        qt = quirk_trees()
        for name, kw in QUIRKS:
            before = len(ctx.violations)
            for body in qt.get(name, []):
                if name not in hazards(body):
                    ctx.broke("oracle.quirks:" + name, "the hand-made shape is not recognised as this hazard")
                run_template(ctx, body, Cfg(), "oracle.quirks", stq, [], [], [], ("qt", name))
            ctx.branch("quirk:%s:hand-made-violations" % name, len(ctx.violations) - before)
            # random search with the generator steered towards the shape
            found = shaped = tries = 0
            limit = 150 if ctx.quick else 400
            seen = getattr(ctx, "_c03_reported", None)
            while found < 2 and tries < limit:
                tries += 1
                g = G.Gen(ctx.rng, G.Knobs(**dict(dict(budget=12, max_depth=4), **kw)))
                body = g.template()
                if hazards(body) != [name]:
                    continue            # exactly this shape, alone (the entries match one shape each)
                shaped += 1
                site, _, _, _ = judge(body, Cfg(), -1)
                if site is None:
                    continue            # the shape is there but not reached / not observable in this template
                found += 1
                if seen is not None:    # let the random hits through the per-shape cap of `report`
                    for key in [k for k in seen if k[2] == "oracle.quirks"]:
                        seen[key] = min(seen[key], 1)
                run_template(ctx, body, Cfg(), "oracle.quirks", stq, [], [], [], ("q", name, tries))
            ctx.branch("quirk:%s:random-templates" % name, tries)
            ctx.branch("quirk:%s:random-with-shape" % name, shaped)
            ctx.branch("quirk:%s:random-violations" % name, found)
        handwritten(ctx)
        if skel:
            ctx.sample({"template": skel[0][2].src[len(R.PRELUDE):][:400]})
    finally:
        stream_regex(ctx, drv)
        stream_printer(ctx, drv)
        stream_lexctl(ctx, drv)
        stream_fragment(ctx, drv)
        stream_loopctx(ctx, drv)
        stream_declares(ctx, drv)
        structural(ctx, drv, skel)
        ctx.log("corr.events: %d templates" % ctx.streams["corr.events"]["cases"])
        target_corr(ctx, drv, lowered)
        behaviour_corr(ctx, drv, pending)
        ctx.log("corr.behaviour: %d runs" % ctx.streams["corr.behaviour"]["cases"])


def replay(ctx, data):
    case = data.get("case") or {}
    if not case and data.get("first_disagreements"):
        case = data["first_disagreements"][0].get("case") or {}
    if "family" in case:
        from mako.template import Template
        print("hand-written template:\n" + case["input"])
        R.reset(case.get("k", -1))
        try:
            print("mako:", repr(Template(R.PRELUDE + "\\\n" + case["input"]).render(**eval(case.get("data", "{}")))))
        except Exception as e:      # noqa
            print("mako raises %s: %s" % (type(e).__name__, e))
        print("expected:", repr((data.get("detail") or {}).get("expected")))
        return False
    body = case.get("tree")
    if body is None:
        print("nothing to replay in", list(data))
        return False
    c = case.get("config") or {"tmpl": True, "page": None}
    cfg = Cfg(c["tmpl"], c["page"])
    k = case.get("k", -1)
    print("template (%s):\n%s" % (cfg.name(), G.to_source(body, cfg.page)))
    print("crash point", k)
    site, detail, real, nat = judge(body, cfg, k)
    print("mako            :", real if real is not None else detail)
    print("native reference:", nat)
    low = G.lower(body)
    if low is not None:
        try:
            print("lean pipeline   :", parse_model(ctx.driver().ask(model_req("run", low, k))))
            print("lean spec       :", parse_model(ctx.driver().ask(model_req("spec", low, k)))[:2])
        except Exception as ex:      # noqa
            print("lean model unavailable:", ex)
    if site:
        print("property violated:", site, json.dumps(detail)[:600])
    return site is None
