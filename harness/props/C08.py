"""C08 - a template means the same on every compilation and rendering path, whatever PYTHONHASHSEED.

oracle (no Lean involved), five families:
  paths        generated template sets are run, in one worker subprocess per hash seed (0, 1, 2 and one seeded "random"
               value), through 12 constructions - string with uri+filename / bare string / the file's BYTES given as text / file in
               memory via a lookup /
               file without uri / module_directory / modulename_callable (absolute; and relative
               answer followed by a change of the working directory) / ModuleTemplate over the written module file /
               ModuleTemplate over `Template.code` written out by hand, with the template source as str and as bytes /
               the module directory re-loaded by a FRESH process - each through render, render_unicode, render_context, get_def(n).render() for every def, and
               (default options, string data) the mako-render command, in-process cmdline() and the real executable
               (14 path labels in all).  Besides the grammar-generated sets there are encoded sources: utf-8 / utf-8
               with BOM / latin-1 / cp1252, declared by input_encoding or a coding comment, whose first character has the
               UTF-8 lead byte 0xEF (U+F000-U+FFFF, also BOM + U+FEFF) or is one of the BOM's bytes in a single-byte encoding.  Outputs, `source`, `code` (modulo CODE_MAY_DIFFER), has_def/list_defs/get_def
               must agree between all paths and all seeds; ground truth on the reference path: list_defs = the planted
               defs, get_def of a name without has_def raises, get_def(n).render(**kw) = render_context with the named
               keyword arguments spelled out, get_def of a def that reads local/self/parent/next in an INHERITING
               template = what the def writes during a full render.
  directories  every seed's worker gets lookups over 2-4 directories (absolute, relative, duplicate spellings) with
               shadowed URIs: get_template, include / inherit / namespace and mako-render with several --template-dir
               must serve "the first configured directory that contains it" (file, source, code, defs, output).
  regeneration (bytecode caching on) a module file is regenerated in the same second with the same size - a second
               root sharing the module directory, or the source edited - with the default writer and three
               module_writer= variants: the regenerated module must be the one that executes.
  histories    multi-step sequences in ONE process (load through a module directory, edit the source, re-get, a second
               lookup with another root sharing the module directory, a fresh lookup): after every step the template
               just obtained answers source/code/defs/output for its own text (code = the module file on disk = the
               in-memory compile of the same text).
  one lookup   several templates whose URIs differ only in spelling / in non-word characters in ONE lookup: every
               template is asked for its own source, code, defs and output; two such templates including each other
               with a same-named <%namespace> must render as under non-colliding URIs (finds F5).
corr   : the Lean models of lean/MakoModel/Paths8 against the real code, op-level: module_id on every code point and
         on random URIs, Template.__init__'s path selection, _kwargs_for_callable on random signatures, the ModuleInfo
         registry on random register/collect/read scripts, ModuleInfo.code over scripted rewrites of the module file,
         ModuleInfo.source over byte strings (every string of <= 3 bytes over the BOM's bytes and two others + random),
         the directory probe order of get_template, has_def/list_defs, the module preamble, Context._locals key order,
         and - per hash seed - every declaration block the real generator emitted (recorded by wrapping
         write_variable_declares in the worker): the emitted order must be the model's `emittedBlock` (sorted
         `to_write`, the model's statement kinds), blocks - and the whole generated module - must be IDENTICAL under all
         hash seeds (the generator prints sorted sets), and the NameError a strict template raises must be the one
         `execDecls` raises for the emitted block.
"""
from __future__ import annotations

import json
import os
import re
import shutil
import subprocess
import sys
import tempfile
import time

RULE = ("template sets = a main template built from self-contained items (text incl. non-ASCII/CRLF, ${expr|filters}, "
        "% for/if with loop, <% %>/<%! %> blocks, <%def> incl. nested/buffered/filtered, <%call> with caller.body(), "
        "named/anonymous <%block>, <%page args>, <%text>, <%doc>, ## comments, namespace/import/include/inherit edges "
        "to auxiliary templates incl. several importing namespaces that supply the same name, an inheriting template whose "
        "def reads local/self/parent/next (bracketed by markers: ground truth for get_def().render()), a context.keys() "
        "probe inside a def) + data + compile options (strict_undefined, "
        "default_filters, buffer_filters, imports, output_encoding); each set x 12 construction paths (+ mako-render twice = "
        "14 path labels) x 3-4 render calls x get_def per def x 4 hash seeds; plus, per seed, 30 (thorough 300) lookups "
        "over 2-4 directories with shadowed URIs and 4 module writers x 2 in-place regeneration scenarios; plus, in the "
        "main process, 60 (800) edit/re-get/second-lookup histories and 40 (600) sets of URIs that differ only in "
        "non-word characters in one lookup; non-trivial = the main template has >= 2 declared names in some render "
        "callable (so that the set order matters) or non-ASCII text; distinct = distinct template sources")
ASSUMPTIONS = [
    "import machinery, .pyc caching and mako-render's argv handling are exercised by the differential, not modelled",
    "PYTHONHASHSEED only influences mako through the iteration order of Python sets (dict order is insertion order)",
    "the `random` hash seed is drawn from the check's PRNG (reproducible), not from os.urandom",
    "the in-place regeneration scenarios are conclusive only when both generations share the whole-second mtime and the "
    "size (retried; the stamping module_writer makes one variant deterministic)",
]
TRUSTED_EXTRA = [
    "C08: the worker's recorder of write_variable_declares (wraps three methods of _GenerateRenderMethod and "
    "PythonPrinter.writeline in the worker process) and its line parser",
    "C08: regex class \\W is the regenerated table Generated/Unicode.lean (probed from the running interpreter)",
    "C08: the flags dropsBytecode / dropsBytecodeHook come from the regen group ModFile (tools/regen_modfile.py, shared "
    "with C15), the other flags and tables from tools/regen_paths8.py",
]
REGEN = ["Unicode", "Paths8", "ModFile"]

HERE = os.path.dirname(os.path.abspath(__file__))
VERIF = os.path.dirname(os.path.dirname(HERE))
REPO = os.environ.get("MAKO_REPO", "/repo")

# what may differ between the `code` of two paths of the same template (everything else must be equal):
CODE_MAY_DIFFER = [
    "line 1 `# -*- coding:<enc> -*-`: present exactly on the module-file paths",
    "`_modified_time = <float>`",
    "the JSON line between __M_BEGIN_METADATA/__M_END_METADATA: line_map keys (and the value of its last entry) "
    "are shifted by exactly 1 on the module-file paths; `filename`/`uri` follow the constructor arguments",
    "`_template_filename = …` / `_template_uri = …` only between constructions that were given a different "
    "filename / uri (bare string, file without uri)",
    "`__anon_0x<id>` names of anonymous namespaces (derived from id())",
]


# =========================================================================================== generator

TEXTS = ["hello ", "héllo wörld ", "日本語 ", "a < b & c ", "tab\there ", "100% ", "$ {x} ", "x\\ny ", "\u00a0nbsp ",
         "emoji \U0001F600 ", "'q' \"dq\" ", "line\n", "crlf\r\n", "\n"]


class Gen:
    """builds one template set; every top-level item is self-contained (ddmin over items keeps the syntax valid)"""

    def __init__(self, rng):
        self.rng = rng
        self.nd = 0
        self.defs = []        # (name, kwargs for get_def().render)
        self.nested = []      # names of defs nested in other defs: not module-level, so not get_def()-able
        self.probes = []      # argument-less defs whose full-render output is bracketed by markers (ground truth for get_def)
        self.aux = {}
        self.uses_page = False
        self.flags = set()

    def name(self, p):
        self.nd += 1
        return "%s%d" % (p, self.nd)

    def var(self):
        return self.rng.choice(["v1", "v2", "v3", "v4"])

    def text(self):
        return self.rng.choice(TEXTS)

    def expr(self, names=()):
        r = self.rng
        pool = ["${%s}" % self.var(), "${%s | h}" % self.var(), "${%s | u}" % self.var(), "${%s + 'é'}" % self.var(),
                "${%s | n, trim}" % self.var(), "${'<é&>' | h}", "${len(%s)}" % self.var(), "${%s.upper()}" % self.var(),
                "${'%%s-%%s' %% (%s, %s)}" % (self.var(), self.var()), "${%s[:2]}" % self.var()]
        if names:
            pool += ["${%s}" % r.choice(list(names))] * 3
        return r.choice(pool)

    def inline(self, names=(), n=None):
        r = self.rng
        out = []
        for _ in range(n or r.randint(1, 3)):
            out.append(self.text() if r.random() < 0.4 else self.expr(names))
        return "".join(out)

    def item(self, depth=0):
        r = self.rng
        k = r.random()
        if k < 0.16:
            self.flags.add("text")
            return self.text() + self.inline()
        if k < 0.30:
            return self.inline(n=r.randint(2, 4))
        if k < 0.40:
            self.flags.add("control")
            kind = r.random()
            if kind < 0.5:
                return "\n%% for i in range(%d):\n%s${i}${loop.index}${loop.last}\n%% endfor\n" % (r.randint(0, 3), self.inline())
            if kind < 0.8:
                return "\n%% if %s:\n%s\n%% elif %s == 'zz':\nZ\n%% else:\n%s\n%% endif\n" % (self.var(), self.inline(), self.var(), self.inline())
            return "\n% for a, b in [(1, 2), (3, 4)]:\n  % if a > 1:\n${a}-${b}" + self.inline() + "\n  % endif\n% endfor\n"
        if k < 0.48:
            self.flags.add("code")
            x = self.name("x")
            y = self.name("y")
            if r.random() < 0.3:
                return "<%%! %s = 'mod-%s' %%>${%s}" % (x, x, x)
            return "<%%\n    %s = %s.upper()\n    %s = len(%s)\n%%>${%s}${%s}" % (x, self.var(), y, self.var(), x, y)
        if k < 0.66:
            return self.deftag(depth)
        if k < 0.72:
            self.flags.add("call")
            d = self.name("c")
            self.defs.append((d, {}))
            return ("<%%def name=\"%s()\">(${caller.body()}|%s)</%%def><%%call expr=\"%s()\">%s</%%call>"
                    % (d, self.inline(), d, self.inline()))
        if k < 0.80:
            self.flags.add("block")
            if r.random() < 0.5:
                b = self.name("b")
                self.defs.append((b, {}))
                return "<%%block name=\"%s\">%s</%%block>" % (b, self.inline())
            return "<%%block filter=\"h\">%s<&></%%block>" % self.inline()
        if k < 0.84:
            self.flags.add("textdoc")
            return r.choice(["<%text>${not} <%an expr%> % x</%text>", "<%doc>doc ${x}</%doc>", "\n## a comment ${x}\n"])
        if k < 0.88 and not self.uses_page:
            self.uses_page = True
            self.flags.add("page")
            return r.choice(["<%page args=\"p1='P1', p2='P2', p3='P3'\"/>${p1}${p2}${p3}",
                             "<%page args=\"p1='P1', **kw\"/>${p1}${sorted(kw)}",
                             "<%page expression_filter=\"h\"/>${'<p>'}",
                             "<%page args=\"p1='P1', p2='P2', p3='P3', p4='P4'\"/>"])
        if k < 0.94:
            return self.edge()
        self.flags.add("keysprobe")
        d = self.name("k")
        self.defs.append((d, {}))
        return ("<%%def name=\"%s()\">{${','.join(k for k in context.keys() if k[:1] in 'vpxy' and k != 'pageargs')}}</%%def>${%s()}"
                % (d, d))

    def deftag(self, depth):
        r = self.rng
        self.flags.add("def")
        d = self.name("d")
        sig, call, kw = r.choice([("", "", {}), ("a", "1", {"a": "A"}), ("a, b='B'", "v1", {"a": "A", "b": "BB"}),
                                  ("a, *rest", "1, 2, 3", {"a": "A"}), ("a='x', **kw", "q=1", {"a": "A", "zz": "Z"})])
        attrs = r.choice(["", "", " buffered=\"True\"", " filter=\"h\"", " filter=\"trim\" buffered=\"True\""])
        params = [p.split("=")[0].strip(" *") for p in sig.split(",") if p.strip()]
        body = self.inline(names=[p for p in params if p not in ("rest", "kw")])
        if attrs and "buffered" in attrs:
            body = "  " + body + "  "
        if depth < 2 and r.random() < 0.3:
            self.flags.add("nested-def")
            inner = self.name("n")
            self.nested.append(inner)
            body += "<%%def name=\"%s(z)\">{${z}%s}</%%def>${%s(%s)}" % (inner, self.inline(), inner, self.var())
        self.defs.append((d, kw))
        return "<%%def name=\"%s(%s)\"%s>%s</%%def>${%s(%s)}" % (d, sig, attrs, body, d, call)

    def edge(self):
        r = self.rng
        k = r.random()
        if k < 0.25:
            self.flags.add("namespace")
            self.aux["/lib.html"] = "<%def name=\"l1(x)\">L1(${x}${v1})</%def><%def name=\"l2()\">L2é</%def>"
            ns = self.name("ns")
            return "<%%namespace name=\"%s\" file=\"/lib.html\"/>${%s.l1(%s)}${%s.l2()}" % (ns, ns, self.var(), ns)
        if k < 0.45:
            self.flags.add("ns-import")
            self.aux["/lib2.html"] = "<%def name=\"m1(x)\">M1(${x})</%def><%def name=\"m2()\">M2${v2}</%def>"
            return "<%namespace file=\"/lib2.html\" import=\"m1, m2\"/>${m1(" + self.var() + ")}${m2()}"
        if k < 0.62 and "/libA.html" not in self.aux:
            # two importing namespaces supply the same name: the later tag wins, whatever the hash seed
            self.flags.add("ns-import-overlap")
            self.aux["/libA.html"] = "<%def name=\"sh()\">SH-A</%def><%def name=\"oa()\">OA${v1}</%def>"
            self.aux["/libB.html"] = "<%def name=\"sh()\">SH-B</%def><%def name=\"ob()\">OB</%def>"
            self.aux["/libC.html"] = "<%def name=\"sh()\">SH-C</%def>"
            return r.choice([
                "<%namespace name=\"na\" file=\"/libA.html\" import=\"sh, oa\"/><%namespace name=\"nb\" file=\"/libB.html\" import=\"ob, sh\"/>${sh()}${oa()}${ob()}",
                "<%namespace file=\"/libB.html\" import=\"*\"/><%namespace file=\"/libA.html\" import=\"*\"/><%namespace file=\"/libC.html\" import=\"sh\"/>${sh()}${oa()}${ob()}",
                "<%namespace name=\"zz\" file=\"/libC.html\" import=\"sh\"/><%namespace name=\"aa\" file=\"/libA.html\" import=\"*\"/><%namespace name=\"mm\" file=\"/libB.html\" import=\"sh\"/>${sh()}|${aa.sh()}|${zz.sh()}"])
        if k < 0.8:
            self.flags.add("include")
            self.aux["/inc.html"] = "<%page args=\"w='dflt'\"/>INC(${w}${v3})"
            return r.choice(["<%include file=\"/inc.html\"/>", "<%%include file=\"/inc.html\" args=\"w=%s\"/>" % self.var()])
        if "/base.html" not in self.aux:
            self.flags.add("inherit")
            self.aux["/base.html"] = "BASE[${self.body()}|<%block name=\"bb\">base-bb${v4}</%block>|${next.body()}]"
            self.defs.append(("bb", {}))
            q = self.name("q")
            self.defs.append((q, {}))
            self.probes.append(q)
            # a def of the INHERITING template that looks at local / self / parent / next: get_def(q).render() must see
            # the same namespaces as the def called during a full render
            return ("<%%inherit file=\"/base.html\"/><%%block name=\"bb\">child-bb%s</%%block>"
                    "<%%def name=\"%s()\">[${local.uri == self.uri}|${parent.uri}|${next is UNDEFINED}|${parent.bb is not UNDEFINED}]</%%def>"
                    "\u27e6%s:${%s()}\u27e7" % (self.inline(), q, q, q))
        return self.inline()


def gen_case(rng, cid, size=None):
    g = Gen(rng)
    n = size or rng.randint(1, 7)
    items = [g.item() for _ in range(n)]
    data = {}
    for v in ("v1", "v2", "v3", "v4"):
        if rng.random() < 0.94:
            data[v] = rng.choice(["one", "zwei ü", "<b>&", "日本", " pad ", "zz", "", "a b/c?d=é"])
    if g.uses_page and rng.random() < 0.5:
        data["p1"] = "data-p1"
        if rng.random() < 0.5:
            data["p3"] = "data-p3"
    opts = {}
    r = rng.random()
    if r < 0.12:
        opts["strict_undefined"] = True
    elif r < 0.2:
        opts["default_filters"] = ["str", "h"]
    elif r < 0.3:
        opts["buffer_filters"] = ["trim"]
    elif r < 0.36:
        opts["imports"] = ["from os.path import basename", "import math"]
        items.append("${basename('/a/b.txt')}${math.floor(2.5)}")
    elif r < 0.44:
        opts["output_encoding"] = rng.choice(["utf-8", "utf-16", "latin-1"])
        if opts["output_encoding"] == "latin-1":
            opts["encoding_errors"] = "replace"
    elif r < 0.48:
        opts["enable_loop"] = False
    if opts.get("strict_undefined"):
        # strict mode: every name must resolve, except the ones we plant on purpose
        for v in ("v1", "v2", "v3", "v4"):
            data.setdefault(v, "s-" + v)
        if rng.random() < 0.6:
            missing = rng.sample(["m1x", "m2x", "m3x", "m4x"], rng.randint(1, 3))
            items.append("".join("${%s}" % m for m in missing))
            g.flags.add("strict-missing-%d" % len(missing))
    uri = rng.choice(["/main.html", "/main.html", "/sub/main.html", "/sub dir/ma-in.html", "/m\u00e4in.html"])
    return {"id": cid, "items": items, "aux": g.aux, "uri": uri, "data": data, "opts": opts, "defs": g.defs,
            "nested": g.nested, "probes": g.probes, "flags": sorted(g.flags)}


# first characters: utf-8 lead byte 0xEF (U+F000-U+FFFF), the latin-1/cp1252 characters whose single byte is one of the
# byte order mark's bytes, U+FEFF itself, and ordinary controls
FIRST_EF = ["\uff08", "\uff01", "\uff21", "\ufefb", "\ufb01", "\uf8ff", "\ufffd", "\ufeff", "\uf000", "\uffe5"]
# (not the full sequence EF BB BF: in a single-byte encoding those three bytes ARE a utf-8 byte order mark to mako)
FIRST_L1 = ["\u00ef", "\u00bb", "\u00bf", "\u00ef\u00bb", "\u00bb\u00bf", "\u00bf\u00bf\u00ef"]
FIRST_PLAIN = ["h", "\u00e9", "<", "$"]


def gen_enc_case(rng, cid):
    """a template whose source is held as BYTES on the file paths: encoding x how it is declared x first character"""
    enc_, how = rng.choice([("utf-8", "plain"), ("utf-8", "plain"), ("utf-8", "bom"), ("utf-8", "bom"), ("utf-8", "comment"),
                            ("latin-1", "input_encoding"), ("cp1252", "input_encoding"), ("latin-1", "comment"),
                            ("cp1252", "comment"), ("utf-8", "input_encoding")])
    if enc_ == "utf-8":
        first = rng.choice(FIRST_EF + FIRST_EF + FIRST_L1 + FIRST_PLAIN)
        if first == "\ufeff" and how != "bom":
            # the utf-8 bytes of a leading U+FEFF ARE the byte order mark: only meaningful after a real BOM
            # (BOM + U+FEFF: exactly one of the two goes)
            first = "\uff08"
        body = rng.choice(["hello ${v1} \u65e5\u672c", " \uff08x\uff09 ${v2 | h}", ""])
    else:
        first = rng.choice(FIRST_L1 + FIRST_L1 + FIRST_PLAIN)
        body = rng.choice(["hola ${v1} \u00bf\u00e9\u00bb", " \u00ef ${v2 | h}", ""])
    items = [first + body, "<%def name=\"d1()\">" + first + "${v2}</%def>${d1()}"]
    if how == "comment":
        items.insert(0, "## -*- coding: %s -*-\n" % enc_)
    opts = {"input_encoding": enc_} if how == "input_encoding" else {}
    return {"id": cid, "items": items, "aux": {}, "uri": rng.choice(["/main.html", "/sub/enc.html"]),
            "data": {"v1": "one", "v2": "zw\u00ebi"}, "opts": opts, "defs": [["d1", {}]], "nested": [], "probes": [],
            "file_encoding": enc_, "bom": how == "bom",
            "flags": ["enc:%s:%s" % (enc_, how), "first:" + ("EF-lead" if first in FIRST_EF else "bom-byte" if first in FIRST_L1 else "plain")]}


def case_text(case):
    return "".join(case["items"])


# =========================================================================================== worker (one per hash seed)
# Runs in a subprocess with PYTHONHASHSEED set; imports mako from $MAKO_REPO; no Lean, no harness state.

ADDR = re.compile(r"0x[0-9a-fA-F]{6,}")


def canon_msg(s, root):
    s = s.replace(root, "<ROOT>")
    s = ADDR.sub("0xID", s)
    s = re.sub(r" in file '[^']*'", "", s)
    s = re.sub(r"module '[^']*' has no attribute", "module 'M' has no attribute", s)
    return s


def outcome(fn, root):
    """('ok', text) | ('exc', class name, canonical message)"""
    try:
        v = fn()
    except Exception as e:        # noqa: BLE001 - every exception class is an outcome here
        return ["exc", type(e).__name__, canon_msg(str(e), root)]
    if isinstance(v, bytes):
        return ["bytes", v.hex()]
    if isinstance(v, str) and " at 0x" in v:
        v = ADDR.sub("0xID", v)
    return ["ok", v]


META = re.compile(r"(__M_BEGIN_METADATA\n)(.+?)(\n__M_END_METADATA)", re.S)


def norm_code(code, loose=False):
    """canonical form of a generated module: the lines of CODE_MAY_DIFFER removed/rewritten.
    returns (text, magic_line_present, line_map items)"""
    if not isinstance(code, str):
        return ("<not a str: %r>" % type(code).__name__, False, [])
    magic = False
    lines = code.split("\n")
    if lines and re.match(r"# -\*- coding:[-\w.]+ -\*-$", lines[0]):
        magic = True
        lines = lines[1:]
    out = []
    for l in lines:
        if l.startswith("_modified_time = "):
            l = "_modified_time = T"
        elif loose and (l.startswith("_template_filename = ") or l.startswith("_template_uri = ")):
            l = l.split(" = ")[0] + " = X"
        out.append(l)
    text = ADDR.sub("0xID", "\n".join(out))
    lm = []
    m = META.search(text)
    if m:
        try:
            meta = json.loads(m.group(2))
            lm = [[int(k), int(v)] for k, v in meta.get("line_map", {}).items()]
            meta["line_map"] = "LM"
            if loose:
                meta["filename"] = meta["uri"] = "X"
            text = text[: m.start(2)] + json.dumps(meta, sort_keys=True) + text[m.end(2):]
        except ValueError:
            pass
    return text, magic, lm


def linemap_relation(lm_a, magic_a, lm_b, magic_b):
    """the relation CODE_MAY_DIFFER allows between two line maps (None if fine, else a description)"""
    da, db = (1 if magic_a else 0), (1 if magic_b else 0)
    if len(lm_a) != len(lm_b):
        return "line maps of different length"
    if not lm_a:
        return None
    ka = [k - da for k, _ in lm_a]
    kb = [k - db for k, _ in lm_b]
    if ka != kb:
        return "line map keys are not shifted by the magic-comment line: %r vs %r" % (lm_a[:4], lm_b[:4])
    if [v for _, v in lm_a[:-1]] != [v for _, v in lm_b[:-1]]:
        return "line map template lines differ"
    if lm_a[-1][1] - da != lm_b[-1][1] - db:
        return "final line map entry differs"
    return None


class Recorder:
    """records every write_variable_declares call of one compilation (the declaration blocks as emitted)"""

    def __init__(self):
        self.records = []
        self.stack = []

    def __enter__(self):
        from mako import codegen, pygen
        G = codegen._GenerateRenderMethod
        self.G, self.P = G, pygen.PythonPrinter
        self.orig = (G.write_variable_declares, G.write_def_decl, G.write_inline_def, self.P.writeline)
        rec = self
        o_wvd, o_dd, o_id, o_wl = self.orig

        def wvd(self_, identifiers, toplevel=False, limit=None):
            comp = self_.compiler
            fr = {"items": [], "susp": 0,
                  "toplevel": bool(toplevel),
                  "enable_loop": bool(comp.enable_loop), "strict": bool(comp.strict_undefined),
                  "has_ns_imports": bool(getattr(comp, "has_ns_imports", False)),
                  "undeclared": sorted(identifiers.undeclared),
                  "closuredefs": sorted(c.funcname for c in identifiers.closuredefs.values()),
                  "argument_declared": sorted(identifiers.argument_declared),
                  "locally_declared": sorted(identifiers.locally_declared),
                  "defs": sorted(c.funcname for c in identifiers.defs),
                  "namespaces": sorted(comp.namespaces),
                  "limit": None if limit is None else sorted(limit)}
            rec.stack.append(fr)
            try:
                return o_wvd(self_, identifiers, toplevel=toplevel, limit=limit)
            finally:
                rec.stack.pop()
                del fr["susp"]
                rec.records.append(fr)

        def susp(orig):
            def f(self_, node, *a, **k):
                fr = rec.stack[-1] if rec.stack else None
                if fr is not None:
                    if fr["susp"] == 0:
                        fr["items"].append(["def", node.funcname])
                    fr["susp"] += 1
                top = len(rec.stack)
                try:
                    return orig(self_, node, *a, **k)
                finally:
                    if fr is not None:
                        fr["susp"] -= 1
                    del rec.stack[top:]
            return f

        def wl(pself, line):
            if rec.stack and rec.stack[-1]["susp"] == 0:
                rec.stack[-1]["items"].append(["line", line])
            return o_wl(pself, line)

        G.write_variable_declares = wvd
        G.write_def_decl = susp(o_dd)
        G.write_inline_def = susp(o_id)
        self.P.writeline = wl
        return self

    def __exit__(self, *a):
        G = self.G
        G.write_variable_declares, G.write_def_decl, G.write_inline_def, self.P.writeline = self.orig


def write_set(case, tdir):
    files = dict(case["aux"])
    files[case["uri"]] = case_text(case)
    for uri, text in files.items():
        p = os.path.join(tdir, uri.lstrip("/"))
        os.makedirs(os.path.dirname(p), exist_ok=True)
        with open(p, "wb") as f:
            if uri == case["uri"]:
                f.write((b"\xef\xbb\xbf" if case.get("bom") else b"") + text.encode(case.get("file_encoding", "utf-8")))
            else:
                f.write(text.encode("utf-8"))
    return os.path.join(tdir, case["uri"].lstrip("/"))


def load_pyfile(name, path):
    import importlib.util
    spec = importlib.util.spec_from_file_location(name, path)
    mod = importlib.util.module_from_spec(spec)
    spec.loader.exec_module(mod)
    return mod


def file_state(path):
    try:
        st = os.stat(path)
        with open(path, "rb") as f:
            import hashlib
            return [st.st_mtime_ns, hashlib.sha1(f.read()).hexdigest()]
    except OSError:
        return None


def observe(t, case, root, text, full=True):
    """everything the property talks about, for one live template"""
    from mako.runtime import Context
    from mako import util
    data = case["data"]
    ob = {}
    ob["source"] = outcome(lambda: t.source, root)
    code = outcome(lambda: t.code, root)
    ob["code_is_str"] = code[0] == "ok"
    ob["code"] = code[1] if code[0] == "ok" else code
    names = [d for d, _ in case["defs"]] + list(case.get("nested", [])) + ["body", "nosuch", ""]
    ob["list_defs"] = outcome(lambda: t.list_defs(), root)
    ob["has_def"] = {n: outcome(lambda n=n: t.has_def(n), root) for n in names}
    ob["render_unicode"] = outcome(lambda: t.render_unicode(**data), root)
    ob["render"] = outcome(lambda: t.render(**data), root)

    def rc():
        buf = util.FastEncodingBuffer()
        ctx = Context(buf, **data)
        t.render_context(ctx, **data)       # render() passes the data as keyword arguments too (**pageargs)
        return buf.getvalue()
    ob["render_context"] = outcome(rc, root)
    gd = {}
    import inspect
    for n, kw in case["defs"] + [["body", {}], ["nosuch", {}]] + [[x, {}] for x in case.get("nested", [])]:
        kws = dict(data)
        kws.update(kw)
        gd[n] = outcome(lambda n=n, kws=kws: t.get_def(n).render_unicode(**kws), root)
        if full and gd[n][0] == "ok":
            # the same def through render_context with the keyword arguments spelled out by hand: exactly the
            # data keys the signature of the def names (all of them if it has **kw)
            def explicit(n=n, kws=kws):
                d = t.get_def(n)
                ps = list(inspect.signature(d.callable_).parameters.values())[1:]
                if any(p_.kind == p_.VAR_KEYWORD for p_ in ps):
                    named = dict(kws)
                else:
                    named = {p_.name: kws[p_.name] for p_ in ps
                             if p_.kind in (p_.POSITIONAL_OR_KEYWORD, p_.KEYWORD_ONLY) and p_.name in kws}
                buf = util.FastEncodingBuffer()
                d.render_context(Context(buf, **kws), **named)
                return buf.getvalue()
            gd[n + "#explicit"] = outcome(explicit, root)
        if full:
            gd[n + "#render"] = outcome(lambda n=n, kws=kws: t.get_def(n).render(**kws), root)
            gd[n + "#source"] = outcome(lambda n=n: t.get_def(n).source == t.source and t.get_def(n).code == t.code, root)
    ob["get_def"] = gd
    return ob


def expected_render(ob_ref, opts):
    """what render() must return given render_unicode()'s outcome and the output encoding"""
    ru = ob_ref
    enc = opts.get("output_encoding")
    if ru[0] == "ok" and enc:
        try:
            return ["bytes", ru[1].encode(enc, opts.get("encoding_errors", "strict")).hex()]
        except UnicodeError as e:
            return ["exc", type(e).__name__, None]
    return ru


def same(a, b):
    if a[0] == "exc" and b[0] == "exc" and (a[2] is None or b[2] is None):
        return a[1] == b[1]
    return a == b


def compare_obs(ref, ob, path, case, loose, diffs):
    """`ob` (path `path`) against the reference observation; appends [site, path, what, ref, got]"""
    opts = case["opts"]
    text = case_text(case)
    if ob["source"] != ["ok", text]:
        diffs.append(["path-source", path, "source", ["ok", text], ob["source"]])
    if not ob["code_is_str"]:
        diffs.append(["path-code", path, "code", "a str", ob["code"]])
    else:
        ca, ma, la = norm_code(ref["code"], loose)
        cb, mb, lb = norm_code(ob["code"], loose)
        if ca != cb:
            import difflib
            d = [l for l in difflib.unified_diff(ca.split("\n"), cb.split("\n"), lineterm="", n=0)][2:12]
            diffs.append(["path-code", path, "code", None, d])
        else:
            rel = linemap_relation(la, ma, lb, mb)
            if rel:
                diffs.append(["path-code", path, "line_map", None, rel])
        want_magic = path in ("moddir", "modcall", "modcall_rel", "modtmpl_file", "reload")     # (bytes / modtmpl_bytes: text-path modules)
        if mb != want_magic:
            diffs.append(["path-code", path, "magic-comment", want_magic, mb])
    for k in ("list_defs", "has_def"):
        if ob[k] != ref[k]:
            diffs.append(["path-defs", path, k, ref[k], ob[k]])
    if not same(ob["render_unicode"], ref["render_unicode"]):
        diffs.append(["path-output", path, "render_unicode", ref["render_unicode"], ob["render_unicode"]])
    want = expected_render(ref["render_unicode"], opts)
    if not same(ob["render"], want):
        diffs.append(["path-output", path, "render", want, ob["render"]])
    if not same(ob["render_context"], ref["render_unicode"]):
        diffs.append(["path-output", path, "render_context", ref["render_unicode"], ob["render_context"]])
    for n, v in ob["get_def"].items():
        r = ref["get_def"].get(n)
        if r is None:
            continue
        if n.endswith("#render"):
            r = expected_render(ref["get_def"][n[:-7]], opts)
        if n.endswith("#explicit"):
            r = ref["get_def"][n[:-9]]
        if n.endswith("#source") and v != ["ok", True] and v[0] != "exc":
            diffs.append(["path-defs", path, "get_def(%s).source/code" % n[:-7], True, v])
        elif not same(v, r):
            diffs.append(["path-output" if "#" not in n else "path-defs", path, "get_def(%s)" % n, r, v])


def ground_truth(ob, case, text, diffs):
    """what does not need a second path: list_defs = the module-level defs/blocks the generator planted (+ body),
    has_def agrees with list_defs, get_def of a name without has_def raises, get_def(n).render(**kw) = the def called
    with the keyword arguments its signature names, the DefTemplate answers source/code like its parent"""
    planted = sorted({d for d, _ in case["defs"] if ('name="%s' % d) in text} | {"body"})
    if ob["list_defs"] != ["ok", planted]:
        diffs.append(["defs-ground-truth", "str", "list_defs", planted, ob["list_defs"]])
    for n, v in ob["has_def"].items():
        if v != ["ok", n in planted]:
            diffs.append(["defs-ground-truth", "str", "has_def(%s)" % n, n in planted, v])
    for n, v in ob["get_def"].items():
        if "#" not in n and n not in planted and v[:2] != ["exc", "AttributeError"]:
            diffs.append(["defs-ground-truth", "str", "get_def(%s) of a name that is no module-level def" % n, "AttributeError", v])
        if n.endswith("#explicit") and not same(v, ob["get_def"][n[:-9]]):
            diffs.append(["def-render-kwargs", "str", "get_def(%s).render(**kw) vs render_context(ctx, <named kw>)" % n[:-9],
                          v, ob["get_def"][n[:-9]]])
        if n.endswith("#source") and v != ["ok", True] and v[0] != "exc":
            diffs.append(["defs-ground-truth", "str", "get_def(%s).source/code" % n[:-7], True, v])
    full = ob["render_unicode"]
    for q in case.get("probes", []):
        if full[0] != "ok" or ('name="%s()"' % q) not in text:
            continue
        m = re.search("\u27e6%s:(.*?)\u27e7" % re.escape(q), full[1], re.S)
        want = ["ok", m.group(1)] if m else ["missing marker"]
        if ob["get_def"].get(q) != want:
            diffs.append(["def-render-namespaces", "str", "get_def(%s).render() vs the def called in a full render" % q,
                          want, ob["get_def"].get(q)])


def run_cli(case, main_file, tdir, root, real):
    """mako-render on the main file; returns an outcome comparable with render() of the file path"""
    argv = []
    for k, v in case["data"].items():
        argv += ["--var", "%s=%s" % (k, v)]
    argv += ["--template-dir", tdir, main_file]
    if real:
        env = dict(os.environ)
        env["PYTHONIOENCODING"] = "utf-8"
        exe = os.path.join(os.path.dirname(sys.executable), "mako-render")
        cmd = [sys.executable, exe] if os.path.exists(exe) else [sys.executable, "-m", "mako.cmd"]
        p = subprocess.run(cmd + argv, stdout=subprocess.PIPE, stderr=subprocess.PIPE, env=env, timeout=120)
        if p.returncode == 0:
            return ["ok", ADDR.sub("0xID", p.stdout.decode("utf-8"))]
        err = p.stderr.decode("utf-8", "replace").strip().split("\n")[-1]
        return ["exc", err.split(":")[0].strip(), None]
    import io
    from mako import cmd as mcmd
    so, se = sys.stdout, sys.stderr
    sys.stdout, sys.stderr = io.StringIO(), io.StringIO()
    try:
        try:
            mcmd.cmdline(argv)
            return ["ok", ADDR.sub("0xID", sys.stdout.getvalue())]
        except SystemExit:
            err = sys.stderr.getvalue().strip().split("\n")[-1]
            return ["exc", err.split(":")[0].strip(), None]
    finally:
        sys.stdout, sys.stderr = so, se


def worker_case_A(case, root):
    from mako.template import Template, ModuleTemplate
    from mako.lookup import TemplateLookup
    cdir = os.path.join(root, "c%d" % case["id"])
    tdir = os.path.join(cdir, "t")
    main_file = write_set(case, tdir)
    text = case_text(case)
    opts = dict(case["opts"])
    lkopts = {k: v for k, v in opts.items()}
    uri = case["uri"]
    res = {"id": case["id"], "diffs": [], "paths": []}
    lk0 = TemplateLookup([tdir], **lkopts)

    def build(path):
        if path == "str":
            with Recorder() as rec:
                t = Template(text, uri=uri, filename=main_file, lookup=lk0, **opts)
            res["records"] = rec.records
            return t
        if path == "str_bare":
            return Template(text, lookup=lk0, **opts)
        if path == "bytes":
            # the text handed over as the bytes of the file (BOM included, if any)
            with open(main_file, "rb") as f:
                return Template(f.read(), uri=uri, filename=main_file, lookup=lk0, **opts)
        if path == "modtmpl_bytes":
            mp = os.path.join(cdir, "mt", "modb_%d.py" % case["id"])
            os.makedirs(os.path.dirname(mp), exist_ok=True)
            with open(mp, "w", encoding="utf-8") as f:
                f.write(ref["code"])
            mod = load_pyfile("c08_mb_%d" % case["id"], mp)
            with open(main_file, "rb") as f:
                raw = f.read()
            return ModuleTemplate(mod, module_source=ref["code"], template_source=raw, template_filename=main_file,
                                  lookup=lk0, output_encoding=opts.get("output_encoding"),
                                  encoding_errors=opts.get("encoding_errors", "strict"))
        if path == "file":
            return TemplateLookup([tdir], **lkopts).get_template(uri)
        if path == "file_direct":
            return Template(filename=main_file, lookup=lk0, **opts)
        if path == "moddir":
            return TemplateLookup([tdir], module_directory=os.path.join(cdir, "m1"), **lkopts).get_template(uri)
        if path == "modcall":
            m2 = os.path.join(cdir, "m2")
            return TemplateLookup([tdir], modulename_callable=lambda fn, u: os.path.join(m2, re.sub(r"\W", "-", u) + ".mod.py"),
                                  **lkopts).get_template(uri)
        if path == "modcall_rel":
            # a modulename_callable that answers with a RELATIVE path; afterwards the process changes its working
            # directory (the template must keep answering for its module file)
            m3 = os.path.join(cdir, "m3")
            t_ = TemplateLookup([tdir], modulename_callable=lambda fn, u: os.path.relpath(os.path.join(m3, re.sub(r"\W", "+", u) + ".py")),
                                **lkopts).get_template(uri)
            other = os.path.join(cdir, "elsewhere")
            os.makedirs(other, exist_ok=True)
            os.chdir(other)
            return t_
        if path == "modtmpl_file":
            mp = os.path.join(cdir, "m1", uri.lstrip("/") + ".py")
            mod = load_pyfile("c08_mt_%d" % case["id"], mp)
            return ModuleTemplate(mod, module_filename=mp, template_filename=main_file, lookup=lk0,
                                  output_encoding=opts.get("output_encoding"),
                                  encoding_errors=opts.get("encoding_errors", "strict"))
        if path == "modtmpl_code":
            mp = os.path.join(cdir, "mt", "mod_%d.py" % case["id"])
            os.makedirs(os.path.dirname(mp), exist_ok=True)
            with open(mp, "w", encoding="utf-8") as f:
                f.write(ref["code"])
            mod = load_pyfile("c08_mc_%d" % case["id"], mp)
            return ModuleTemplate(mod, module_source=ref["code"], template_source=text, template_filename=main_file,
                                  lookup=lk0, output_encoding=opts.get("output_encoding"),
                                  encoding_errors=opts.get("encoding_errors", "strict"))
        raise KeyError(path)

    ref = None
    keep = []
    cwd0 = os.getcwd()
    for path in ("str", "str_bare", "bytes", "file", "file_direct", "moddir", "modcall", "modcall_rel", "modtmpl_file",
                 "modtmpl_code", "modtmpl_bytes"):
        os.chdir(cwd0)
        try:
            t = build(path)
        except Exception as e:       # noqa: BLE001
            ob = {"construct": ["exc", type(e).__name__, canon_msg(str(e), root)]}
            t = None
        else:
            ob = observe(t, case, root, text, full=(path in ("str", "moddir") or
                                                    (bool(case.get("file_encoding")) and path in ("bytes", "file", "modtmpl_bytes"))))
            ob["construct"] = ["ok", None]
            keep.append(t)
        res["paths"].append(path)
        if path == "str":
            ref = ob
            res["ref"] = ob
            if t is None:
                break
            ground_truth(ref, case, text, res["diffs"])
            continue
        if ref["construct"][0] != "ok":
            break
        if ob["construct"][0] != "ok":
            if path.startswith("modtmpl") and ob["construct"][1] in ("FileNotFoundError",):
                pass
            res["diffs"].append(["path-construct", path, "constructor", ref["construct"], ob["construct"]])
            continue
        compare_obs(ref, ob, path, case, path in ("str_bare", "file_direct"), res["diffs"])
    os.chdir(cwd0)
    if ref is not None and ref["construct"][0] == "ok":
        if not case["opts"] and all(isinstance(v, str) and "\n" not in v for v in case["data"].values()):
            for real in ([False, True] if case.get("cli_real") else [False]):
                got = run_cli(case, main_file, tdir, root, real)
                want = ref["render_unicode"]
                res["paths"].append("mako-render" + ("(exe)" if real else "(cmdline)"))
                if not same(got, want if want[0] != "exc" else ["exc", want[1], None]):
                    res["diffs"].append(["path-output", "mako-render" + ("(exe)" if real else ""), "stdout", want, got])
        mp = os.path.join(cdir, "m1", uri.lstrip("/") + ".py")
        res["module_file"] = file_state(mp)
    return res


def worker_case_B(case, root, resA):
    """a later process: the module directory already holds the module file"""
    from mako.lookup import TemplateLookup
    cdir = os.path.join(root, "c%d" % case["id"])
    tdir = os.path.join(cdir, "t")
    res = {"id": case["id"], "diffs": [], "paths": ["reload"]}
    ref = resA.get("ref")
    if not ref or ref["construct"][0] != "ok" or not resA.get("module_file"):
        res["paths"] = []
        return res
    mp = os.path.join(cdir, "m1", case["uri"].lstrip("/") + ".py")
    try:
        t = TemplateLookup([tdir], module_directory=os.path.join(cdir, "m1"), **case["opts"]).get_template(case["uri"])
    except Exception as e:       # noqa: BLE001
        res["diffs"].append(["path-construct", "reload", "constructor", ["ok", None], ["exc", type(e).__name__, canon_msg(str(e), root)]])
        return res
    ob = observe(t, case, root, case_text(case), full=True)
    ob["construct"] = ["ok", None]
    ref = dict(ref)
    compare_obs(ref, ob, "reload", case, False, res["diffs"])
    if file_state(mp) != resA["module_file"]:
        res["diffs"].append(["reload-rewrote-module", "reload", "module file", resA["module_file"], file_state(mp)])
    return res


MD_URIS = ["/main.html", "/inc.html", "/base.html", "/lib.html", "/sub/leaf.html"]


def md_text(d, u):
    """the text of URI `u` in directory `d` names the directory, so every observation tells which file was served"""
    if u == "/main.html":
        return ("<%%inherit file=\"/base.html\"/><%%namespace name=\"n\" file=\"/lib.html\"/>MAIN@%s|<%%include file=\"/inc.html\"/>|${n.who()}"
                "|<%%include file=\"/sub/leaf.html\"/><%%def name=\"dm()\">DEF@%s</%%def>" % (d, d))
    if u == "/base.html":
        return "BASE@%s[${self.body()}]" % d
    if u == "/lib.html":
        return "<%%def name=\"who()\">LIB@%s</%%def>" % d
    return "%s@%s" % (u.strip("/").split(".")[0].split("/")[-1].upper(), d)


def worker_mdcase(case, root):
    """a lookup over several directories with shadowed URIs: which file is served, directly and through
    include / inherit / namespace, and by mako-render with several --template-dir"""
    from mako.lookup import TemplateLookup
    base = os.path.join(root, "md%d" % case["id"])
    for d, uris in case["present"].items():
        for u in uris:
            p_ = os.path.join(base, d, u.lstrip("/"))
            os.makedirs(os.path.dirname(p_), exist_ok=True)
            with open(p_, "wb") as f:
                f.write(md_text(d, u).encode("utf-8"))
    for d in case["order"]:
        os.makedirs(os.path.join(base, d), exist_ok=True)
    cwd = os.getcwd()
    os.chdir(base)
    res = {"id": case["id"], "obs": {}}
    try:
        dirs = [sp.replace("{ABS}", base) for sp in case["dirs"]]
        kw = {"module_directory": os.path.join(base, "mods")} if case.get("module_directory") else {}
        lk = TemplateLookup(dirs, **kw)
        for u in case["uris"]:
            def one(u=u):
                t = lk.get_template(u)
                o = {"file": os.path.relpath(os.path.realpath(t.filename), os.path.realpath(base)), "source": t.source,
                     "code_tags": sorted(set(re.findall(r"@(d\d)", t.code))), "list_defs": t.list_defs(),
                     "render_unicode": outcome(lambda: t.render_unicode(), root), "render": outcome(lambda: t.render(), root)}
                if u.replace("/", "") == "main.html":
                    o["get_def"] = outcome(lambda: t.get_def("dm").render_unicode(), root)
                return o
            try:
                res["obs"][u] = one()
            except Exception as e:       # noqa: BLE001
                res["obs"][u] = {"exc": [type(e).__name__, canon_msg(str(e), root)]}
            res["obs"][u]["has_template"] = lk.has_template(u)
        if case.get("cli_input"):
            argv = []
            for d in dirs:
                argv += ["--template-dir", d]
            fake = {"data": {}}
            for real in ([False, True] if case.get("cli_real") else [False]):
                # run_cli adds its own --template-dir: give it the first configured directory again (a duplicate)
                got = run_cli_md(argv + [case["cli_input"]], real)
                res["obs"]["mako-render" + ("(exe)" if real else "")] = got
    finally:
        os.chdir(cwd)
    return res


def run_cli_md(argv, real):
    if real:
        env = dict(os.environ)
        env["PYTHONIOENCODING"] = "utf-8"
        exe = os.path.join(os.path.dirname(sys.executable), "mako-render")
        cmd = [sys.executable, exe] if os.path.exists(exe) else [sys.executable, "-m", "mako.cmd"]
        p = subprocess.run(cmd + argv, stdout=subprocess.PIPE, stderr=subprocess.PIPE, env=env, timeout=120)
        if p.returncode == 0:
            return ["ok", p.stdout.decode("utf-8")]
        return ["exc", p.stderr.decode("utf-8", "replace").strip().split("\n")[-1].split(":")[0].strip(), None]
    import io
    from mako import cmd as mcmd
    so, se = sys.stdout, sys.stderr
    sys.stdout, sys.stderr = io.StringIO(), io.StringIO()
    try:
        try:
            mcmd.cmdline(argv)
            return ["ok", sys.stdout.getvalue()]
        except SystemExit:
            return ["exc", sys.stderr.getvalue().strip().split("\n")[-1].split(":")[0].strip(), None]
    finally:
        sys.stdout, sys.stderr = so, se


# ----- in-place regeneration of a module file (module_writer variants), bytecode caching enabled

REGEN_TEXT = {"siteA": "Gr\u00fc\u00dfe from site A: ${x}\n<%def name='who()'>def of A</%def>",
              "siteB": "Gr\u00fc\u00dfe from site B: ${x}\n<%def name='who()'>def of B</%def>",
              "edit1": "edited text no. 1: ${x}|<%def name='who()'>def of 1</%def>",
              "edit2": "edited text no. 2: ${x}|<%def name='who()'>def of 2</%def>"}
WRITERS = ["default", "docs", "docs+utime", "fileobj"]


def make_writer(kind, stamp):
    if kind == "default":
        return None

    def docs_module_writer(source, outputpath):
        # the example in the documentation of Template(module_writer=…)
        (dest, name) = tempfile.mkstemp(dir=os.path.dirname(outputpath))
        os.write(dest, source)
        os.close(dest)
        shutil.move(name, outputpath)
        if kind == "docs+utime":
            os.utime(outputpath, (stamp, stamp))          # a writer that stamps its output (reproducible builds)

    def fileobj_writer(source, outputpath):
        with open(outputpath, "wb") as f:
            f.write(source)
    return fileobj_writer if kind == "fileobj" else docs_module_writer


def regen_attempt(work, kind, scenario):
    """-> None (inconclusive: the two generations differ in whole-second mtime or size) | list of problems.
    scenario 'roots': two roots, two lookups, one module directory; 'edit': one lookup, the source is edited"""
    from mako.lookup import TemplateLookup
    from mako.template import Template
    mods = os.path.join(work, "mods")
    now = time.time()
    stamp = int(now) - 500
    first, second = ("siteA", "siteB") if scenario == "roots" else ("edit1", "edit2")
    d1 = os.path.join(work, first if scenario == "roots" else "site")
    d2 = os.path.join(work, second if scenario == "roots" else "site")
    for d in {d1, d2}:
        os.makedirs(d)

    def put(d, key, age):
        fn = os.path.join(d, "index.html")
        with open(fn, "w", encoding="utf-8") as f:
            f.write(REGEN_TEXT[key])
        os.utime(fn, (now - age, now - age))
    put(d1, first, 2000)
    kw = {"module_directory": mods}
    w = make_writer(kind, stamp)
    if w is not None:
        kw["module_writer"] = w
    la = TemplateLookup([d1], **kw)
    lb = la if scenario == "edit" else TemplateLookup([d2], **kw)
    modfile = os.path.join(mods, "index.html.py")
    if kind != "docs+utime":
        while time.time() % 1.0 > 0.3:            # start early in a second so that both generations fall into it
            time.sleep(0.01)
    ta = la.get_template("/index.html")
    out_a = ta.render_unicode(x=1)
    st_a = os.stat(modfile)
    # roots: another old source file for the same URI; edit: the source is edited (strictly newer than the compile
    # stamp of the loaded template, so the lookup reloads it and mako regenerates the module file)
    put(d2, second, 1000 if scenario == "roots" else -5)
    tb = lb.get_template("/index.html")
    out_b = tb.render_unicode(x=1)
    st_b = os.stat(modfile)
    problems = []
    want_a = Template(REGEN_TEXT[first]).render_unicode(x=1)
    want_b = Template(REGEN_TEXT[second]).render_unicode(x=1)
    if out_a != want_a:
        problems.append(["first template output", want_a, out_a])
    conclusive = int(st_a.st_mtime) == int(st_b.st_mtime) and st_a.st_size == st_b.st_size
    if out_b != want_b:
        problems.append(["render_unicode() of the template whose module file was regenerated in place", want_b, out_b])
    who = outcome(lambda: tb.get_def("who").render_unicode(), work)
    if who != ["ok", "def of " + second[-1].upper()] and who != ["ok", "def of " + second[-1]]:
        problems.append(["get_def('who').render()", "def of " + second[-1], who])
    if tb.source != REGEN_TEXT[second] or second[-1] + ": ')" not in tb.code.replace('"', "'"):
        if tb.source != REGEN_TEXT[second]:
            problems.append(["source", REGEN_TEXT[second], tb.source])
    if tb.module._template_filename != os.path.join(d2, "index.html"):
        problems.append(["the module that EXECUTES was generated from", os.path.join(d2, "index.html"), tb.module._template_filename])
    tc = TemplateLookup([d2], module_directory=mods).get_template("/index.html")     # what a later lookup finds there
    if tc.render_unicode(x=1) != want_b:
        problems.append(["a later lookup over the same module directory renders", want_b, tc.render_unicode(x=1)])
    if not problems and not conclusive:
        return None
    return [[p_[0], p_[1], canon_msg(str(p_[2]), work)] for p_ in problems]


def worker_regen(root):
    """every writer x scenario; bytecode writing is on, as in a normal interpreter"""
    res = []
    old = sys.dont_write_bytecode
    sys.dont_write_bytecode = False
    try:
        n = 0
        for kind in WRITERS:
            for scenario in ("roots", "edit"):
                got, tries = None, 0
                while got is None and tries < (6 if kind == "docs+utime" else 4):
                    tries += 1
                    n += 1
                    try:
                        got = regen_attempt(os.path.join(root, "regen%d" % n), kind, scenario)
                    except Exception as e:       # noqa: BLE001
                        import traceback
                        got = [["scenario raised", "no exception", "%s: %s" % (type(e).__name__, traceback.format_exc()[-600:])]]
                res.append({"writer": kind, "scenario": scenario, "conclusive": got is not None, "tries": tries, "problems": got or []})
    finally:
        sys.dont_write_bytecode = old
    return res


def worker_main(jobfile):
    job = json.load(open(jobfile))
    sys.path.insert(0, job["repo"])
    import mako                                                   # noqa: F401
    assert os.path.realpath(os.path.dirname(os.path.dirname(mako.__file__))) == os.path.realpath(job["repo"]), mako.__file__
    import warnings
    warnings.simplefilter("ignore")
    import mako.template, mako.lookup, mako.cmd, mako.runtime, mako.exceptions, mako.cache, mako.filters  # noqa: E401,F401
    sys.dont_write_bytecode = False      # a normal interpreter caches the bytecode of the module files it imports
    out = []
    prev = {}
    if job["phase"] == "B":
        prev = {r["id"]: r for r in json.load(open(job["prev"]))["results"]}
    for case in job["cases"]:
        try:
            if job["phase"] == "A":
                r = worker_case_A(case, job["root"])
            else:
                r = worker_case_B(case, job["root"], prev.get(case["id"], {}))
        except Exception:       # noqa: BLE001
            import traceback
            r = {"id": case["id"], "crash": traceback.format_exc()[-3000:], "diffs": [], "paths": []}
        if job["phase"] == "A" and not job.get("keep_ref_code", True) and "ref" in r:
            pass
        out.append(r)
    md = []
    if job["phase"] == "A":
        for case in job.get("mdcases") or []:
            try:
                md.append(worker_mdcase(case, job["root"]))
            except Exception:       # noqa: BLE001
                import traceback
                md.append({"id": case["id"], "crash": traceback.format_exc()[-3000:], "obs": {}})
    regen = worker_regen(job["root"]) if job["phase"] == "A" and job.get("regen") else []
    with open(job["out"], "w") as f:
        json.dump({"seed": job["seed"], "hashseed_env": os.environ.get("PYTHONHASHSEED"), "results": out, "md": md,
                   "regen": regen}, f)


if __name__ == "__main__" and len(sys.argv) == 3 and sys.argv[1] == "--worker":
    worker_main(sys.argv[2])
    sys.exit(0)


# =========================================================================================== main process: differential

from harness.common import enc, dec  # noqa: E402


def L(xs):
    xs = list(xs)
    return "[]" if not xs else "/".join(enc(x) for x in xs)


def unL(f):
    return [] if f == "[]" else [dec(x) for x in f.split("/")]


def spawn(phase, seed, cases, root, prev=None, mdcases=None, regen=False):
    os.makedirs(root, exist_ok=True)
    jobfile = os.path.join(root, "job%s.json" % phase)
    out = os.path.join(root, "out%s.json" % phase)
    job = {"phase": phase, "root": root, "cases": cases, "repo": REPO, "seed": seed, "out": out, "prev": prev,
           "mdcases": mdcases or [], "regen": regen}
    with open(jobfile, "w") as f:
        json.dump(job, f)
    env = dict(os.environ)
    env["PYTHONHASHSEED"] = str(seed)
    env["PYTHONPATH"] = REPO + os.pathsep + VERIF
    p = subprocess.Popen([sys.executable, os.path.abspath(__file__), "--worker", jobfile], env=env,
                         stdout=subprocess.PIPE, stderr=subprocess.PIPE)
    return p, out


MD_OUT = {}      # seed -> multi-directory observations of the last run_seeds(…, mdcases=…) call


REGEN_OUT = {}   # seed -> in-place regeneration scenarios of the last run_seeds(…, regen=True) call


def run_seeds(cases, seeds, base, tag="r", phase_b=True, mdcases=None, regen=False):
    """phase A for all seeds in parallel, then phase B (fresh processes).  -> {seed: (resultsA, resultsB)}"""
    procs = {}
    for s in seeds:
        procs[s] = spawn("A", s, cases, os.path.join(base, "%s_seed_%s" % (tag, s)), mdcases=mdcases, regen=regen)
    outA = {}
    for s, (p, out) in procs.items():
        _, err = p.communicate(timeout=3000)
        if p.returncode != 0:
            raise RuntimeError("worker A seed %s failed: %s" % (s, err.decode()[-2000:]))
        outA[s] = out
        if mdcases:
            MD_OUT[s] = json.load(open(out)).get("md", [])
        if regen:
            REGEN_OUT[s] = json.load(open(out)).get("regen", [])
    if not phase_b:
        return {s: (json.load(open(outA[s]))["results"], [{"id": c["id"], "diffs": [], "paths": []} for c in cases])
                for s in seeds}
    procs = {}
    for s in seeds:
        procs[s] = spawn("B", s, cases, os.path.join(base, "%s_seed_%s" % (tag, s)), prev=outA[s])
    res = {}
    for s, (p, out) in procs.items():
        _, err = p.communicate(timeout=3000)
        if p.returncode != 0:
            raise RuntimeError("worker B seed %s failed: %s" % (s, err.decode()[-2000:]))
        res[s] = (json.load(open(outA[s]))["results"], json.load(open(out))["results"])
    return res


CROSS_KEYS = ("construct", "source", "list_defs", "has_def", "render_unicode", "render", "render_context", "get_def")


def cross_seed_diffs(ra, rb):
    """reference observations of one case under two hash seeds"""
    diffs = []
    a, b = ra.get("ref"), rb.get("ref")
    if a is None or b is None:
        return diffs
    for k in CROSS_KEYS:
        va, vb = a.get(k), b.get(k)
        if k == "get_def" and va and vb:
            for n in va:
                if va[n] != vb.get(n):
                    diffs.append(["hashseed-output", "get_def(%s)" % n, va[n], vb.get(n)])
        elif va != vb:
            diffs.append(["hashseed-output" if k.startswith("render") or k == "construct" else "hashseed-" + k, k, va, vb])
    if a.get("code_is_str") and b.get("code_is_str"):
        # since 8e8e5a7 the generated module is a function of the template: identical text under every hash seed
        # (loose: the scratch directory, hence _template_filename, differs per seed)
        ca = norm_code(a["code"], loose=True)[0].split("\n")
        cb = norm_code(b["code"], loose=True)[0].split("\n")
        if ca != cb:
            only_a = [l for l, m in zip(ca, cb) if l != m][:4]
            only_b = [m for l, m in zip(ca, cb) if l != m][:4]
            site = "hashseed-code-differs" if sorted(ca) == sorted(cb) or len(ca) == len(cb) else "hashseed-code-not-a-line-permutation"
            diffs.append([site, "code", only_a, only_b])
    return diffs


def classify(case, site, what, va, vb):
    """stable site name for a violation (the names of known_findings.json)"""
    text = case_text(case)
    if site == "hashseed-output":
        ea = va if isinstance(va, list) else []
        eb = vb if isinstance(vb, list) else []
        if ea[:2] == ["exc", "NameError"] and eb[:2] == ["exc", "NameError"] and case["opts"].get("strict_undefined"):
            return "hashseed-strict-undefined-first-missing-name"
        if len(ea) > 1 and len(eb) > 1 and ea[1] == eb[1] == "NameConflictError":
            return "hashseed-reserved-names-message-order"
        if "context.keys()" in text:
            return "hashseed-context-keys-order"
    return site


def case_fails(case, seeds, base, want_site, tag):
    """does `case` still show a violation of the given site? (used by the shrinker)"""
    res = run_seeds([case], seeds, base, tag, phase_b=want_site.startswith("reload") or want_site.startswith("path"))
    # (sites found inside one worker: path-*, reload-*, defs-ground-truth, def-render-kwargs)
    for s in seeds:
        for r in res[s]:
            for d in r[0]["diffs"]:
                if d[0] == want_site:
                    return True
    if len(seeds) > 1:
        s0 = seeds[0]
        for s in seeds[1:]:
            for d in cross_seed_diffs(res[s0][0][0], res[s][0][0]):
                if classify(case, d[0], d[1], d[2], d[3]) == want_site:
                    return True
    return False


def shrink_case(ctx, case, seeds, base, site, budget):
    """ddmin over the top-level items, then drop options / data / aux files one at a time"""
    from harness.common import ddmin
    n = [0]

    def fails_items(items):
        if n[0] >= budget or not items:
            return False
        n[0] += 1
        c = dict(case, items=list(items))
        try:
            return case_fails(c, seeds, base, site, "s%d" % n[0])
        except Exception:       # noqa: BLE001
            return False
    items = ddmin(case["items"], fails_items, max_tests=budget)
    cur = dict(case, items=items)
    for key in ("opts", "data"):
        for k in sorted(cur[key]):
            if n[0] >= budget:
                break
            if k == "input_encoding":
                continue                      # it says how the bytes on disk are to be read: part of the input
            n[0] += 1
            c = dict(cur)
            c[key] = {a: b for a, b in cur[key].items() if a != k}
            try:
                if case_fails(c, seeds, base, site, "s%d" % n[0]):
                    cur = c
            except Exception:       # noqa: BLE001
                pass
    text = case_text(cur)
    cur["aux"] = {u: t for u, t in cur["aux"].items() if u in text}
    cur["defs"] = [d for d in cur["defs"] if d[0] in text]
    cur["nested"] = [d for d in cur.get("nested", []) if d in text]
    return cur


def public_case(case, extra=None):
    c = {"input": case_text(case), "uri": case["uri"], "data": case["data"], "opts": case["opts"], "aux": case["aux"],
         "defs": case["defs"], "nested": case.get("nested", []), "probes": case.get("probes", []), "items": case["items"],
         "file_encoding": case.get("file_encoding", "utf-8"), "bom": bool(case.get("bom"))}
    if extra:
        c.update(extra)
    return c


DECL_RES = [
    ("n", re.compile(r"^(\w+) = _mako_get_namespace\(context, '(\w+)'\)$")),
    ("g", re.compile(r"^(\w+) = context\.get\('(\w+)', UNDEFINED\)$")),
    ("i", re.compile(r"^(\w+) = _import_ns\.get\('(\w+)', context\.get\('(\w+)', UNDEFINED\)\)$")),
]
STRICT = ["try:", "{x} = context['{x}']", "except KeyError:", "raise NameError(\"'{x}' is not defined\")", None]
STRICT_IMP = ["{x} = _import_ns.get('{x}', UNDEFINED)", "if {x} is UNDEFINED:"] + STRICT + [None]


def parse_record(rec):
    """items recorded during one write_variable_declares call -> (prelude flags, [kind:name …]) or None"""
    items = rec["items"]
    i = 0
    has_loop = False
    import_prelude = False
    decls = []

    def lines_at(j, pattern, x):
        for k, pat in enumerate(pattern):
            if j + k >= len(items) or items[j + k][0] != "line":
                return False
            want = None if pat is None else pat.replace("{x}", x)
            if items[j + k][1] != want:
                return False
        return True
    n = len(items)
    if n == 0 or items[-1] != ["line", "__M_writer = context.writer()"]:
        return None
    n -= 1
    if i < n and items[i] == ["line", "_import_ns = {}"]:
        import_prelude = True
        i += 1
        while i < n and items[i][0] == "line" and isinstance(items[i][1], str) and "._populate(_import_ns, " in items[i][1]:
            i += 1
    if i < n and items[i] == ["line", "loop = __M_loop = runtime.LoopStack()"]:
        has_loop = True
        i += 1
    while i < n:
        kind, val = items[i]
        if kind == "def":
            decls.append("d:" + val)
            i += 1
            continue
        if not isinstance(val, str):
            return None
        hit = False
        for k, rx in DECL_RES:
            m = rx.match(val)
            if m and len(set(m.groups())) == 1:
                decls.append(k + ":" + m.group(1))
                i += 1
                hit = True
                break
        if hit:
            continue
        if val == "try:" and i + 1 < n and isinstance(items[i + 1][1], str):
            m = re.match(r"^(\w+) = context\['(\w+)'\]$", items[i + 1][1])
            if m and lines_at(i, STRICT, m.group(1)):
                decls.append("s:" + m.group(1))
                i += len(STRICT)
                continue
        m = re.match(r"^(\w+) = _import_ns\.get\('(\w+)', UNDEFINED\)$", val)
        if m and lines_at(i, STRICT_IMP, m.group(1)):
            decls.append("j:" + m.group(1))
            i += len(STRICT_IMP)
            continue
        return None
    return {"has_loop": has_loop, "import_prelude": import_prelude, "decls": decls}


def decl_enc(ds):
    return "[]" if not ds else "/".join(d[0] + ":" + enc(d[2:]) for d in ds)


def oracle_differential(ctx, base):
    """the multi-path x multi-seed differential (oracle) + the per-seed declaration-order tie (corr)"""
    quick = ctx.quick
    ncases = 110 if quick else 1400
    seeds = ["0", "1", "2", str(ctx.rng.randrange(3, 4294967295))]
    cases = [gen_case(ctx.rng, i) for i in range(ncases)]
    cases += [gen_enc_case(ctx.rng, len(cases) + i) for i in range(40 if quick else 500)]
    # a few fixed shapes that must always be present (each is also produced by the generator)
    fixed = [
        {"items": ["<%page args=\"p1='P1', p2='P2', p3='P3', p4='P4'\"/>",
                   "<%def name=\"k1()\">{${','.join(k for k in context.keys() if k[:1] in 'vpxy' and k != 'pageargs')}}</%def>${k1()}"],
         "opts": {}, "data": {"v1": "one"}, "defs": [["k1", {}]]},
        {"items": ["${m1x}${m2x}${m3x}${m4x}"], "opts": {"strict_undefined": True}, "data": {}, "defs": []},
        {"items": ["<%\n a1 = 1; b1 = 2; c1 = 3; d1 = 4\n%>",
                   "<%def name=\"k1()\">{${','.join(k for k in context.keys() if k[-1:] == '1' and len(k) == 2)}}</%def>${k1()}"],
         "opts": {}, "data": {}, "defs": [["k1", {}]]},
        {"items": ["<% loop = 1; UNDEFINED = 2; STOP_RENDERING = 3 %>x"], "opts": {}, "data": {}, "defs": []},
        {"items": ["plain"], "opts": {}, "data": {"loop": "1", "UNDEFINED": "2", "STOP_RENDERING": "3"}, "defs": []},
        {"items": ["héllo ${v1}\n", "<%def name=\"d1(a, b='B')\" buffered=\"True\">  [${a}|${b}]  </%def>${d1(1)}"],
         "opts": {"buffer_filters": ["trim"]}, "data": {"v1": "é"}, "defs": [["d1", {"a": "A", "b": "BB"}]]},
    ]
    fixed += [
        {"items": ["<%inherit file=\"/base.html\"/>",
                   "<%def name=\"q1()\">[${local.uri == self.uri}|${parent.uri}|${next is UNDEFINED}]</%def>\u27e6q1:${q1()}\u27e7"],
         "aux": {"/base.html": "BASE[${self.body()}|${next.body()}]"}, "opts": {}, "data": {}, "defs": [["q1", {}]], "probes": ["q1"]},
        {"items": ["<%namespace name=\"na\" file=\"/libA.html\" import=\"sh\"/><%namespace name=\"nb\" file=\"/libB.html\" import=\"sh\"/>"
                   "<%namespace name=\"nc\" file=\"/libC.html\" import=\"sh\"/><%namespace name=\"nd\" file=\"/libD.html\" import=\"sh\"/>${sh()}"],
         "aux": {"/lib%s.html" % x: "<%%def name=\"sh()\">SH-%s</%%def>" % x for x in "ABCD"}, "opts": {}, "data": {}, "defs": []},
    ]
    for f in fixed:
        c = {"id": len(cases), "aux": {}, "uri": "/main.html", "flags": ["fixed"], "nested": [], "probes": []}
        c.update(f)
        cases.append(c)
    for c in cases[:: (8 if quick else 40)]:
        c["cli_real"] = True
    st = ctx.stream("oracle.paths", "oracle")
    st2 = ctx.stream("oracle.hashseeds", "oracle")
    t0 = time.time()
    mdcases = [gen_mdcase(ctx.rng, i) for i in range(30 if quick else 300)]
    for c in mdcases[:: (6 if quick else 30)]:
        c["cli_real"] = True
    res = run_seeds(cases, seeds, base, mdcases=mdcases, regen=True)
    oracle_regen(ctx, seeds)
    try:
        oracle_multidir(ctx, mdcases, MD_OUT, seeds)
    except Exception as e:        # noqa: BLE001
        import traceback
        ctx.broke("oracle.directories:harness-exception", traceback.format_exc())
    ctx.log("differential: %d template sets x %d seeds x 2 phases in %.1fs" % (len(cases), len(seeds), time.time() - t0))
    by_id = {c["id"]: c for c in cases}
    found = {}        # site -> (case, detail, seeds)
    npaths = 0
    for s in seeds:
        ra, rb = res[s]
        for r, r2 in zip(ra, rb):
            case = by_id[r["id"]]
            if "crash" in r or "crash" in r2:
                ctx.broke("worker-crash", r.get("crash") or r2.get("crash"))
                continue
            npaths += len(r["paths"]) + len(r2["paths"])
            st["cases"] += len(r["paths"]) + len(r2["paths"])
            for p_ in r["paths"] + r2["paths"]:
                ctx.branch("path:" + p_)
            for d in r["diffs"] + r2["diffs"]:
                site = d[0]
                key = (site, d[1])
                if key not in found or len(case_text(case)) < len(case_text(found[key][0])):
                    found[key] = (case, {"path": d[1], "what": d[2], "expected": d[3], "got": d[4], "hashseed": s}, [s])
    s0 = seeds[0]
    for s in seeds[1:]:
        for ra, rb in zip(res[s0][0], res[s][0]):
            case = by_id[ra["id"]]
            st2["cases"] += 1
            for d in cross_seed_diffs(ra, rb):
                site = classify(case, d[0], d[1], d[2], d[3])
                key = (site, "")
                if key not in found or len(case_text(case)) < len(case_text(found[key][0])):
                    found[key] = (case, {"what": d[1], "hashseed_a": s0, "a": d[2], "hashseed_b": s, "b": d[3]}, [s0, s])
    # coverage
    for c in cases:
        for f in c.get("flags", []):
            ctx.branch("construct:" + f)
        for k in c["opts"]:
            ctx.branch("option:" + k)
        ctx.branch("uri:" + c["uri"])
        ref = None
        for r in res[s0][0]:
            if r["id"] == c["id"]:
                ref = r.get("ref")
        if ref:
            out = ref.get("render_unicode", ["?"])
            ctx.branch("outcome:" + (out[0] if out[0] != "exc" else "exc:" + out[1]))
            if any(ord(ch) > 127 for ch in case_text(c)) or len([r_ for r_ in res[s0][0] if r_["id"] == c["id"]][0].get("records", [{}])[0].get("undeclared", [])) >= 2:
                ctx.nontriv(case_text(c))
    ctx.sample({"stream": "oracle.paths", "template": case_text(cases[0])[:200], "paths": res[s0][0][0]["paths"] + res[s0][1][0]["paths"],
                "hashseeds": seeds})
    # violations: shrink the smallest witness of each site
    budget = 14 if quick else 40
    for (site, path), (case, detail, ss) in sorted(found.items(), key=lambda kv: kv[0]):
        try:
            small = shrink_case(ctx, case, ss if len(ss) > 1 else ss, base, site, budget)
        except Exception:        # noqa: BLE001
            small = case
        ctx.violation(site, public_case(small, {"hashseeds": ss}), detail, "oracle.hashseeds" if site.startswith("hashseed") else "oracle.paths")
    # ---- corr: declaration blocks per seed against the Lean model
    corr_decl_blocks(ctx, cases, res, seeds)


def corr_decl_blocks(ctx, cases, res, seeds):
    drv = ctx.driver()
    st = ctx.stream("corr.decl_block")
    st_perm = ctx.stream("corr.decl_perm")
    st_exec = ctx.stream("corr.decl_exec")
    reqs, meta = [], []
    parsed = {}
    for s in seeds:
        for r in res[s][0]:
            recs = r.get("records") or []
            for j, rec in enumerate(recs):
                pr = parse_record(rec)
                parsed[(s, r["id"], j)] = (rec, pr)
                if pr is None:
                    ctx.disagree("corr.decl_block", {"input": rec["items"][:12], "case": r["id"], "hashseed": s},
                                 "a declaration block of the modelled statement shapes", "unparsable lines")
                    st["cases"] += 1
                    continue
                order = [d[2:] for d in pr["decls"]]
                reqs.append("p8 decls %d %d %d %s %s %s %s %s %s %s %s" % (
                    rec["enable_loop"], rec["strict"], rec["has_ns_imports"], L(rec["undeclared"]), L(rec["closuredefs"]),
                    L(rec["argument_declared"]), L(rec["locally_declared"]), L(rec["defs"]), L(rec["namespaces"]),
                    "none" if rec["limit"] is None else L(rec["limit"]), L(order)))
                meta.append((s, r["id"], j, rec, pr))
    outs = drv.ask_many(reqs)
    orders = {}
    for (s, cid, j, rec, pr), o in zip(meta, outs):
        st["cases"] += 1
        want = "ok %d %s" % (pr["has_loop"], decl_enc(pr["decls"]))
        if o != want:
            ctx.disagree("corr.decl_block", {"case": cid, "record": j, "hashseed": s, "input": pr["decls"],
                                             "sets": {k: rec[k] for k in ("undeclared", "closuredefs", "argument_declared", "locally_declared", "limit")}},
                         o, want)
        for d in pr["decls"]:
            ctx.branch("decl:" + d[0])
        if (rec["has_ns_imports"] and rec["toplevel"]) != pr["import_prelude"]:
            ctx.disagree("corr.decl_block", {"case": cid, "record": j, "what": "_import_ns prelude"}, rec["has_ns_imports"], pr["import_prelude"])
        orders.setdefault((cid, j), {})[s] = pr["decls"]
    # blocks of different seeds: identical (the generator sorts), a fortiori permutations with distinct targets
    reqs, meta = [], []
    distinct = 0
    for (cid, j), d in orders.items():
        ss = [s for s in seeds if s in d]
        if len({tuple(d[s]) for s in ss}) > 1:
            distinct += 1
        for s in ss[1:]:
            reqs.append("p8 perm %s %s" % (decl_enc(d[ss[0]]), decl_enc(d[s])))
            meta.append((cid, j, ss[0], s, d[ss[0]], d[s]))
    for (cid, j, sa, sb, da, db), o in zip(meta, drv.ask_many(reqs)):
        st_perm["cases"] += 1
        if o != "1" or da != db:
            ctx.disagree("corr.decl_perm", {"case": cid, "record": j, "input": [da, db], "hashseeds": [sa, sb]},
                         "identical blocks (model: emittedBlock is a function of the set)", "perm=%s, equal=%s" % (o, da == db))
    ctx.branch("decl_blocks_with_seed_dependent_order", distinct)
    ctx.branch("decl_blocks_total", len(orders))
    # strict templates: the NameError raised is the first missing name of the emitted order
    import builtins as B
    by_id = {c["id"]: c for c in cases}
    reqs, meta = [], []
    for s in seeds:
        for r in res[s][0]:
            case = by_id[r["id"]]
            if not case["opts"].get("strict_undefined") or case["aux"] or not r.get("records"):
                continue
            j0 = next((j for j, rc in enumerate(r["records"]) if rc["toplevel"] and rc["limit"] is None), None)
            rec, pr = parsed.get((s, r["id"], j0), (None, None))
            if pr is None:
                continue
            names = [d[2:] for d in pr["decls"]]
            ctxkeys = sorted(set(case["data"]) | {"capture", "caller", "self", "local"})
            bi = [n for n in names if hasattr(B, n) and n not in ctxkeys]
            reqs.append("p8 exec 0 1 %s %s [] [] %s" % (L(ctxkeys), L(bi), decl_enc(pr["decls"])))
            meta.append((s, r["id"], r["ref"].get("render_unicode"), names))
    for (s, cid, real, names), o in zip(meta, drv.ask_many(reqs)):
        st_exec["cases"] += 1
        if o.startswith("err name "):
            want = ["exc", "NameError", "'%s' is not defined" % dec(o.split()[2])]
            ctx.branch("decl_exec:NameError")
            if real != want:
                ctx.disagree("corr.decl_exec", {"case": cid, "hashseed": s, "input": case_text(by_id[cid])}, want, real)
        else:
            ctx.branch("decl_exec:ok")
            if real and real[0] == "exc" and real[1] == "NameError" and any(real[2] == "'%s' is not defined" % n for n in names):
                ctx.disagree("corr.decl_exec", {"case": cid, "hashseed": s, "input": case_text(by_id[cid])}, o, real)


# =========================================================================================== corr: op-level ties

def rand_uri(rng):
    alpha = "ab_-./ \\~%+é世\u00a0\u0301٣ⅷ_09Zz"
    n = rng.randint(0, 12)
    return "".join(rng.choice(alpha) if rng.random() < 0.9 else chr(rng.choice([0, 10, 0x2028, 0x1F600, 0xE000, 0x10FFFF, 0xAA, 0xB2, 0x5F]))
                   for _ in range(n))


def corr_module_id(ctx):
    drv = ctx.driver()
    st = ctx.stream("corr.module_id_codepoints", exhaustive=True)
    cps = [c for c in range(0x110000) if not 0xD800 <= c <= 0xDFFF]
    chunks = ["".join(map(chr, cps[i:i + 512])) for i in range(0, len(cps), 512)]
    if ctx.quick:
        # every chunk below U+3000 plus a seeded third of the rest (the table is also re-proved sorted by the kernel)
        chunks = [c for i, c in enumerate(chunks) if i < 24 or ctx.rng.random() < 0.34]
        st["exhaustive"] = False
    outs = drv.ask_many("p8 modid " + enc(c) for c in chunks)
    for c, o in zip(chunks, outs):
        st["cases"] += len(c)
        want = re.sub(r"\W", "_", c)
        if o != enc(want):
            bad = [ch for ch, a, b in zip(c, dec(o), want) if a != b][:3]
            ctx.disagree("corr.module_id_codepoints", {"input": bad}, "model", "re.sub")
    # through the real constructors
    import mako.template as T
    from mako import exceptions as X
    st = ctx.stream("corr.path_select")
    orig_ct, orig_cf = T._compile_text, T.Template._compile_from_file
    rec = []

    class M:
        render_body = staticmethod(lambda *a, **k: "")
        __name__ = "m"

    def fake_ct(template, text, filename):
        rec.append(("text",))
        return "code", M

    def fake_cf(self_, path, filename):
        rec.append(("filemod", path) if path is not None else ("filemem",))
        return M
    orig_mi = T.ModuleInfo
    T._compile_text, T.Template._compile_from_file = fake_ct, fake_cf
    T.ModuleInfo = lambda *a, **k: None
    try:
        n = 6000 if ctx.quick else 120000
        reqs, cases = [], []
        for _ in range(n):
            def opt(p_none, gen):
                return None if ctx.rng.random() < p_none else gen()
            a = {"text": opt(0.5, lambda: ctx.rng.choice(["", "x"])),
                 "filename": opt(0.4, lambda: ctx.rng.choice(["", "/d/" + rand_uri(ctx.rng), rand_uri(ctx.rng), "/d/../e//t.html", "../up.html"])),
                 "uri": opt(0.4, lambda: ctx.rng.choice(["", rand_uri(ctx.rng), "/" + rand_uri(ctx.rng), "/a/../../x", "..\\x", "/a-b.html"])),
                 "module_directory": opt(0.6, lambda: ctx.rng.choice(["/m", "m/./x/", "", "/m//"])),
                 "module_filename": opt(0.8, lambda: ctx.rng.choice(["/mf/x.py", "", "rel.py", "mods/./t.py", "../up/x.py", "/mf//./x.py"]))}
            if any(v is not None and "\0" in v for v in a.values()):
                continue
            cases.append(a)
            reqs.append("p8 select %s %s %s %s %s %s %s" % tuple(
                ["none" if a[k] is None else enc(a[k]) for k in ("text", "filename", "uri", "module_directory", "module_filename")]
                + [enc("0xMEM"), enc(os.getcwd())]))
        outs = drv.ask_many(reqs)
        cwd = os.getcwd()
        import posixpath
        for a, o in zip(cases, outs):
            st["cases"] += 1
            del rec[:]
            try:
                t = T.Template(**a)
                got = [re.sub(r"0x[0-9a-f]+", "0xMEM", x) for x in [t.module_id, t.uri] + list(rec[0])]
            except X.TemplateLookupException:
                got = [None, None, "rejected"]
            except X.RuntimeException:
                got = [None, None, "nosource"]
            f = o.split(" ")
            model = [dec(f[0]), dec(f[1]), f[2]] + ([dec(f[3])] if len(f) > 3 else [])
            ctx.branch("select:" + model[2])
            if model[2] in ("rejected", "nosource"):
                model[0] = model[1] = None
            if model != got:
                ctx.disagree("corr.path_select", {"input": a}, model, got)
    finally:
        T._compile_text, T.Template._compile_from_file, T.ModuleInfo = orig_ct, orig_cf, orig_mi
    ctx.sample({"stream": "corr.path_select", "args": cases[0], "model=impl": outs[0]})


def corr_kwargs(ctx):
    from mako import runtime
    drv = ctx.driver()
    st = ctx.stream("corr.kwargs_for_callable")
    names = ["a", "b", "c", "d", "context", "kw", "rest", "é"]
    reqs, meta = [], []
    n = 4000 if ctx.quick else 60000
    for _ in range(n):
        r = ctx.rng
        pool = [x for x in names if x != "context"]
        r.shuffle(pool)
        k = r.randint(0, 3)
        args = (["context"] if r.random() < 0.9 else []) + pool[:k]
        rest = pool[k:]
        va = rest.pop() if r.random() < 0.3 else None
        ko = [rest.pop() for _ in range(r.randint(0, 2))] if r.random() < 0.3 and rest else []
        vk = rest.pop() if r.random() < 0.35 and rest else None
        sig = ", ".join(args + (["*" + va] if va else (["*"] if ko else [])) + [x + "=0" for x in ko] + (["**" + vk] if vk else []))
        ns = {}
        exec("def f(%s): pass" % sig, ns)
        data = {x: x for x in r.sample(names, r.randint(0, len(names)))}
        reqs.append("p8 kwargs %s %s %s %s %s" % (L(args), enc(va) if va else "none", enc(vk) if vk else "none", L(ko), L(data)))
        meta.append((sig, data, ns["f"]))
    for (sig, data, f), o in zip(meta, drv.ask_many(reqs)):
        st["cases"] += 1
        got = list(runtime._kwargs_for_callable(f, data))
        ctx.branch("kwargs:" + ("varkw" if "**" in sig else "named"))
        if unL(o) != got:
            ctx.disagree("corr.kwargs_for_callable", {"input": sig, "data": sorted(data)}, unL(o), got)
        if "**" not in sig and got:
            ctx.nontriv((sig, tuple(data)))


def corr_registry(ctx):
    """random register / collect / read scripts on the real ModuleInfo registry vs the model"""
    import gc
    from mako.template import Template
    drv = ctx.driver()
    st = ctx.stream("corr.registry")
    n = 300 if ctx.quick else 4000
    uris = ["/a-b.html", "/a_b.html", "/a.b.html", "/a/b.html", "/x.html", "/x_html", "_x_html", "/é.html", "/e\u0301.html"]
    reqs, meta = [], []
    for _ in range(n):
        ops, live, script = [], {}, []
        nid = 0
        for _ in range(ctx.rng.randint(2, 9)):
            r = ctx.rng.random()
            if r < 0.5 or not live:
                nid += 1
                u = ctx.rng.choice(uris)
                script.append(("r", nid, u))
                live[nid] = u
                ops.append("r:%d:%s:none" % (nid, enc(re.sub(r"\W", "_", u))))
            elif r < 0.7:
                i = ctx.rng.choice(sorted(live))
                script.append(("c", i))
                del live[i]
                ops.append("c:%d" % i)
            else:
                i = ctx.rng.choice(sorted(live))
                script.append(("q", i))
                ops.append("q:%d" % i)
        for i in sorted(live):
            script.append(("q", i))
            ops.append("q:%d" % i)
        reqs.append("p8 registry " + " ".join(ops))
        meta.append(script)
    outs = drv.ask_many(reqs)
    for script, o in zip(meta, outs):
        st["cases"] += 1
        objs, got = {}, []
        for op in script:
            if op[0] == "r":
                objs[op[1]] = Template("T%d" % op[1], uri=op[2])
            elif op[0] == "c":
                del objs[op[1]]
                gc.collect()
            else:
                try:
                    got.append(objs[op[1]].source[1:])
                except KeyError:
                    got.append("none")
        objs.clear()
        gc.collect()
        want = [] if o == "-" else o.split(" ")
        ctx.branch("registry:" + ("collision" if any(g != str(op[1]) for g, op in zip(got, [x for x in script if x[0] == "q"])) else "own"))
        if got != want:
            ctx.disagree("corr.registry", {"input": script}, want, got)


def corr_defs_header(ctx):
    from mako.template import Template
    drv = ctx.driver()
    st = ctx.stream("corr.list_defs_has_def")
    srcs = ["<%def name='f()'>x</%def><%def name='a()'>y</%def>", "<%block name='b'>x</%block>", "plain",
            "<%! render_zz = 1\nrender_ = 2 %><%def name='Z()'><%def name='inner()'></%def></%def>",
            "<%def name='é()'>x</%def><%def name='_p()'></%def>"]
    for src in srcs:
        t = Template(src)
        attrs = dir(t.module)
        o = drv.ask("p8 listdefs " + L(attrs))
        st["cases"] += 1
        if unL(o) != t.list_defs():
            ctx.disagree("corr.list_defs_has_def", {"input": src}, unL(o), t.list_defs())
        for n in t.list_defs() + ["inner", "nosuch", "", "body"]:
            st["cases"] += 1
            o = drv.ask("p8 hasdef %s %s" % (L(attrs), enc(n)))
            if (o == "1") != t.has_def(n):
                ctx.disagree("corr.list_defs_has_def", {"input": src, "name": n}, o, t.has_def(n))
    # the preamble: which writeline formats, in which order, on the text path and on the module-file path
    st = ctx.stream("corr.preamble")
    import mako.codegen as CG
    from mako.lexer import Lexer
    for encd in ("utf-8", None):
        for fut in (0, 1):
            for nimp in (0, 2):
                for magic in (0, 1):
                    node = Lexer("hello").parse()
                    code = CG.compile(node, "/u", None, default_filters=["str"], buffer_filters=[], imports=["import os", "import sys"][:nimp],
                                      future_imports=["division"][:fut], source_encoding=encd, generate_magic_comment=bool(magic))
                    head = code.split("\n\n\n")[0].split("\n")
                    fm = [dec(x) for x in drv.ask("p8 header %s %d %d %d" % (enc(encd) if encd else "none", fut, nimp, magic)).split("/")]
                    st["cases"] += 1
                    ok = len(head) == len(fm)
                    for line, f in zip(head, fm):
                        if f == "<imp>":
                            ok = ok and line.startswith("import ")
                        else:
                            rx = "^" + re.escape(f).replace("%s", ".*").replace("%r", ".*").replace("%a", ".*") + "$"
                            ok = ok and re.match(rx, line) is not None
                    if not ok:
                        ctx.disagree("corr.preamble", {"encoding": encd, "future": fut, "imports": nimp, "magic": magic}, fm, head)
    for kind, want in (("text", False), ("filemem", False), ("filemod", True)):
        st["cases"] += 1
        if drv.ask("p8 magic " + kind) != ("1" if want else "0"):
            ctx.disagree("corr.preamble", {"path": kind}, "model", want)
    # Context._locals: key order of the context a top-level def receives
    from mako.runtime import Context
    st = ctx.stream("corr.context_locals")
    reqs, meta = [], []
    for _ in range(300 if ctx.quick else 5000):
        keys = ["a", "b", "c", "d", "e"]
        data = ctx.rng.sample(keys, ctx.rng.randint(0, 4))
        snap = ctx.rng.sample(keys, ctx.rng.randint(0, 5))
        c = Context(None, **{k: 0 for k in data})
        base = [k for k in c._data]
        got = list(c._locals({k: 1 for k in snap})._data)
        reqs.append("p8 locals %s %s" % (L(base), L(snap)))
        meta.append((base, snap, got))
    for (base, snap, got), o in zip(meta, drv.ask_many(reqs)):
        st["cases"] += 1
        if unL(o) != got:
            ctx.disagree("corr.context_locals", {"data": base, "snapshot": snap}, unL(o), got)


# =========================================================================================== oracle: one lookup, many URIs

SPELLINGS = ["/p.html", "p.html", "//p.html", "/./p.html", "/sub/../p.html", "/sub/./../p.html", "\\p.html"]
NONWORD = ["-", "_", ".", " ", "~", "+", "/", "é", "·", "__"]


def lookup_configs(base):
    yield "plain", {}
    yield "module_directory", {"module_directory": os.path.join(base, "mods")}
    yield "modulename_callable", {"modulename_callable": lambda fn, uri: os.path.join(base, "mc", uri.replace("/", "!") + ".py")}


def check_own(lk, uris, texts):
    """load all URIs into ONE lookup, then ask every live template for its own source / code / output.
    -> list of (uri, what, expected, got)"""
    ts = {}
    bad = []
    for u in uris:
        ts[u] = lk.get_template(u)
    for u in uris:
        t = ts[u]
        want = texts[u]
        try:
            src = t.source
        except Exception as e:        # noqa: BLE001
            src = "%s: %s" % (type(e).__name__, e)
        if src != want:
            bad.append((u, "source", want, src))
        try:
            code = t.code
        except Exception as e:        # noqa: BLE001
            code = "%s: %s" % (type(e).__name__, e)
        m = re.search(r"^_template_uri = (.*)$", code, re.M)
        try:
            import ast as _ast
            code_uri = _ast.literal_eval(m.group(1)) if m else None
        except (ValueError, SyntaxError):
            code_uri = None
        if code_uri != t.uri or repr(want.split("${")[0]) not in code:
            bad.append((u, "code", "the module generated for " + u, "the module generated for %r" % code_uri if m else code[:200]))
        out = t.render_unicode()
        if out != want.split("<%def")[0].replace("${1+1}", "2"):
            bad.append((u, "output", want, out))
        if t.has_def("own_" + str(uris.index(u))) is not True or t.list_defs() != sorted(["body", "own_" + str(uris.index(u))]):
            bad.append((u, "list_defs", ["body", "own_%d" % uris.index(u)], t.list_defs()))
    return bad


def nonword_texts(uris):
    return {u: "template %d <%s> ${1+1}<%%def name='own_%d()'>d</%%def>" % (i, u, i) for i, u in enumerate(uris)}


def oracle_lookup(ctx, base):
    from mako.lookup import TemplateLookup
    st = ctx.stream("oracle.one_lookup", "oracle")
    tdir = os.path.join(base, "lk")
    os.makedirs(os.path.join(tdir, "sub"), exist_ok=True)
    # (1) spellings of ONE uri: same template text, output, defs (different Template objects are fine)
    with open(os.path.join(tdir, "p.html"), "w", encoding="utf-8") as f:
        f.write("spelled é ${1+1}<%def name='own_0()'>d</%def>")
    for cname, kw in lookup_configs(base):
        lk = TemplateLookup([tdir], **kw)
        outs = {}
        for sp in SPELLINGS:
            st["cases"] += 1
            ctx.branch("lookup:spelling:" + cname)
            try:
                t = lk.get_template(sp)
                outs[sp] = (t.render_unicode(), t.source, t.list_defs(), norm_code(t.code, loose=True)[0])
            except Exception as e:        # noqa: BLE001
                outs[sp] = ("exc", type(e).__name__, str(e))
        ref = outs[SPELLINGS[0]]
        for sp, o in outs.items():
            if o != ref:
                what = [k for k, (a, b) in zip(("output", "source", "list_defs", "code"), zip(ref, o)) if a != b]
                ctx.violation("uri-spelling-changes-meaning", {"input": sp, "reference": SPELLINGS[0], "config": cname},
                              {"differs": what, "expected": ref[:3], "got": o[:3]}, "oracle.one_lookup")
    # (2) URIs that differ only in non-word characters, in ONE lookup
    n = 40 if ctx.quick else 600
    seen_sites = {}
    counter = [0]

    def trial(uris, cfg):
        counter[0] += 1
        d = os.path.join(base, "nw%d" % counter[0])
        texts = nonword_texts(uris)
        for u in uris:
            p = os.path.join(d, "t", u.lstrip("/"))
            os.makedirs(os.path.dirname(p), exist_ok=True)
            with open(p, "w", encoding="utf-8") as f:
                f.write(texts[u])
        kw = dict(lookup_configs(d))[cfg]
        return check_own(TemplateLookup([os.path.join(d, "t")], **kw), uris, texts)

    cfgs = [c for c, _ in lookup_configs(base)]
    for k in range(n):
        stem = ctx.rng.choice(["a", "pg", "x1"])
        uris = []
        for sp in ctx.rng.sample(NONWORD, ctx.rng.randint(2, 4)):
            uris.append("/%s%sb.html" % (stem, sp))
        cfg = cfgs[k % 3]
        st["cases"] += len(uris)
        ctx.branch("lookup:nonword:" + cfg)
        bad = trial(uris, cfg)
        if not bad:
            continue
        # shrink to a pair
        witness, wbad = uris, bad
        for i in range(len(uris)):
            for j in range(i + 1, len(uris)):
                if len(witness) > 2:
                    b2 = trial([uris[i], uris[j]], cfg)
                    if b2:
                        witness, wbad = [uris[i], uris[j]], b2
        same_id = len({re.sub(r"\W", "_", u) for u in witness}) < len(witness)
        site = "module-id-collision-nonword-chars" if same_id else "one-lookup-foreign-source"
        ctx.branch("lookup:nonword:collision")
        if site in seen_sites:
            continue
        seen_sites[site] = True
        u0, what, want, got = wbad[0]
        ctx.violation(site, {"input": witness, "config": cfg, "uris_differ_only_in_nonword_chars": same_id},
                      {"template": u0, "what": what, "expected": want, "got": got,
                       "module_ids": [re.sub(r"\W", "_", u) for u in witness]}, "oracle.one_lookup")
    # (3) the same two templates, one including the other, each with its own <%namespace name="n">: the output must
    #     not depend on whether their URIs happen to differ in a non-word character only
    def ns_pair(ua, ub, cfg):
        counter[0] += 1
        d = os.path.join(base, "nw%d" % counter[0])
        files = {"/lib1.html": "<%def name='who()'>LIB1</%def>", "/lib2.html": "<%def name='who()'>LIB2</%def>",
                 ua: "<%%namespace name='n' file='/lib1.html'/>A:${n.who()} <%%include file='%s'/>" % ub,
                 ub: "<%namespace name='n' file='/lib2.html'/>B:${n.who()}"}
        for u, txt in files.items():
            p = os.path.join(d, "t", u.lstrip("/"))
            os.makedirs(os.path.dirname(p), exist_ok=True)
            with open(p, "w", encoding="utf-8") as f:
                f.write(txt)
        return TemplateLookup([os.path.join(d, "t")], **dict(lookup_configs(d))[cfg]).get_template(ua).render_unicode()
    for k, (ua, ub) in enumerate([("/a-b.html", "/a_b.html"), ("/pg.b.html", "/pg b.html"), ("/x/y.html", "/x_y.html")]):
        cfg = cfgs[k % 3]
        st["cases"] += 1
        ctx.branch("lookup:nonword:namespace-key")
        want = ns_pair("/first%d.html" % k, "/second%d.html" % k, cfg)
        got = ns_pair(ua, ub, cfg)
        if got != want and "module-id-collision-nonword-chars:ns" not in seen_sites:
            seen_sites["module-id-collision-nonword-chars:ns"] = True
            ctx.violation("module-id-collision-nonword-chars",
                          {"input": [ua, ub], "config": cfg, "uris_differ_only_in_nonword_chars": True, "symptom": "namespace"},
                          {"what": "output of %s including %s, both declaring <%%namespace name='n'> over different files" % (ua, ub),
                           "expected": want, "got": got, "why": "context.namespaces is keyed by (module __name__, name)"},
                          "oracle.one_lookup")
    ctx.sample({"stream": "oracle.one_lookup", "uris": ["/a-b.html", "/a_b.html"], "asked": "source, code, output, list_defs of each"})



# =========================================================================================== oracle: several directories

DIR_SPELL = ["{ABS}/%s", "%s", "%s/", "./%s", "{ABS}/%s/", "{ABS}/./%s", "%s/../%s"]


def gen_mdcase(rng, cid):
    k = rng.randint(2, 4)
    tags = ["d%d" % i for i in range(1, k + 1)]
    rng.shuffle(tags)
    order = list(tags)
    if rng.random() < 0.4:
        order.insert(rng.randrange(len(order) + 1), rng.choice(tags))          # a directory listed twice
    dirs = []
    for d in order:
        sp = rng.choice(DIR_SPELL)
        dirs.append(sp % ((d, d) if sp.count("%s") == 2 else d))
    present = {d: [] for d in tags}
    for u in MD_URIS:
        holders = rng.sample(tags, rng.randint(1, k))
        if u != "/sub/leaf.html" and rng.random() < 0.7 and len(holders) < 2:
            holders = rng.sample(tags, 2)                                       # shadowed
        for d in holders:
            present[d].append(u)
    uris = list(MD_URIS) + ["main.html", "//inc.html", "/sub/../base.html", "/nosuch.html"]
    case = {"id": cid, "dirs": dirs, "order": order, "present": present, "uris": uris,
            "module_directory": rng.random() < 0.3}
    case["cli_input"] = "%s/main.html" % md_first(case, "/main.html")
    return case


def md_first(case, u):
    """ground truth, no mako involved: the first CONFIGURED directory that contains the URI"""
    import posixpath
    key = "/" + posixpath.normpath(u.replace("\\", "/").lstrip("/"))
    for d in case["order"]:
        if key in case["present"][d]:
            return d
    return None


def md_expected(case, u, main_dir=None):
    import posixpath
    key = "/" + posixpath.normpath(u.lstrip("/"))
    d = md_first(case, u)
    if d is None:
        return None
    if key == "/main.html":
        d = main_dir or d
        return {"file": "%s/main.html" % d, "dir": d,
                "render": "BASE@%s[MAIN@%s|INC@%s|LIB@%s|LEAF@%s]" % (md_first(case, "/base.html"), d, md_first(case, "/inc.html"),
                                                                  md_first(case, "/lib.html"), md_first(case, "/sub/leaf.html")),
                "get_def": "DEF@%s" % d, "list_defs": ["body", "dm"]}
    if key == "/base.html":
        return {"file": "%s%s" % (d, key), "dir": d, "render": None, "list_defs": ["body"]}
    if key == "/lib.html":
        return {"file": "%s%s" % (d, key), "dir": d, "render": "", "list_defs": ["body", "who"]}
    return {"file": "%s%s" % (d, key), "dir": d, "render": md_text(d, key), "list_defs": ["body"]}


def md_check(case, obs):
    """observations of one worker against the ground truth -> list of (what, expected, got)"""
    bad = []
    for u in case["uris"]:
        o = obs.get(u)
        want = md_expected(case, u)
        if o is None:
            bad.append((u, "observed", None))
            continue
        if want is None:
            if "exc" not in o or o["exc"][0] != "TopLevelLookupException" or o.get("has_template"):
                bad.append(("get_template(%s)" % u, "TopLevelLookupException", o.get("exc") or o.get("file")))
            continue
        if "exc" in o:
            bad.append(("get_template(%s)" % u, want["file"], o["exc"]))
            continue
        if o["file"] != want["file"]:
            bad.append(("get_template(%s).filename" % u, want["file"], o["file"]))
        if o["source"] != md_text(want["dir"], "/" + want["file"].split("/", 1)[1]):
            bad.append(("get_template(%s).source" % u, "the text of " + want["file"], o["source"][:60]))
        if want["dir"] not in o["code_tags"]:
            bad.append(("get_template(%s).code" % u, "the module of " + want["file"], o["code_tags"]))
        if o["list_defs"] != want["list_defs"] or not o.get("has_template"):
            bad.append(("get_template(%s).list_defs" % u, want["list_defs"], o["list_defs"]))
        if want["render"] is not None:
            for k in ("render_unicode", "render"):
                if o[k] != ["ok", want["render"]]:
                    bad.append(("get_template(%s).%s()" % (u, k), want["render"], o[k]))
        if "get_def" in want and o.get("get_def") != ["ok", want["get_def"]]:
            bad.append(("get_template(%s).get_def('dm').render()" % u, want["get_def"], o.get("get_def")))
    for k in ("mako-render", "mako-render(exe)"):
        if k in obs:
            w = md_expected(case, "/main.html", main_dir=case["cli_input"].split("/")[0])["render"]
            if obs[k] != ["ok", w]:
                bad.append((k + " --template-dir x%d" % len(case["dirs"]), w, obs[k]))
    return bad


def oracle_regen(ctx, seeds):
    """a module file regenerated in place (another root sharing the module directory / the source edited), with the
    default writer and with module_writer= variants, bytecode caching on: the regenerated module must be the one that
    executes - every observation equals the string path's"""
    st = ctx.stream("oracle.regenerated_in_place", "oracle")
    first = None
    for s_ in seeds:
        for r in REGEN_OUT.get(s_, []):
            st["cases"] += 1
            ctx.branch("regen:%s:%s:%s" % (r["writer"], r["scenario"], "conclusive" if r["conclusive"] else "inconclusive"))
            if r["problems"] and (first is None or (r["writer"] == "docs+utime" and first[1]["writer"] != "docs+utime")):
                first = (s_, r)
    if first:
        s_, r = first
        what, want, got = r["problems"][0]
        ctx.violation("module-dir-regenerated-module-not-executed",
                      {"input": "module_writer=%s, scenario=%s" % (r["writer"], r["scenario"]), "regen": [r["writer"], r["scenario"]]},
                      {"what": what, "expected": want, "got": got, "all": r["problems"][:6], "hashseed": s_}, "oracle.regenerated_in_place")
    ctx.sample({"stream": "oracle.regenerated_in_place", "writers": WRITERS, "scenarios": ["roots", "edit"],
                "checked": "output, get_def, source, executing module's _template_filename, a later lookup"})


def oracle_multidir(ctx, cases, outs, seeds):
    """outs: {seed: md results}.  every seed must agree with the ground truth, hence with each other"""
    st = ctx.stream("oracle.directories", "oracle")
    worst = None
    for c in cases:
        per_seed = {}
        for s in seeds:
            r = next((x for x in outs[s] if x["id"] == c["id"]), None)
            if r is None or "crash" in r:
                ctx.broke("worker-crash", (r or {}).get("crash", "no result"))
                continue
            st["cases"] += len(r["obs"])
            per_seed[s] = (r["obs"], md_check(c, r["obs"]))
        ctx.branch("directories:%d" % len(c["dirs"]))
        if len(set(c["dirs"])) < len(c["dirs"]) or len(set(c["order"])) < len(c["order"]):
            ctx.branch("directories:duplicate")
        for u in MD_URIS:
            if sum(1 for d in c["present"] if u in c["present"][d]) > 1:
                ctx.branch("directories:shadowed:" + u)
        bads = {s: b for s, (o, b) in per_seed.items() if b}
        if not bads:
            continue
        differ = len({json.dumps(o, sort_keys=True) for o, _ in per_seed.values()}) > 1
        cand = (len(c["dirs"]), c, bads, differ)
        if worst is None or cand[0] < worst[0]:
            worst = cand
    if worst:
        _, c, bads, differ = worst
        s0 = sorted(bads)[0]
        what, want, got = bads[s0][0]
        ctx.violation("hashseed-lookup-directory-order" if differ else "lookup-directory-order",
                      {"input": c["dirs"], "mdcase": c, "hashseeds": sorted(bads), "seeds_disagree": differ},
                      {"what": what, "expected (first configured directory that contains it)": want, "got": got,
                       "hashseed": s0, "seeds_with_a_wrong_answer": sorted(bads), "seeds_run": seeds}, "oracle.directories")
    ctx.sample({"stream": "oracle.directories", "dirs": cases[0]["dirs"], "present": cases[0]["present"],
                "asked": "file/source/code/defs/output of every URI (direct, include, inherit, namespace), mako-render"})


def corr_source_bytes(ctx):
    """the real ModuleInfo.source on byte strings (latin-1 as the codec: bytes <-> characters one to one) against the
    model's `sourcePayload`"""
    import mako.template as T
    drv = ctx.driver()
    st = ctx.stream("corr.source_bytes")

    class Mod:
        _source_encoding = "latin-1"
    reqs, datas = [], []
    alpha = [0xEF, 0xBB, 0xBF, 0xEF, 0xBB, 0xBF, 0xBC, 0x88, 0x61, 0x0A, 0x23, 0xFE, 0xFF]
    for n in range(0, 4):                                       # every byte string of length <= 3 over the BOM bytes + 2
        import itertools
        for tup in itertools.product([0xEF, 0xBB, 0xBF, 0x61, 0xBC], repeat=n):
            datas.append(bytes(tup))
    for _ in range(300 if ctx.quick else 5000):
        datas.append(bytes(ctx.rng.choice(alpha) for _ in range(ctx.rng.randint(0, 9))))
    for d in datas:
        reqs.append("p8 srcbytes " + enc(d.decode("latin-1")))
    for d, o in zip(datas, drv.ask_many(reqs)):
        st["cases"] += 1
        mi = T.ModuleInfo.__new__(T.ModuleInfo)
        mi.module, mi.template_source, mi.template_filename = Mod, d, None
        got = mi.source
        ctx.branch("source_bytes:" + ("bom" if d.startswith(b"\xef\xbb\xbf") else "bom-byte-first" if d[:1] in (b"\xef", b"\xbb", b"\xbf") else "other"))
        if dec(o) != got:
            ctx.disagree("corr.source_bytes", {"input": d.hex()}, dec(o).encode("latin-1").hex(), got.encode("latin-1").hex())


def corr_search(ctx):
    """the probe order of the real get_template (os.path.isfile patched) against the model's lookupFile"""
    import posixpath
    import mako.lookup as LK
    from mako import exceptions as X
    drv = ctx.driver()
    st = ctx.stream("corr.directory_search")
    reqs, wants = [], []
    orig = LK.os.path.isfile
    try:
        for _ in range(400 if ctx.quick else 6000):
            names = ["/srv/a", "/srv/b/", "rel/c", "/srv/./a", "/srv/b", ".", "/srv/a/../d"]
            dirs = [ctx.rng.choice(names) for _ in range(ctx.rng.randint(1, 5))]
            uri = ctx.rng.choice(["/x.html", "x.html", "//sub/x.html", "/sub/../x.html", "\\x.html"])
            cand = sorted({posixpath.normpath(posixpath.join(posixpath.normpath(d), re.sub(r"^/+", "", uri.replace("\\", "/")))) for d in names})
            files = [f for f in cand if ctx.rng.random() < 0.4]
            hit = []

            def fake(p_, files=files, hit=hit):
                if p_ in files:
                    hit.append(p_)
                    return True
                return False
            LK.os.path.isfile = fake
            lk = LK.TemplateLookup(dirs)
            lk._load = lambda filename, uri_: filename
            try:
                got = lk.get_template(uri)
            except X.TopLevelLookupException:
                got = None
            reqs.append("p8 search %s %s %s" % (L(dirs), L(files), enc(uri)))
            wants.append((dirs, files, uri, got))
    finally:
        LK.os.path.isfile = orig
    for (dirs, files, uri, got), o in zip(wants, drv.ask_many(reqs)):
        st["cases"] += 1
        model = None if o == "none" else dec(o)
        ctx.branch("search:" + ("hit" if got else "miss"))
        if model != got:
            ctx.disagree("corr.directory_search", {"input": uri, "dirs": dirs, "files": files}, model, got)


# =========================================================================================== oracle: histories in ONE process

def hist_text(k):
    return "v%d \u00e9 ${1+%d}<%%def name='d%d()'>x%d</%%def>" % (k, k, k, k)


def run_history(ops, base, tag):
    """ops: 'load' (get through lookup A), 'edit' (rewrite the source with a newer mtime), 'fresh' (a NEW lookup on the
    same root and module directory), 'respell' (the same, root and module directory spelled differently), 'other' (a second lookup with ANOTHER root sharing the module directory, its own
    newer source for the same URI), 'again' (read everything once more without any change).  After every step the
    template just obtained must answer source/code/defs/output for ITS OWN text: .source = the text on disk, .code =
    the current text of its module file = (modulo CODE_MAY_DIFFER) the module of the same text compiled in memory.
    -> None or a description of the first failure"""
    from mako.template import Template
    from mako.lookup import TemplateLookup
    d = os.path.join(base, "h_" + tag)
    ra, rb, md = os.path.join(d, "a"), os.path.join(d, "b"), os.path.join(d, "mods")
    for x in (ra, rb):
        os.makedirs(x, exist_ok=True)
    ver = [0]
    future = [int(time.time())]

    def write(root):
        ver[0] += 1
        future[0] += 3                                     # strictly newer, whole seconds, ahead of the module file
        p = os.path.join(root, "t.html")
        with open(p, "wb") as f:
            f.write(hist_text(ver[0]).encode("utf-8"))
        os.utime(p, (future[0], future[0]))
        return hist_text(ver[0])
    texts = {ra: write(ra), rb: None}
    lk = {ra: TemplateLookup([ra], module_directory=md), rb: None}
    keep = []
    cur = None
    for i, op in enumerate(ops):
        if op == "edit":
            texts[ra] = write(ra)
            root = ra
        elif op == "fresh":
            lk[ra] = TemplateLookup([ra], module_directory=md)
            root = ra
        elif op == "respell":
            # the same root and module directory under another spelling (relative, redundant separators)
            lk[ra] = TemplateLookup([os.path.relpath(ra) + "//.", ra + "/./"][len(keep) % 2:][:1],
                                    module_directory=[os.path.relpath(md) + "/", md + "//"][len(keep) % 2])
            root = ra
        elif op == "other":
            texts[rb] = write(rb)
            lk[rb] = TemplateLookup([rb], module_directory=md)
            root = rb
        elif op == "again" and cur is not None:
            root = cur
        else:
            root = ra
        cur = root
        t = lk[root].get_template("/t.html")
        keep.append(t)
        want = texts[root]
        k = int(want[1:want.index(" ")])
        where = "step %d (%s)" % (i, op)
        if t.source != want:
            return "%s: .source is %r, the template's text is %r" % (where, t.source[:40], want[:40])
        mp = os.path.join(md, "t.html.py")
        with open(mp, "rb") as f:
            disk = f.read().decode("utf-8")
        code = t.code
        if code != disk:
            m = re.search(r"__M_writer\('(v\d+)", code)
            return "%s: .code is not the text of the module file on disk (it is the module of %s, the file holds the module of v%d)" % (
                where, m.group(1) if m else "?", k)
        # (another URI: a second live template of the SAME uri would take over the ModuleInfo registry entry - F5)
        mem = Template(want, uri="/in-memory-%s.html" % tag, filename=os.path.join(root, "t.html"))
        a, _, la = norm_code(mem.code, loose=True)
        b, mb, lb = norm_code(code, loose=True)
        if a != b or linemap_relation(la, False, lb, mb):
            return "%s: .code is not the module of the template's own text (v%d)" % (where, k)
        if t.render_unicode() != "v%d \u00e9 %d" % (k, 1 + k) or t.list_defs() != ["body", "d%d" % k] or not t.has_def("d%d" % k):
            return "%s: output/defs are not those of v%d: %r %r" % (where, k, t.render_unicode(), t.list_defs())
        if t.get_def("d%d" % k).code != code or t.get_def("d%d" % k).source != want:
            return "%s: get_def().source/code differ from the template's" % where
    return None


def oracle_histories(ctx, base):
    from harness.common import ddmin
    st = ctx.stream("oracle.histories", "oracle")
    n = 60 if ctx.quick else 800
    fixed = [["load", "edit"], ["load", "other"], ["load", "again", "edit", "again"], ["load", "fresh", "edit", "other", "edit"],
             ["load", "respell", "edit", "respell"]]
    reported = False
    for k in range(n):
        ops = fixed[k] if k < len(fixed) else ["load"] + [ctx.rng.choice(["edit", "edit", "other", "fresh", "again", "load", "respell"])
                                                          for _ in range(ctx.rng.randint(1, 5))]
        st["cases"] += len(ops)
        for op in ops:
            ctx.branch("history:" + op)
        bad = run_history(ops, base, "r%d" % k)
        if bad and not reported:
            reported = True
            cnt = [0]

            def fails(sub):
                cnt[0] += 1
                try:
                    return bool(sub) and run_history(sub, base, "s%d_%d" % (k, cnt[0])) is not None
                except Exception:       # noqa: BLE001
                    return False
            small = ddmin(ops, fails, 60)
            detail = run_history(small, base, "w%d" % k) or bad
            ctx.violation("module-file-code-stale" if ".code" in detail else "history-own-text",
                          {"input": " ".join(small), "history": small}, detail, "oracle.histories")
    ctx.sample({"stream": "oracle.histories", "history": fixed[3], "checked after every step": "source, code vs module file on disk, "
                "code vs in-memory compile of the same text, output, list_defs/has_def, get_def().source/code"})
    # ---- corr: ModuleInfo.code is a function of the file content at access time (op-level, model `CodeRef.code`)
    from mako.lookup import TemplateLookup
    from mako.template import Template
    drv = ctx.driver()
    stc = ctx.stream("corr.code_reads_file")
    d = os.path.join(base, "h_corr")
    os.makedirs(os.path.join(d, "t"), exist_ok=True)
    with open(os.path.join(d, "t", "t.html"), "w") as f:
        f.write("x")
    tm = TemplateLookup([os.path.join(d, "t")], module_directory=os.path.join(d, "m")).get_template("/t.html")
    tt = Template("x", uri="/text-path.html")
    tt_code = tt.code
    mp = os.path.join(d, "m", "t.html.py")
    other = os.path.join(d, "m", "other.py")
    reqs, wants = [], []
    for _ in range(40 if ctx.quick else 400):
        ops, got_m, got_t = [], [], []
        with open(mp, "rb") as f:
            cur = f.read().decode("utf-8")
        ops.append("w:%s:%s" % (enc(mp), enc(cur)))
        for _ in range(ctx.rng.randint(1, 6)):
            r = ctx.rng.random()
            if r < 0.4:
                txt = "# -*- coding:utf-8 -*-\n# rewritten %d \u00e9\n" % ctx.rng.randrange(10 ** 6)
                with open(mp, "wb") as f:
                    f.write(txt.encode("utf-8"))
                ops.append("w:%s:%s" % (enc(mp), enc(txt)))
            elif r < 0.55:
                with open(other, "w") as f:
                    f.write("# other\n")
                ops.append("w:%s:%s" % (enc(other), enc("# other\n")))
            else:
                ops.append("q")
                got_m.append(tm.code)
                got_t.append(tt.code)
        ops.append("q")
        got_m.append(tm.code)
        got_t.append(tt.code)
        reqs.append("p8 codehist none %s %s" % (enc(mp), " ".join(ops)))
        wants.append(got_m)
        reqs.append("p8 codehist %s none %s" % (enc(tt_code), " ".join(ops)))
        wants.append(got_t)
    for rq, o, w in zip(reqs, drv.ask_many(reqs), wants):
        stc["cases"] += 1
        model = [None if x == "none" else dec(x) for x in o.split(" ")]
        if model != w:
            i = next((j for j, (a, b) in enumerate(zip(model, w)) if a != b), 0)
            ctx.disagree("corr.code_reads_file", {"input": "read #%d of a module-file template's .code after rewrites of its module file" % i},
                         (model[i] or "")[-60:], (w[i] or "")[-60:])


# =========================================================================================== entry points

def run(ctx):
    base = tempfile.mkdtemp(prefix="c08_")
    try:
        try:
            corr_module_id(ctx)
            corr_kwargs(ctx)
            corr_registry(ctx)
            corr_defs_header(ctx)
            corr_search(ctx)
            corr_source_bytes(ctx)
        finally:
            try:
                oracle_lookup(ctx, base)
            finally:
                try:
                    oracle_histories(ctx, base)
                finally:
                    oracle_differential(ctx, base)
        ctx.notes.append({"code_may_differ_between_paths": CODE_MAY_DIFFER})
        for k in sorted(ctx.branches):
            if k.startswith(("path:", "decl", "outcome:", "select:", "construct:", "regen:")):
                ctx.log("  %-50s %d" % (k, ctx.branches[k]))
    finally:
        shutil.rmtree(base, ignore_errors=True)


def replay(ctx, data):
    """re-run the recorded case: oracle on the implementation (all paths, the recorded hash seeds); the model is
    consulted for module-id cases"""
    case = data.get("case") or (data.get("first_disagreements") or [{}])[0].get("case")
    print("replaying", json.dumps(case, ensure_ascii=False)[:1000])
    base = tempfile.mkdtemp(prefix="c08r_")
    try:
        if isinstance(case, dict) and "regen" in case:
            run_seeds([], ["0"], base, phase_b=False, regen=True)
            ok = True
            for r in REGEN_OUT["0"]:
                for what, want, got in r["problems"]:
                    ok = False
                    print("module_writer=%s scenario=%s: %s: expected %r got %r" % (r["writer"], r["scenario"], what, want, got))
            return ok
        if isinstance(case, dict) and "mdcase" in case:
            c = case["mdcase"]
            seeds = ["0", "1", "2", "3", "4", "5"]
            run_seeds([], seeds, base, phase_b=False, mdcases=[c])
            ok = True
            for s_ in seeds:
                for what, want, got in md_check(c, MD_OUT[s_][0]["obs"]):
                    ok = False
                    print("hashseed %s: %s: expected %r got %r" % (s_, what, want, got))
            try:
                import posixpath
                o = ctx.driver().ask("p8 search %s %s %s" % (
                    L(["/r/" + d for d in c["order"]]), L(["/r/%s/main.html" % d for d in c["present"] if "/main.html" in c["present"][d]]),
                    enc("/main.html")))
                print("model: lookupFile(%r) serves /main.html from %s" % (c["order"], o if o == "none" else dec(o)))
            except Exception as e:        # noqa: BLE001
                print("model not available:", e)
            return ok
        if isinstance(case, dict) and "history" in case:
            bad = run_history(case["history"], base, "replay")
            print("impl :", bad or "every step answers for its own text")
            try:
                print("model:", ctx.driver().ask("p8 codehist none 47,109 w:47,109:49 q w:47,109:50 q"),
                      "(CodeRef.code after writing '1' then '2' to the module file: the current content each time)")
            except Exception as e:        # noqa: BLE001
                print("model not available:", e)
            return bad is None
        if isinstance(case, dict) and isinstance(case.get("input"), list) and case.get("config"):
            from mako.lookup import TemplateLookup
            uris = case["input"]
            texts = nonword_texts(uris)
            for u in uris:
                p = os.path.join(base, "t", u.lstrip("/"))
                os.makedirs(os.path.dirname(p), exist_ok=True)
                with open(p, "w", encoding="utf-8") as f:
                    f.write(texts[u])
            kw = dict(lookup_configs(base))[case["config"]]
            bad = check_own(TemplateLookup([os.path.join(base, "t")], **kw), uris, texts)
            for b in bad:
                print("impl :", b[0], b[1], "expected", repr(b[2])[:80], "got", repr(b[3])[:80])
            try:
                ids = [dec(ctx.driver().ask("p8 modid " + enc(u))) for u in uris]
                print("model: module ids", ids)
            except Exception as e:        # noqa: BLE001
                print("model not available:", e)
            return not bad
        if isinstance(case, dict) and "items" in case:
            c = {"id": 0, "items": case["items"], "aux": case.get("aux", {}), "uri": case.get("uri", "/main.html"),
                 "data": case.get("data", {}), "opts": case.get("opts", {}), "defs": case.get("defs", []),
                 "nested": case.get("nested", []), "probes": case.get("probes", []), "cli_real": True,
                 "file_encoding": case.get("file_encoding", "utf-8"), "bom": bool(case.get("bom"))}
            seeds = case.get("hashseeds") or ["0", "1", "2"]
            if len(seeds) == 1:
                seeds = seeds + [s for s in ("0", "1", "2") if s not in seeds]
            res = run_seeds([c], seeds, base)
            ok = True
            for s in seeds:
                for r in res[s]:
                    for d in r[0]["diffs"]:
                        ok = False
                        print("hashseed %s: path %s: %s: expected %r got %r" % (s, d[1], d[2], d[3], d[4]))
            for s in seeds[1:]:
                for d in cross_seed_diffs(res[seeds[0]][0][0], res[s][0][0]):
                    ok = False
                    print("hashseed %s vs %s: %s: %r vs %r" % (seeds[0], s, d[1], d[2], d[3]))
            return ok
        print("nothing to replay for this record (a correspondence disagreement: see `broken` in the file)")
        return False
    finally:
        shutil.rmtree(base, ignore_errors=True)


DRIVER_OPS = ["p8"]   # per-area driver executable(s) this check talks to (built before any worker is forked)
