"""C02 - expression substitution applies the filter pipeline in the documented order; the expression scanner
is never cut short.

corr  : (a) Lean `visitExpression` / `createFilterCallable` / `defFinishExpr` / `cacheDecoratorExpr` / `callTagExpr` /
            `blockCallSiteExpr` (Pipeline/Model.lean) vs the expressions the real code generator emits
            (`Template(src, default_filters=..., buffer_filters=...).code` parsed with `ast`; compared as AST dumps)
            at ten sites: expression, def filter=, block filter=, <%text filter=>, buffered def, <%call expr>,
            cached def (buffered / not buffered: the cached function and its caching wrapper), buffered block (named /
            anonymous: the block function and the `<call> or ''` written at the block's position);
        (b) Lean `contextNames` vs `undeclared_identifiers()` of the real Expression / DefTag / BlockTag / TextTag nodes
            (second role of DEFAULT_ESCAPES); `splitCall` / `resolve` vs the regex literals read from the
            create_filter_callable under test and DEFAULT_ESCAPES;
        (c) Lean `parseUntilText` / `matchExpression` vs the real `Lexer.parse_until_text` / `match_expression`
            (result or SyntaxException line/column) on every string of <=k tokens over the bracket/quote/comment
            alphabet, on an exhaustive family of backslash-newline continued literals, and on generated + mutated
            expressions; `Spec.firstTopLevel` against the generator's ground truth.
oracle: no Lean.  Real templates are rendered with NON-COMMUTING tagging filters (user callables from the context or
        from a module-level import; a str subclass makes `str` visible) at the same ten sites and the output is
        compared with the composition the property text documents, computed here from the documented functions;
        every built-in flag is rendered with strict_undefined off and on (both must give the documented text); a
        bytes value shows that D runs first; filter calls whose arguments come from an expression grammar are rendered
        with a recording filter and compared with the arguments evaluated as written (and the re-emitted entry with
        the written one, as ASTs); the implementation's scanner is compared with a Python twin of the
        lexical specification on every enumerated string; generated expressions are lexed and rendered by the real
        code and compared with the generator's ground truth (Expression(text, escapes) and the evaluated value).
"""
from __future__ import annotations

import ast
import itertools
import multiprocessing
import os
import re
import sys
import time
import types
import warnings

from harness.common import enc, dec, Driver, shrink_str, ddmin

RULE = ("pipeline: filter lists of 0-4 entries over {h,x,u,trim,entity,str,unicode,n,decode.utf8,f,g,f(1),g(\"a|b\")} "
        "x default_filters {None,[],[str],[f],[f,g]} x page expression_filter {absent,g,n,'g,n'} x buffer_filters "
        "{[],[g],[f,n],[trim,f]} at ten sites. Correspondence - thorough: all 30941 lists x all 20 (D,P) configurations at "
        "the expression site; all lists of <=3 x all configurations and all 4-filter lists x 2 of 4 representative "
        "configurations (alternating with the seed) at def / block / <%text> filter=; all lists of <=3 x 4 representative "
        "configurations x 4 buffer_filters at the buffered def; all lists of <=2 x 4 configurations x 4 buffer_filters at "
        "cached defs (buffered or not), buffered blocks (named, anonymous) and filtered-unbuffered defs; <%call expr> under "
        "all 20 configurations. Quick: all lists of <=2 (every third at the cached/buffered-block sites) plus a seeded "
        "sample of 3-4-filter lists. Oracle: the same sites on smaller list sets; every list of <=2 entries plus four "
        "decode.<enc> variants at every site x strict_undefined off/on; 200 bytes-valued cases. Non-trivial = at least two "
        "pipeline sources contribute or `n` is present; distinct = distinct (site, D, P, B, list). "
        "filter-call arguments: entries R(args) with 1-3 int-valued argument expressions drawn from a grammar over context "
        "names (+ - * | & ^ << **, and/or/not, - ~, comparisons, conditional expressions, immediately-called lambdas, "
        ".real/.bit_length(), subscripts of (l or m) and of tuples, max/abs, keyword, *args and **kwargs), written with minimal "
        "or explicit parentheses; 240 (thorough 6000) of them alone or next to h/trim/n/f at the five basic sites "
        "(correspondence + rendering with the recording filter R), 10000 (thorough 200000) through ArgumentList alone "
        "(re-emitted text vs written text as ASTs and as evaluated arguments); non-trivial = dropping the author's "
        "parentheses would change the arguments. "
        "context names / regexes: filter lists vs undeclared_identifiers at 4 node kinds; every string of <=4 (thorough 5) "
        "tokens over 16 regex-relevant tokens through splitCall/resolve. "
        "scanner: every concatenation of <=k tokens over { } ( ) [ ] | ' \" ''' \"\"\" \\ # \\n a (quick k=4 for both "
        "terminator sets; thorough k=5 for both, k=6 for `|`,`}` and a 1/8 phase of k=6 for `}`, a 1/64 phase of k=7 over "
        "14 tokens), directly through parse_until_text; 16464 literals continued with backslash-newline / backslash-CRLF "
        "(4 quoting styles x ''/r/b prefix x | } # quote inside and after); generated Python expressions (nested brackets, "
        "dict/set literals, lambdas, strings with | } # and escapes, triple quotes, f-strings without quote reuse, "
        "continued literals, comments and newlines inside brackets, CRLF) with 0-3 filters in varied spacing, embedded in "
        "text, plus token mutations (delete/duplicate/swap/insert) of those; non-trivial = the expression contains a "
        "terminator character before its real end")
ASSUMPTIONS = [
    "Python call semantics of the emitted nesting f_k(...f_1(v)) (call-by-value, innermost first) is the target "
    "language's; the theorem eval_pipeline states it for an abstract term evaluator",
    "the filter arguments handed to create_filter_callable and the identifiers of a filter list are the ones produced "
    "by mako.ast.ArgumentList (re-emission by ExpressionGenerator / FindIdentifiers is property C19's); the "
    "correspondence feeds the model the real args / identifiers",
    "default_filters, <%page expression_filter> and buffer_filters see module-level names only (documented: imports= / "
    "<%! %>); filters written in the template may also come from the context - the oracle supplies user callables so",
    "<%call expr=...> is read as an expression substitution without local filters (D and P apply); the property text is "
    "silent about it",
    "buffer_filters are applied to buffered defs/blocks only, as the code does (the Template docstring also names "
    "cached and filtered defs); no oracle expectation is attached to filtered-unbuffered defs with buffer_filters",
    "a filter entry that is neither a name nor a call (f(1).g) is outside the property's quantifier; the model "
    "follows the code through the regenerated callRegexAnchored (fixes/F-C02-filter-tail.diff is not applied)",
    "excluded syntax (documented scanner limit): Python >=3.12 f-strings that reuse the enclosing quote inside {} "
    "(f\"{d[\"k\"]}\") - not generated, outside Spec.firstTopLevel",
    "the lexical specification allows a raw newline inside '...' and \"...\" (Python does not); this only enlarges "
    "the set of regions scan_expr_spec speaks about",
    "a top-level `|` is the filter separator by design: bitwise-or must be parenthesised; a `#` comment that has no "
    "newline before the closing brace swallows it in Python's and in the specification's reading (no terminator), "
    "such inputs are outside the theorem and only compared (model = implementation)",
    "cached defs are rendered through a minimal in-memory CacheImpl registered by the harness (back ends are C17's)",
    "filter-call arguments are int-valued expressions over context names (operators, and/or/not, comparisons, "
    "conditional expressions, lambdas, .attr, [...], nested calls, keyword/star arguments); attribute access on a "
    "decimal integer literal is not generated (re-emitted as `2.real`: recorded under C19, F6-int-attribute); the "
    "printer of argument text is C19's model - C02 stays at oracle + correspondence level for it and carries the "
    "named obligation filter_call_arguments_keep_grouping on regenerated facts",
]
TRUSTED_EXTRA = [
    "C02: tools/regen_pipeline.py (DEFAULT_ESCAPES, Template.__init__ defaults of default_filters/buffer_filters, the "
    "two regex literals of create_filter_callable -> callRegexAnchored, by ast; str.isspace from the interpreter)",
    "C02: CPython's re engine: the five regexes of parse_until_text and the two of create_filter_callable are "
    "transcribed as deterministic functions and compared, not verified",
    "C02: the Python twin of Spec.firstTopLevel in the harness (py_spec), compared with the Lean one on every "
    "enumerated string",
]
REGEN = ["Pipeline"]

NPROC = min(16, os.cpu_count() or 1)

FILTERS = ["h", "x", "u", "trim", "entity", "str", "unicode", "n", "decode.utf8", "f", "g", "f(1)", 'g("a|b")']
DEFAULTS = [None, [], ["str"], ["f"], ["f", "g"]]
PAGES = [None, "g", "n", "g,n"]
SITES = ["expr", "def", "block", "text", "bufdef"]      # + "call", CACHED_SITES, "bufblock", "anonbufblock" (smaller streams)
BUFS = [[], ["g"], ["f", "n"], ["trim", "f"]]
REPR_CFGS = [(None, None), (["f", "g"], "g,n"), ([], "g"), (["f"], "n")]
TARGET = "__M_buf.getvalue()"
CACHED_SITES = ("cachedef", "cachedefnb")     # cached + buffered, cached only
BUFFERED_SITES = ("bufdef", "bufblock", "anonbufblock")   # write_def_finish(buffered=True, cached=False)


def all_lists(k):
    for n in range(k + 1):
        for t in itertools.product(FILTERS, repeat=n):
            yield list(t)


def page_args(P):
    return [] if P is None else P.split(",")


# --------------------------------------------------------------------------- templates for the pipeline sites

def attr_text(fs):
    """filter text inside a double-quoted attribute"""
    return ", ".join(fs).replace('"', "'")


def build_template(site, P, lists, call=True):
    """template source with one case per list; case K is preceded by the text marker \\x01K\\x02"""
    out = []
    if P is not None:
        out.append('<%%page expression_filter="%s"/>' % P)
    for k, fs in enumerate(lists):
        out.append("\x01%d\x02" % k)
        if site == "expr":
            out.append("${x | %s}" % ", ".join(fs) if fs else "${x}")
        elif site == "text":
            out.append('<%%text filter="%s"> <t&"é>${y} </%%text>' % attr_text(fs) if fs else '<%text> <t&"é>${y} </%text>')
        elif site in ("bufblock", "anonbufblock"):
            nm = ' name="b%d"' % k if site == "bufblock" else ""
            fa = ' filter="%s"' % attr_text(fs) if fs else ""
            # anonymous blocks are named after their line: one per line (the newline is dropped again below)
            out.append('%s<%%block%s buffered="True"%s> <b&"é> </%%block>' % ("\n" if site == "anonbufblock" else "", nm, fa))
        elif site == "block":
            out.append('<%%block name="b%d" filter="%s"> <b&"é> </%%block>' % (k, attr_text(fs)) if fs
                       else '<%%block name="b%d"> <b&"é> </%%block>' % k)
        elif site == "call":
            out.append('<%call expr="r()">b</%call>')
        else:
            buffered = ' buffered="True"' if site in ("bufdef", "cachedef") else ""
            if site in CACHED_SITES:
                buffered += ' cached="True"'
            fa = ' filter="%s"' % attr_text(fs) if fs else ""
            out.append('<%%def name="d%d()"%s%s> <d&"é> </%%def>' % (k, buffered, fa))
            if call:
                out.append("<%% context.write(d%d()) %%>" % k)
    out.append("\x01end\x02")
    return "".join(out)


class _Ordered(ast.NodeVisitor):
    """collects, in source order: marker constants written, `__M_writer(e)` calls and `return e`"""

    def __init__(self):
        self.events = []

    def visit_Call(self, node):
        if isinstance(node.func, ast.Name) and node.func.id == "__M_writer" and len(node.args) == 1:
            a = node.args[0]
            if isinstance(a, ast.Constant) and isinstance(a.value, str):
                for m in re.finditer("\x01(\\w+)\x02", a.value):
                    self.events.append(("marker", m.group(1)))
            else:
                self.events.append(("write", a))
        self.generic_visit(node)

    def visit_Return(self, node):
        if node.value is not None:
            self.events.append(("return", node.value))
        self.generic_visit(node)


def canon(node):
    return ast.dump(node)


class _CacheCall(ast.NodeTransformer):
    """the `cache._ctx_get_or_create(…)` call of a caching wrapper is the target of its filter expression"""

    def visit_Call(self, node):
        if isinstance(node.func, ast.Attribute) and node.func.attr == "_ctx_get_or_create":
            return ast.Name(id="CACHED", ctx=ast.Load())
        return self.generic_visit(node)


def canon_text(src):
    try:
        return ast.dump(ast.parse(src, mode="eval").body)
    except SyntaxError as e:
        return "unparsable: %r (%s)" % (src, e)


def block_call_texts(site, P, lists):
    """the call `visitBlockTag` writes at the position of each block of the template (anonymous blocks are named
    after their template line)"""
    if site == "bufblock":
        return ["context['self'].b%d(**pageargs)" % k for k in range(len(lists))]
    src = build_template(site, P, lists, call=False)
    return ["__M_anon_%d()" % (1 + src.count("\n", 0, m.start())) for m in re.finditer("<%block ", src)]


def block_site_exprs(render_body, n):
    """per case the canonical AST of the `<call> or ''` written at the block's position"""
    v = _Ordered()
    v.visit(render_body)
    res, cur = [None] * n, None
    for kind, val in v.events:
        if kind == "marker":
            cur = None if val == "end" else int(val)
        elif kind == "write" and cur is not None and isinstance(val, ast.BoolOp):
            if res[cur] is not None:
                raise AssertionError("two block call sites for case %d" % cur)
            res[cur] = canon(val)
    return res


def real_exprs(site, D, P, B, lists):
    """for every case the canonical AST of the expression the generated module writes / returns
    (None: the site emits no filter expression at all)"""
    from mako.template import Template
    src = build_template(site, P, lists, call=False)
    kw = {}
    if D is not None:
        kw["default_filters"] = D
    t = Template(src, buffer_filters=B, **kw)
    tree = ast.parse(t.code)
    funcs = {n.name: n for n in tree.body if isinstance(n, ast.FunctionDef)}
    res = [None] * len(lists)
    if site in CACHED_SITES:
        # the def compiles to two functions of the same name: the one whose result is cached, then the wrapper
        for k in range(len(lists)):
            fns = [n for n in tree.body if isinstance(n, ast.FunctionDef) and n.name == "render_d%d" % k]
            if len(fns) != 2:
                raise AssertionError("cached def compiled to %d functions" % len(fns))
            pair = []
            for fn, needle in ((fns[0], TARGET), (fns[1], "_ctx_get_or_create")):
                v = _Ordered()
                v.visit(fn)
                hits = [val for kind, val in v.events if kind in ("write", "return") and needle in ast.unparse(val)]
                if len(hits) != 1:
                    raise AssertionError("%d filter expressions in %s" % (len(hits), fn.name))
                pair.append(canon(_CacheCall().visit(hits[0])))
            res[k] = pair
        return res
    if site == "anonbufblock":
        # anonymous blocks are nested functions of render_body named after their template line
        byname = {n.name: n for n in ast.walk(funcs["render_body"]) if isinstance(n, ast.FunctionDef)}
        lines = [1 + src.count("\n", 0, m.start()) for m in re.finditer("<%block ", src)]
        if len(lines) != len(lists):
            raise AssertionError("%d anonymous blocks for %d cases" % (len(lines), len(lists)))
        for k, ln in enumerate(lines):
            fn = byname["__M_anon_%d" % ln]
            v = _Ordered()
            v.visit(fn)
            hits = [val for kind, val in v.events if kind in ("write", "return") and TARGET in ast.unparse(val)]
            if len(hits) != 1:
                raise AssertionError("%d filter expressions in %s" % (len(hits), fn.name))
            res[k] = canon(hits[0])
        sites = block_site_exprs(funcs["render_body"], len(lists))
        return [[a, b] for a, b in zip(res, sites)]
    if site in ("expr", "text", "call"):
        v = _Ordered()
        v.visit(funcs["render_body"])
        cur = None
        for kind, val in v.events:
            if kind == "marker":
                cur = None if val == "end" else int(val)
            elif kind == "write" and cur is not None:
                if site == "expr":
                    if res[cur] is not None:
                        raise AssertionError("two expression writers for case %d" % cur)
                    res[cur] = canon(val)
                elif site == "call":
                    if "r()" in ast.unparse(val):
                        res[cur] = canon(val)
                else:
                    if TARGET in ast.unparse(val):
                        res[cur] = canon(val)
    else:
        for k in range(len(lists)):
            fn = funcs["render_%s%d" % ("b" if site in ("block", "bufblock") else "d", k)]
            v = _Ordered()
            v.visit(fn)
            for kind, val in v.events:
                if kind in ("write", "return") and TARGET in ast.unparse(val):
                    if res[k] is not None:
                        raise AssertionError("two filter expressions in %s" % fn.name)
                    res[k] = canon(val)
        if site == "bufblock":
            sites = block_site_exprs(funcs["render_body"], len(lists))
            return [[a, b] for a, b in zip(res, sites)]
    return res


def real_args(text):
    from mako import ast as mast
    return list(mast.ArgumentList(text).args)


def cfg_fields(D, P):
    d = ["str"] if D is None else D
    p = page_args(P)
    return "%d %s %d %d %s" % (len(d), " ".join(enc(x) for x in d), 0 if P is None else 1, len(p),
                               " ".join(enc(x) for x in p))


def lst_fields(xs):
    return ("%d %s" % (len(xs), " ".join(enc(x) for x in xs))).strip()


def squeeze(line):
    return " ".join(line.split())


def model_requests(site, D, P, B, lists):
    """per case the list of requests whose answers make up the case's expression(s)"""
    reqs = []
    calls = block_call_texts(site, P, lists) if site in ("bufblock", "anonbufblock") else None
    for k, fs in enumerate(lists):
        text = ", ".join(fs) if site == "expr" else attr_text(fs)
        args = real_args(text)
        cfg = cfg_fields(D if D is None else [a for a in D], P)
        if site == "expr":
            reqs.append([squeeze("pipe visit %s %s %s %s" % (enc(text), enc("x"), cfg, lst_fields(args)))])
        elif site == "call":
            reqs.append([squeeze("pipe calltag %s %s" % (enc("r()"), cfg))])
        elif site == "text":
            reqs.append([squeeze("pipe cfc 0 %s %s %s" % (enc(TARGET), cfg, lst_fields(args)))])
        elif site in CACHED_SITES:
            b = 1 if site == "cachedef" else 0
            reqs.append([squeeze("pipe deffin %d 1 %s %s %s %s" % (b, enc(TARGET), cfg, lst_fields(args), lst_fields(list(B)))),
                         squeeze("pipe cachedeco %d %s %s %s" % (b, enc("CACHED"), cfg, lst_fields(list(B))))])
        else:
            reqs.append([squeeze("pipe deffin %d 0 %s %s %s %s" % (1 if site in BUFFERED_SITES else 0, enc(TARGET), cfg,
                                                                lst_fields(args), lst_fields(list(B))))])
            if calls is not None:
                reqs[-1].append("pipe blocksite " + enc(calls[k]))
    return reqs


def classify(site, D, P, B, fs):
    d = ["str"] if D is None else D
    p = page_args(P)
    if site == "expr":
        if "n" in fs:
            return "expr:n-local"
        if "n" in p:
            return "expr:n-in-page"
        srcs = (1 if d else 0) + (1 if p else 0) + (1 if fs else 0)
        return "expr:%d-sources" % srcs
    if site == "call":
        return "call:%d-sources" % ((1 if d else 0) + (1 if p else 0))
    if site in CACHED_SITES:
        return "%s:%s" % (site, ("B+F" if (B and fs) else "B" if B else "F" if fs else "none"))
    if site in BUFFERED_SITES:
        return site + ":%s" % ("B+F" if (B and fs) else "B" if B else "F" if fs else "none")
    return "%s:%s" % (site, "n" if "n" in fs else "filtered" if fs else "unfiltered")


def nontrivial_pipe(site, D, P, B, fs):
    d = ["str"] if D is None else D
    p = page_args(P)
    if "n" in fs or "n" in p:
        return True
    n = (1 if fs else 0) + (1 if (site == "expr" and d) else 0) + (1 if (site == "expr" and p) else 0) + (1 if (site in BUFFERED_SITES and B) else 0)
    return n >= 2


def new_result():
    warnings.simplefilter("ignore", SyntaxWarning)
    return {"cases": 0, "branches": {}, "dis": [], "ndis": 0, "viol": [], "nontriv": [], "drv": 0, "samples": []}


def br(r, k, n=1):
    r["branches"][k] = r["branches"].get(k, 0) + n


def task_pipe_corr(a):
    site, D, P, B, lists = a
    r = new_result()
    drv = Driver()
    try:
        real = real_exprs(site, D, P, B, lists)
    except Exception as e:        # the real generator failed on the batch: report as disagreement
        r["dis"].append({"case": {"kind": "pipe", "site": site, "D": D, "P": P, "B": B, "fs": lists[0]},
                         "model": None, "impl": "exception %r" % (e,)})
        r["ndis"] += 1
        return r
    reqs = model_requests(site, D, P, B, lists)
    flat = drv.ask_many([q for qs in reqs for q in qs])
    r["drv"] += len(flat)
    outs, i = [], 0
    for qs in reqs:
        outs.append(flat[i:i + len(qs)])
        i += len(qs)
    for fs, ro, mos in zip(lists, real, outs):
        r["cases"] += 1
        br(r, "pipe:" + classify(site, D, P, B, fs))
        mtexts = [dec(mo) if (mo == "-" or mo[:1].isdigit()) else mo for mo in mos]
        if ro is None:
            ok = (mtexts == [TARGET]) if site not in ("expr", "call") else False
        else:
            ok = [canon_text(m) for m in mtexts] == (ro if isinstance(ro, list) else [ro])
        if not ok:
            r["ndis"] += 1
            if len(r["dis"]) < 5:
                r["dis"].append({"case": {"kind": "pipe", "site": site, "D": D, "P": P, "B": B, "fs": fs},
                                 "model": mtexts, "impl": ro})
        if nontrivial_pipe(site, D, P, B, fs):
            r["nontriv"].append(hash((site, tuple(D) if D is not None else None, P, tuple(B), tuple(fs))))
    return r


# --------------------------------------------------------------------------- pipeline oracle (no Lean)

class V(str):
    """a str whose str() is visible: str(V('v')) == 'str(v)'; concatenation and join use the content"""

    def __str__(self):
        return V("str(" + str.__str__(self) + ")")


def _tag(name, a):
    if isinstance(a, bytes):
        return V(name + "(" + repr(a) + ")")
    return V(name + "(" + a + ")")


def user_f(a):
    if isinstance(a, (str, bytes)):
        return _tag("f", a)
    return lambda x: _tag("f[%r]" % (a,), x)


def user_g(a):
    if isinstance(a, str) and str.__str__(a) == "a|b":
        return lambda x: _tag("g['a|b']", x)
    if isinstance(a, (str, bytes)):
        return _tag("g", a)
    return lambda x: _tag("g[%r]" % (a,), x)


USERMOD = "c02_user_filters"


def install_usermod():
    m = types.ModuleType(USERMOD)
    m.f = user_f
    m.g = user_g
    m.R = user_R
    from mako.cache import CacheImpl, register_plugin

    class MemCacheImpl(CacheImpl):
        """minimal in-memory back end so that cached defs can be rendered"""

        def __init__(self, cache):
            super().__init__(cache)
            self.d = {}

        def get_or_create(self, key, creation_function, **kw):
            if key not in self.d:
                self.d[key] = creation_function()
            return self.d[key]

        def set(self, key, value, **kw):
            self.d[key] = value

        def get(self, key, **kw):
            return self.d.get(key)

        def invalidate(self, key, **kw):
            self.d.pop(key, None)
    m.MemCacheImpl = MemCacheImpl
    sys.modules[USERMOD] = m
    register_plugin("c02mem", USERMOD, "MemCacheImpl")


def documented(name):
    """the callable a filter entry denotes according to the property text / the filtering documentation"""
    from mako import filters
    table = {"h": filters.html_escape, "x": filters.xml_escape, "u": filters.url_escape, "trim": filters.trim,
             "entity": filters.html_entities_escape, "str": str, "unicode": str}
    if name in table:
        return table[name]
    if name.startswith("decode."):
        return getattr(filters.decode, name[len("decode."):])
    return eval(name, dict(ARGENV, f=user_f, g=user_g, R=user_R))


def documented_chain(site, D, P, B, fs):
    d = ["str"] if D is None else list(D)
    p = page_args(P)
    if site == "expr":
        if "n" in fs:
            chain = list(fs)
        else:
            chain = p + list(fs)
            if "n" not in chain:
                chain = d + chain
    elif site == "call":
        chain = p + []
        if "n" not in chain:
            chain = d + chain
    elif site in BUFFERED_SITES or site == "cachedef":
        chain = list(fs) + list(B)
    else:
        chain = list(fs)
    return [c for c in chain if c != "n"]


X0 = ' <v&"é> '
BODY = {"text": ' <t&"é>${y} ', "block": ' <b&"é> ', "def": ' <d&"é> ', "bufdef": ' <d&"é> ',
        "cachedef": ' <d&"é> ', "cachedefnb": ' <d&"é> ', "bufblock": ' <b&"é> ', "anonbufblock": ' <b&"é> '}


def expected_output(site, D, P, B, fs, x=None):
    v = (V(X0) if x is None else x) if site in ("expr", "call") else BODY[site]
    try:
        for name in documented_chain(site, D, P, B, fs):
            v = documented(name)(v)
        return ("ok", "".join([v]))
    except Exception as e:
        return ("raise", type(e).__name__)


def needs_module_level(D, P, B):
    """default_filters, the page filter and buffer_filters are documented to see module-level names only
    (`imports=` / `<%! %>`); filters written in the template itself may also come from the context"""
    names = (D or []) + page_args(P) + list(B)
    return any(n.split("(")[0] in ("f", "g") for n in names)


def render_cases(site, D, P, B, lists, how, x=None, strict=False):
    """rendered output per case (list of ('ok', text) / ('raise', exc name)); `how` = 'context' | 'import'"""
    from mako.template import Template
    if needs_module_level(D, P, B):
        how = "import"
    src = build_template(site, P, lists)
    kw = {}
    if D is not None:
        kw["default_filters"] = D
    data = {"x": V(X0) if x is None else x, "y": "${y}", "r": (lambda: V(X0) if x is None else x)}
    if site in CACHED_SITES:
        kw["cache_impl"] = "c02mem"
    if how == "import":
        kw["imports"] = ["from %s import f, g, R" % USERMOD]
    else:
        data["f"] = user_f
        data["g"] = user_g
        data["R"] = user_R
    data.update(ARGENV)       # the names filter-call arguments refer to always come from the context
    if strict:
        kw["strict_undefined"] = True
    t = Template(src, buffer_filters=B, **kw)
    out = t.render_unicode(**data)
    parts = re.split("\x01(\\w+)\x02", out)
    # parts = [pre, k0, out0, k1, out1, ..., 'end', '']
    res = {}
    for i in range(1, len(parts) - 1, 2):
        if parts[i] != "end":
            res[int(parts[i])] = parts[i + 1]
    if site == "anonbufblock":
        res = {k: (v[1:] if v.startswith("\n") else "missing line break: %r" % v) for k, v in res.items()}
    return [("ok", res.get(k)) for k in range(len(lists))]


def _render_all(site, D, P, B, lists, how, strict):
    try:
        return render_cases(site, D, P, B, lists, how, strict=strict)
    except Exception:
        got = []
        for fs in lists:
            try:
                got.append(render_cases(site, D, P, B, [fs], how, strict=strict)[0])
            except Exception as e:
                got.append(("raise", type(e).__name__))
        return got


def task_pipe_oracle(a):
    """a = (site, D, P, B, lists, how[, stricts]); every case is rendered under each strict_undefined setting of
    `stricts` and must give the documented composition under each (so the settings agree with one another)"""
    site, D, P, B, lists, how = a[:6]
    stricts = a[6] if len(a) > 6 else (False,)
    install_usermod()
    r = new_result()
    for strict in stricts:
        got = _render_all(site, D, P, B, lists, how, strict)
        for fs, g in zip(lists, got):
            r["cases"] += 1
            want = expected_output(site, D, P, B, fs)
            br(r, "oracle-pipe:%s:%s%s" % (site, want[0], ":strict_undefined" if strict else ""))
            if g != want:
                case = {"kind": "pipe", "site": site, "D": D, "P": P, "B": B, "fs": fs, "how": how, "strict": strict}
                name = "pipeline-order:" + site
                if strict and g[0] == "raise" and g[1] == "NameError":
                    name = "builtin-flag-demanded-from-context:" + site
                r["viol"].append((name, case, {"rendered": g, "documented": want}, "oracle.pipeline"))
    return r


def pipe_case_holds(case):
    """re-run one pipeline case on the implementation; True iff the documented composition is rendered"""
    install_usermod()
    site, D, P, B, fs, how = case["site"], case["D"], case["P"], case["B"], case["fs"], case.get("how", "context")
    x = case.get("x")
    if isinstance(x, dict) and "bytes" in x:
        x = bytes.fromhex(x["bytes"])
    try:
        g = render_cases(site, D, P, B, [fs], how, x=x, strict=bool(case.get("strict")))[0]
    except Exception as e:
        g = ("raise", type(e).__name__)
    want = expected_output(site, D, P, B, fs, x=x)
    return g == want, g, want


def shrink_pipe(case):
    """drop filters / simplify the configuration while the violation persists"""
    def fails(c):
        try:
            return not pipe_case_holds(c)[0]
        except Exception:
            if os.environ.get("C02_DEBUG"):
                import traceback
                traceback.print_exc()
            return False
    cur = dict(case)
    cur["fs"] = ddmin(cur["fs"], lambda fs: fails(dict(cur, fs=list(fs))), 200)
    for key, simpler in (("B", [[]]), ("P", [None, "g", "n"]), ("D", [None, [], ["f"]])):
        for s in simpler:          # simplest first; stop at the current value
            if cur[key] == s:
                break
            if fails(dict(cur, **{key: s})):
                cur[key] = s
                break
    cur["fs"] = ddmin(cur["fs"], lambda fs: fails(dict(cur, fs=list(fs))), 200)
    cur["input"] = "%s|D=%r|P=%r|B=%r|%s%s" % (cur["site"], cur["D"], cur["P"], cur["B"], ",".join(cur["fs"]),
                                              "|strict_undefined" if cur.get("strict") else "")
    return cur


# --------------------------------------------------------------------------- filter-call arguments "as written"

ARGENV = {"a": 0, "b": 3, "c": 2, "d": 0, "e": 7, "p": -2, "l": [], "m": [4, 1]}


def user_R(*args, **kw):
    """a filter factory that records what it was called with (its result shows the arguments it received)"""
    name = "R%r%r" % (args, sorted(kw.items()))
    return lambda x: _tag(name, x)


def gen_arg_expr(rng, depth):
    """an int-valued Python expression over ARGENV, fully parenthesised (the grouping is the tree)"""
    r = rng.random()
    if depth <= 0 or r < 0.18:
        return rng.choice(["a", "b", "c", "d", "e", "p", "0", "1", "2", "5"])
    sub = lambda: gen_arg_expr(rng, depth - 1)
    if r < 0.34:
        return "(%s %s %s)" % (sub(), rng.choice(["+", "-", "*", "|", "&", "^"]), sub())
    if r < 0.50:
        return "(%s %s %s)" % (sub(), rng.choice(["and", "or"]), sub())
    if r < 0.58:
        return "(%s %s)" % (rng.choice(["not", "-", "~"]), sub()) if rng.random() < 0.7 else "(%s ** 2)" % sub()
    if r < 0.68:
        return "(%s %s %s)" % (sub(), rng.choice(["<", "==", "!=", ">="]), sub())
    if r < 0.76:
        return "(%s if %s else %s)" % (sub(), sub(), sub())
    if r < 0.82:
        return "(lambda q: %s)(%s)" % (rng.choice([sub(), "(q + %s)" % sub(), "(q or %s)" % sub()]), sub())
    if r < 0.88:
        base = sub()
        if base.isdigit():        # attribute access on a decimal literal: recorded under C19 (F6-int-attribute), not generated
            base = rng.choice(["a", "b", "e", "p"])
        return "(%s).%s" % (base, rng.choice(["real", "bit_length()"]))
    if r < 0.94:
        return "(l or m)[(%s & 1)]" % sub() if rng.random() < 0.6 else "(%s, %s)[(%s & 1)]" % (sub(), sub(), sub())
    return rng.choice(["max(%s, %s)" % (sub(), sub()), "abs(%s)" % sub(), "(%s << (%s & 3))" % (sub(), sub())])


def gen_filter_call(rng):
    """`R(args…)` as an author would write it (minimal parentheses via ast.unparse, or the explicit tree), its value
    must be computable; returns (entry text, grouping_sensitive)"""
    for _ in range(50):
        n = rng.choice([1, 1, 2, 3])
        parts = [gen_arg_expr(rng, rng.randint(1, 3)) for _ in range(n)]
        forms = list(parts)
        k = rng.random()
        if k < 0.2:
            forms[-1] = "k=" + forms[-1]
        elif k < 0.3:
            forms.append("*(l or m)")
        elif k < 0.35:
            forms.append("**{'k': %s}" % gen_arg_expr(rng, 1))
        full = "R(%s)" % ", ".join(forms)
        try:
            entry = ast.unparse(ast.parse(full, mode="eval")) if rng.random() < 0.8 else full
            if '"' in entry or "\n" in entry:
                continue
            want = eval(entry, dict(ARGENV, R=lambda *a, **k: (a, sorted(k.items()))))
        except Exception:
            continue
        # would the value change if the author's parentheses were lost?
        flat = entry[2:-1].replace("(", " ").replace(")", " ") if "lambda" not in entry and "max" not in entry and "abs" not in entry \
            and "[" not in entry and ".real" not in entry and ".bit_length" not in entry and "*" not in forms[-1][:1] else None
        sens = False
        if flat is not None:
            try:
                sens = eval("R(%s)" % flat, dict(ARGENV, R=lambda *a, **k: (a, sorted(k.items())))) != want
            except Exception:
                sens = True
        return entry, sens
    return "R(a or b)", False


def task_arg_oracle(a):
    """no Lean, no rendering: the entry re-emitted by the real ArgumentList must parse to the AST the author wrote
    and evaluate to the same arguments"""
    seed, n = a
    import random
    rng = random.Random(seed)
    r = new_result()
    rec = lambda *a_, **k_: (a_, sorted(k_.items()))
    for _ in range(n):
        entry, sens = gen_filter_call(rng)
        r["cases"] += 1
        br(r, "oracle-args:" + ("grouping-sensitive" if sens else "insensitive"))
        try:
            out = real_args(entry)
            ok = (len(out) == 1 and ast.dump(ast.parse(out[0], mode="eval")) == ast.dump(ast.parse(entry, mode="eval"))
                  and eval(out[0], dict(ARGENV, R=rec)) == eval(entry, dict(ARGENV, R=rec)))
            detail = {"re-emitted": out}
        except Exception as e:
            ok, detail = False, {"raised": "%s: %s" % (type(e).__name__, e)}
        if not ok:
            r["viol"].append(("filter-argument-regrouped", {"kind": "argentry", "input": entry}, detail, "oracle.filter-arguments"))
        if sens:
            r["nontriv"].append(hash(entry))
    return r


def arg_entry_holds(entry):
    rec = lambda *a_, **k_: (a_, sorted(k_.items()))
    try:
        out = real_args(entry)
        return (len(out) == 1 and ast.dump(ast.parse(out[0], mode="eval")) == ast.dump(ast.parse(entry, mode="eval"))
                and eval(out[0], dict(ARGENV, R=rec)) == eval(entry, dict(ARGENV, R=rec))), out
    except Exception as e:
        return False, "%s: %s" % (type(e).__name__, e)


# --------------------------------------------------------------------------- scanner: implementation probes

class patched_python_parsing:
    """Expression nodes parse their text with Python's parser while they are constructed; for comparing the
    *scanner* on arbitrary strings that parsing is stubbed out (module attributes, restored afterwards)"""

    def __enter__(self):
        from mako import ast as mast

        class Stub:
            def __init__(self, code, **kw):
                self.code = code
                self.args = []
                self.declared_identifiers = set()
                self.undeclared_identifiers = set()
        self.mast = mast
        self.saved = (mast.PythonCode, mast.ArgumentList)
        mast.PythonCode = Stub
        mast.ArgumentList = Stub
        return self

    def __exit__(self, *a):
        self.mast.PythonCode, self.mast.ArgumentList = self.saved


def real_until(watch, terms, s, p):
    from mako.lexer import Lexer
    from mako import exceptions
    lx = Lexer(s)
    lx.textlength = len(s)
    lx.match_position = p
    try:
        t, e = lx.parse_until_text(watch, *[re.escape(t) for t in terms])
    except exceptions.SyntaxException:
        return "err"
    return "ok %s %s %d" % (enc(t), enc(e), lx.match_position)


def real_expr(s, p):
    """match_expression at p (Python parsing stubbed by the caller)"""
    from mako.lexer import Lexer
    from mako import exceptions
    lx = Lexer(s)
    lx.textlength = len(s)
    lx.match_position = p
    lx.lineno = 1 + s.count("\n", 0, p)
    try:
        ok = lx.match_expression()
    except exceptions.SyntaxException as e:
        return "err %d %d" % (e.lineno, e.pos)
    if not ok:
        return "nomatch"
    n = lx.template.nodes[-1]
    return "node %s %s %d" % (enc(n.text), enc(n.escapes), lx.match_position)


def model_expr_to_real_form(s, o):
    """the model reports the offset of the blamed match; the exception carries (line, column)"""
    if o.startswith("err "):
        off = int(o.split()[1])
        line = 1 + s.count("\n", 0, off)
        col = off - s.rfind("\n", 0, off)
        return "err %d %d" % (line, col)
    return o


TOKS = ['"""', "{", "}", "(", ")", "[", "]", "|", "'", '"', "'''", "\\", "#", "\n", "a"]
TOKS14 = [t for t in TOKS if t != '"""']


def task_scan_exhaustive(a):
    """all strings prefix + (n more tokens), optionally every `stride`-th (phase)"""
    prefix, n, toks, stride, phase, bars = a
    strings = []
    i = 0
    for t in itertools.product(toks, repeat=n):
        if stride == 1 or i % stride == phase:
            strings.append("".join(prefix) + "".join(t))
        i += 1
    return _scan_check(strings, bars, "scan-exh")


def continued_literal_family():
    """string literals continued over a line with a backslash (all quoting styles, raw/bytes prefixes), with
    terminators, quotes and `#` inside and after; followed by the real terminator and more text"""
    out = []
    for q in ("'", '"', "'" * 3, '"' * 3):
        other = '"' if q[0] == "'" else "'"
        inner = ["", "|", "}", "#", other, "a", "|}#" + other]
        for pre in ("", "r", "b"):
            for a_ in inner:
                for b_ in inner:
                    for nl in ("\\\n", "\\\r\n"):
                        lit = pre + q + a_ + nl + b_ + q
                        for after in ("", " ", "+" + other + "|}" + other, "#\n", "[0]", "|", other):
                            out.append(lit + after + "}")
                            out.append("f(" + lit + after + ")|h} tail}")
    return out


def task_scan_strings(a):
    strings, bars, tag = a
    return _scan_check(strings, bars, tag)


def _scan_check(strings, bars, tag):
    r = new_result()
    drv = Driver()
    for bar, terms in ((1, ["|", "}"]), (0, ["}"])):
        if bar not in bars:
            continue
        reqs = ["pipe scan 1 %s 0 %d %s" % (enc(s), len(terms), " ".join(enc(t) for t in terms)) for s in strings]
        spec = ["pipe ftl %d %s" % (bar, enc(s)) for s in strings]
        outs = drv.ask_many(reqs)
        specs = drv.ask_many(spec)
        r["drv"] += 2 * len(reqs)
        for s, o, sp in zip(strings, outs, specs):
            r["cases"] += 1
            want = real_until(True, terms, s, 0)
            if o != want:
                r["ndis"] += 1
                if len(r["dis"]) < 5:
                    r["dis"].append({"case": {"kind": "scan", "input": s, "terms": terms}, "model": o, "impl": want})
            kind = "err" if want == "err" else "ok"
            pq = py_spec(terms, s)
            if sp != ("none" if pq is None else str(pq)):
                # the Lean specification and its Python twin (used by the Lean-free oracle below) must agree
                r["ndis"] += 1
                if len(r["dis"]) < 5:
                    r["dis"].append({"case": {"kind": "spec-twin", "input": s, "terms": terms}, "model": sp, "impl": pq})
            if pq is not None:
                # the specification finds a first top-level terminator: the implementation must return exactly there
                q = pq
                kind += "+well-lexed"
                if want != "ok %s %s %d" % (enc(s[:q]), enc(s[q]), q + 1):
                    r["viol"].append(("scanner-vs-lexical-spec", {"kind": "scan", "input": s, "terms": terms},
                                      {"spec_q": q, "impl": want}, "oracle.scanner-spec"))
                if any(c in s[:q] for c in terms):
                    r["nontriv"].append(hash((s, bar)))
            br(r, tag + ":" + kind)
    return r


# --------------------------------------------------------------------------- scanner: expression generator

NAMES = ["a", "b", "c1", "d", "F", "G", "x_y"]
STR_BODIES = ["", "|", "}", "#", "{", "a|b}", "${x}", "(", ")]", "x y", "it's", "\\\\", "%>", "</%text>", "é|世}"]


def gen_continued(rng):
    """a literal continued over a line with backslash-newline, terminators / quotes / # inside"""
    q = rng.choice(["'", '"', "'" * 3, '"' * 3])
    other = '"' if q[0] == "'" else "'"
    pre = rng.choice(["", "", "", "r", "b", "f"])
    pool = ["", "|", "}", "#", other, "a", "x|y", "# c", "|}#" + other, other + "|" + other]
    if pre == "f":
        pool = [x for x in pool if "}" not in x]
    nl = rng.choice(["\\\n", "\\\n", "\\\r\n"])
    body = rng.choice(pool) + nl + rng.choice(pool)
    if rng.random() < 0.3:
        body += nl + rng.choice(pool)
    return pre + q + body + q


def gen_string(rng):
    if rng.random() < 0.12:
        return gen_continued(rng)
    body = rng.choice(STR_BODIES)
    kind = rng.random()
    if kind < 0.35:
        q = rng.choice("'\"")
        b = body.replace("\\", "\\\\").replace(q, "\\" + q)
        if rng.random() < 0.3:
            b += "\\" + q + rng.choice("|}#")
        return q + b + q
    if kind < 0.55:
        q = rng.choice(["'''", '"""'])
        b = body.replace("\\", "\\\\")
        if rng.random() < 0.5:
            b = b + rng.choice(["\n", "\r\n", " # no comment |}\n", q[0], q[0] * 2 + " "]) + rng.choice(["|", "}", "x"])
        if b.endswith(q[0]):
            b += " "
        return q + b + q
    if kind < 0.65:
        # f-string / raw / bytes prefixes (no quote reuse, braces doubled or holding a name)
        q = rng.choice("'\"")
        other = "'" if q == '"' else '"'
        return rng.choice(["f", "F", "rf"]) + q + rng.choice(["{a}|", "{{|}}", "}}#{b}", "{a!r:>{b}}|"]).replace(q, other) + q
    if kind < 0.72:
        q = rng.choice("'\"")
        return "r" + q + rng.choice(["\\|", "a\\" + q + "|}", "}#"]) + q
    q = rng.choice("'\"")
    other = "'" if q == '"' else '"'
    return q + (body.replace("\\", "\\\\").replace(q, "") + other + rng.choice("|}#")) + q


def ws(rng, inside):
    """white space; inside brackets newlines and comments are allowed"""
    r = rng.random()
    if r < 0.55:
        return ""
    if r < 0.8 or not inside:
        return rng.choice([" ", "  ", "\t"])
    return rng.choice(["\n", "\r\n", " # c\n", "#|}\n", " # it's {[( \"\n", "\n\n  ", " # ''' \n"])


def gen_expr(rng, depth, inside=False):
    r = rng.random()
    if depth <= 0 or r < 0.25:
        k = rng.random()
        if k < 0.08:
            c = gen_continued(rng)
            return c + rng.choice(["", " + '|}'", ' + "}|#"', "[0:1]", " # c\n" if inside else " "])
        if k < 0.35:
            return rng.choice(NAMES[:3] + ["x_y"])
        if k < 0.5:
            return str(rng.randint(0, 99))
        return gen_string(rng)
    w = lambda: ws(rng, True)
    sub = lambda: gen_expr(rng, depth - 1, True)
    if r < 0.4:
        return "F(" + w() + ", ".join(sub() + w() for _ in range(rng.randint(0, 3))) + ")"
    if r < 0.5:
        return "G(" + w() + sub() + "," + w() + "k=" + sub() + w() + ")"
    if r < 0.6:
        return "[" + w() + ("," + w()).join(sub() for _ in range(rng.randint(0, 3))) + w() + "]"
    if r < 0.7:
        return "{" + w() + ("," + w()).join(gen_string(rng) + w() + ":" + w() + sub() for _ in range(rng.randint(0, 2))) + w() + "}"
    if r < 0.76:
        return "{" + w() + ("," + w()).join(rng.choice(["1", "'|'", '"}"', "a"]) for _ in range(rng.randint(1, 3))) + w() + "}"
    if r < 0.84:
        return "(" + w() + sub() + w() + rng.choice(["|", " or ", " if a else ", ","]) + w() + sub() + w() + ")"
    if r < 0.9:
        return "d[" + w() + gen_string(rng) + w() + "]"
    if r < 0.95:
        return "(lambda z: F(z, " + sub() + "))(" + sub() + ")"
    return "F(" + sub() + ")" + ws(rng, inside) + rng.choice(["+", " or ", " and "]) + ws(rng, inside) + "F(" + sub() + ")"


FILTER_ITEMS = ["h", "x", "u", "trim", "entity", "str", "n", "f", "g", "f(1)", 'g("a|b")', "g('}')", "f({1: '|'})",
                "decode.utf8", "ns.f", 'f("""}""")']


def gen_filters(rng):
    n = rng.choice([0, 0, 1, 1, 2, 3])
    if n == 0:
        return None
    sp = lambda: rng.choice(["", " ", "  ", "\t"])
    return sp() + ("," + sp()).join(rng.choice(FILTER_ITEMS) + sp() for _ in range(n))


def gen_case(rng):
    e = ws(rng, False) + gen_expr(rng, rng.randint(0, 4)) + ws(rng, False)
    f = gen_filters(rng)
    pre = rng.choice(["", "text ", "a\nb ", "é\r\n", "{ '|' ", "# }\n"])
    post = rng.choice(["", " tail", "\n", "}", " | x}", "\r\n${y}"])
    src = pre + "${" + e + ("|" + f if f is not None else "") + "}" + post
    return {"pre": pre, "e": e, "f": f, "post": post, "src": src}


def tokens_of(s):
    return re.findall(r"'''|\"\"\"|\r\n|[A-Za-z_0-9]+|.", s, re.S)


def mutate(rng, src):
    t = tokens_of(src)
    if not t:
        return src
    for _ in range(rng.randint(1, 2)):
        i = rng.randrange(len(t))
        k = rng.random()
        if k < 0.3:
            del t[i]
        elif k < 0.5:
            t.insert(i, t[i])
        elif k < 0.7 and len(t) > 1:
            j = rng.randrange(len(t))
            t[i], t[j] = t[j], t[i]
        else:
            t.insert(i, rng.choice(["'", '"', "'''", '"""', "#", "\\", "}", "{", "|", "(", ")", "[", "]", "\n"]))
        if not t:
            break
    return "".join(t)


class Env:
    """names the generated expressions refer to"""

    @staticmethod
    def make():
        class D(dict):
            def __missing__(self, k):
                return "d<%r>" % (k,)

        def F(*a, **k):
            return "F%r%r" % (a, sorted(k.items()))

        def G(*a, **k):
            return "G%r%r" % (a, sorted(k.items()))
        return {"a": 1, "b": 2, "c1": "c|1}", "d": D(), "F": F, "G": G, "x_y": "x}y"}


def task_scan_generated(a):
    """correspondence on generated (optionally mutated) expressions: match_expression and the specification"""
    seed, n, mutated = a
    import random
    rng = random.Random(seed)
    r = new_result()
    drv = Driver()
    cases = []
    for _ in range(n):
        c = gen_case(rng)
        if mutated:
            c = {"src": mutate(rng, c["src"]), "pre": None}
        cases.append(c)
    starts = []
    for c in cases:
        p = c["src"].find("${")
        starts.append(max(p, 0))
    outs = drv.ask_many("pipe expr %s %d" % (enc(c["src"]), p) for c, p in zip(cases, starts))
    r["drv"] += len(outs)
    spec_req, spec_idx = [], []
    for i, (c, p) in enumerate(zip(cases, starts)):
        if c.get("pre") is not None:
            spec_req.append("pipe ftl 1 %s" % enc(c["src"][p + 2:]))
            spec_idx.append(i)
    spec_out = dict(zip(spec_idx, drv.ask_many(spec_req)))
    r["drv"] += len(spec_req)
    with patched_python_parsing():
        for i, (c, p, o) in enumerate(zip(cases, starts, outs)):
            r["cases"] += 1
            s = c["src"]
            want = real_expr(s, p)
            got = model_expr_to_real_form(s, o)
            br(r, "scan-gen%s:%s" % ("-mut" if mutated else "", want.split()[0]))
            if got != want:
                r["ndis"] += 1
                if len(r["dis"]) < 5:
                    r["dis"].append({"case": {"kind": "expr", "input": s, "p": p}, "model": got, "impl": want})
            if i in spec_out:
                # Spec.firstTopLevel must place the terminator where the generator put it
                k = len(c["e"])
                if spec_out[i] != str(k):
                    r["ndis"] += 1
                    if len(r["dis"]) < 5:
                        r["dis"].append({"case": {"kind": "spec", "input": s, "p": p}, "model": spec_out[i],
                                         "impl": "generator ground truth %d" % k})
                if any(ch in c["e"] for ch in "|}"):
                    r["nontriv"].append(hash(s))
    return r


def scan_case_holds(c, render=True):
    """ground truth check on the implementation (no Lean): Expression(text, escapes) and the rendered value.
    returns (ok, detail)"""
    from mako.lexer import Lexer
    from mako import parsetree
    from mako.template import Template
    src, e, f = c["src"], c["e"], c["f"]
    want_text = e.replace("\r\n", "\n")
    want_esc = "" if f is None else f.strip()
    try:
        nodes = Lexer(src).parse().nodes
    except Exception as ex:
        return False, "lexer raised %s: %s" % (type(ex).__name__, str(ex)[:200])
    exprs = [n for n in nodes if isinstance(n, parsetree.Expression)]
    if not exprs:
        return False, "no Expression node"
    n0 = exprs[0]
    if n0.text != want_text or n0.escapes != want_esc:
        return False, "Expression(%r, %r) but the source holds (%r, %r)" % (n0.text, n0.escapes, want_text, want_esc)
    if render and f is None:
        env = Env.make()
        try:
            want = str(eval(want_text.strip(), dict(env)))
        except Exception:
            return True, "not evaluable"
        t = Template("A${" + e + "}B")
        got = t.render_unicode(**env)
        if got != "A" + want + "B":
            return False, "rendered %r, value is %r" % (got, want)
    return True, ""


def task_scan_oracle(a):
    seed, n = a
    import random
    rng = random.Random(seed)
    r = new_result()
    for _ in range(n):
        c = gen_case(rng)
        r["cases"] += 1
        ok, detail = scan_case_holds(c)
        br(r, "oracle-scan:" + ("ok" if ok else "bad") + (":not-evaluable" if detail == "not evaluable" else ""))
        if not ok:
            small = shrink_scan(c)
            try:
                ok2, d2 = scan_case_holds(small, render=False)
                if not ok2:
                    detail = d2
            except Exception:
                pass
            r["viol"].append(("expression-scanner", small, detail, "oracle.scanner"))
        if len(r["samples"]) < 2 and any(ch in c["e"] for ch in "|}") and "\n" in c["e"]:
            r["samples"].append({"stream": "oracle.scanner", "template": c["src"]})
    return r


def shrink_scan(c):
    def fails(e):
        cc = dict(c, e=e, src=c["pre"] + "${" + e + ("|" + c["f"] if c["f"] is not None else "") + "}" + c["post"])
        try:
            compile(e.replace("\r\n", "\n").strip(), "<e>", "eval")
        except SyntaxError:
            return False
        return not scan_case_holds(cc, render=False)[0]
    e = c["e"]
    try:
        toks = tokens_of(e)
        toks = ddmin(toks, lambda t: fails("".join(t)), 300)
        e2 = "".join(toks)
        if fails(e2):
            e = e2
    except Exception:
        pass
    return {"kind": "scanexpr", "pre": c["pre"], "e": e, "f": c["f"], "post": c["post"],
            "src": c["pre"] + "${" + e + ("|" + c["f"] if c["f"] is not None else "") + "}" + c["post"], "input": e}


# --------------------------------------------------------------------------- small regex correspondences

def corr_regexes(ctx, drv):
    """`(.+?)(\\(.*\\))`, `decode\\..+` and locate_encode against re / DEFAULT_ESCAPES"""
    from mako import filters
    toks = ["f", "(", ")", "\n", ".", "decode", "decode.", "h", "1", " ", "'", "trim", "n", "x(", ").g", ")[0]"]
    k = 4 if ctx.quick else 5
    strings = ["".join(t) for n in range(k + 1) for t in itertools.product(toks, repeat=n)]
    strings = sorted(set(strings))
    st = ctx.stream("corr.filter-regexes", exhaustive=True)
    outs = drv.ask_many("pipe split " + enc(s) for s in strings)
    res = drv.ask_many("pipe resolve " + enc(s) for s in strings)
    # the regex literals are read from the source under test (the same ones tools/regen_pipeline.py classifies)
    repo = os.environ.get("MAKO_REPO", "/repo")
    lits = []
    for node in ast.walk(ast.parse(open(os.path.join(repo, "mako", "codegen.py"), encoding="utf-8").read())):
        if isinstance(node, ast.FunctionDef) and node.name == "create_filter_callable":
            for c in ast.walk(node):
                if (isinstance(c, ast.Call) and isinstance(c.func, ast.Attribute) and c.func.attr == "match"
                        and c.args and isinstance(c.args[0], ast.Constant)):
                    lits.append(c.args[0].value)
    call_lits = [l for l in lits if l.startswith("(")]
    dec_lits = [l for l in lits if l.startswith("decode")]
    if len(call_lits) != 1 or len(dec_lits) != 1:
        ctx.broke("correspondence:filter-regexes", "create_filter_callable matches %r" % (lits,))
        return
    rx = re.compile(call_lits[0])
    ctx.branch("call-regex:" + call_lits[0])

    def locate(name):
        if re.match(dec_lits[0], name):
            return "filters." + name
        return filters.DEFAULT_ESCAPES.get(name, name)
    for s, o, ro in zip(strings, outs, res):
        st["cases"] += 1
        m = rx.match(s)
        want = "none" if not m else "%s %s" % (enc(m.group(1)), enc(m.group(2)))
        if o != want:
            ctx.disagree("corr.filter-regexes", {"kind": "split", "input": s}, o, want)
        wr = (locate(m.group(1)) + m.group(2)) if m else locate(s)
        if ro != enc(wr):
            ctx.disagree("corr.filter-regexes", {"kind": "resolve", "input": s}, ro, wr)
        ctx.branch("split:" + ("match" if m else "none"))


def corr_context_names(ctx, drv):
    """second role of DEFAULT_ESCAPES: Lean `contextNames` vs `undeclared_identifiers()` of the real Expression /
    DefTag / BlockTag / TextTag nodes, fed with the identifiers the real ArgumentList found in the filter list"""
    from mako.lexer import Lexer
    from mako import parsetree, ast as mast
    st = ctx.stream("corr.context-names")
    lists = list(all_lists(2)) + [["decode.latin1"], ["ns.f", "h"], ["f(g)"], ["h(trim)"], ["decode"], ["decode.utf8(1)"],
                                  ["n", "entity", "unicode", "str"], ["filters.trim"], ["x_y", "x"]]
    lists += [[ctx.rng.choice(FILTERS + ["ns.f", "decode.latin1", "q"]) for _ in range(ctx.rng.choice([3, 4]))]
              for _ in range(60 if ctx.quick else 2000)]
    kinds = {"expr": parsetree.Expression, "def": parsetree.DefTag, "block": parsetree.BlockTag, "text": parsetree.TextTag}
    for site, cls in kinds.items():
        for ch in chunks(lists, 300):
            src = build_template(site, None, ch, call=False)
            nodes = [n for n in Lexer(src).parse().nodes if isinstance(n, cls)]
            if len(nodes) != len(ch):
                ctx.disagree("corr.context-names", {"kind": "ctxnames", "site": site}, None, "%d nodes for %d cases" % (len(nodes), len(ch)))
                continue
            idss = [sorted(mast.ArgumentList(", ".join(fs) if site == "expr" else attr_text(fs)).undeclared_identifiers)
                    for fs in ch]
            outs = drv.ask_many(squeeze("pipe ctxnames " + lst_fields(ids)) for ids in idss)
            for fs, node, ids, o in zip(ch, nodes, idss, outs):
                st["cases"] += 1
                model = set() if o == "[]" else {dec(t) for t in o.split()}
                real = set(node.undeclared_identifiers())
                if site == "expr":
                    model = model | {"x"}
                ctx.branch("ctxnames:%s:%s" % (site, "some" if model - {"x"} else "none"))
                if model != real:
                    ctx.disagree("corr.context-names", {"kind": "ctxnames", "site": site, "fs": fs, "idents": ids},
                                 sorted(model), sorted(real))
    # the leading identifier of an entry is what Python's parser reports for it
    entries = sorted(set(FILTERS + FILTER_ITEMS + ["decode.latin1", "a.b.c(1)", "_p(2)[0]"]))
    outs = drv.ask_many("pipe headident " + enc(e) for e in entries)
    for e, o in zip(entries, outs):
        st["cases"] += 1
        node = ast.parse(e, mode="eval").body
        while not isinstance(node, ast.Name):
            node = node.func if isinstance(node, ast.Call) else node.value
        if o != enc(node.id):
            ctx.disagree("corr.context-names", {"kind": "headident", "input": e}, o, node.id)


# --------------------------------------------------------------------------- driver of the check

def merge(ctx, stream, kind, r):
    st = ctx.stream(stream, kind)
    st["cases"] += r["cases"]
    for k, v in r["branches"].items():
        ctx.branch(k, v)
    for d in r["dis"]:
        ctx.disagree(stream, d["case"], d["model"], d["impl"])
    extra = r["ndis"] - len(r["dis"])
    if extra > 0:
        st["disagreements"] += extra
    for h in r["nontriv"]:
        ctx.nontriv(h)
    for s in r["samples"]:
        ctx.sample(s)
    if ctx._drv is not None:
        ctx._drv.n += r["drv"]
    return r["viol"]


def chunks(xs, n):
    for i in range(0, len(xs), n):
        yield xs[i:i + n]


def pipe_jobs(ctx):
    """(corr jobs, oracle jobs) as argument tuples"""
    rng = ctx.rng
    if ctx.quick:
        small = list(all_lists(2))
        big = [[rng.choice(FILTERS) for _ in range(rng.choice([3, 4]))] for _ in range(240)]
        expr_lists = small + big
        other_lists_allcfg = small
        other_lists_repr = big[:120]
        oracle_lists = small + big[:120]
        oracle_other = small[::2] + big[:60]
    else:
        full = list(all_lists(4))
        expr_lists = full
        other_lists_allcfg = list(all_lists(3))
        other_lists_repr = [l for l in full if len(l) == 4]
        k3 = list(all_lists(3))
        oracle_lists = k3 + rng.sample([l for l in full if len(l) == 4], 4000)
        oracle_other = list(all_lists(2)) + rng.sample(k3, 1500)
    corr, orc = [], []
    B0 = []
    for D in DEFAULTS:
        for P in PAGES:
            for ch in chunks(expr_lists, 400):
                corr.append(("expr", D, P, B0, ch))
            for site in ("def", "block", "text"):
                for ch in chunks(other_lists_allcfg, 300):
                    corr.append((site, D, P, B0, ch))
    for ci, (D, P) in enumerate(REPR_CFGS):
        for site in ("def", "block", "text"):
            # 4-filter lists: two of the representative configurations per run (all four over two seeds)
            if not ctx.quick and ci % 2 != ctx.seed % 2:
                continue
            for ch in chunks(other_lists_repr, 300):
                corr.append((site, D, P, B0, ch))
        for B in BUFS:
            for ch in chunks(other_lists_allcfg if not ctx.quick else other_lists_allcfg + other_lists_repr, 300):
                corr.append(("bufdef", D, P, B, ch))
    i = 0
    for D in DEFAULTS:
        for P in PAGES:
            for ch in chunks(oracle_lists, 300):
                orc.append(("expr", D, P, B0, ch, "import" if i % 3 == 0 else "context"))
                i += 1
    for (D, P) in REPR_CFGS:
        for site in ("def", "block", "text"):
            for ch in chunks(oracle_other, 300):
                orc.append((site, D, P, B0, ch, "import" if i % 3 == 0 else "context"))
                i += 1
        for B in BUFS:
            for ch in chunks(oracle_other, 300):
                orc.append(("bufdef", D, P, B, ch, "import" if i % 3 == 0 else "context"))
                i += 1
    small2 = list(all_lists(2))
    few = small2 if not ctx.quick else small2[::3]
    for D in DEFAULTS:
        for P in PAGES:
            # <%call expr>: the call expression goes through create_filter_callable([], e, True)
            corr.append(("call", D, P, B0, [[]]))
            orc.append(("call", D, P, B0, [[]], "import", (False, True)))
    for (D, P) in REPR_CFGS:
        for B in BUFS:
            for site in CACHED_SITES + ("bufblock", "anonbufblock"):
                for ch in chunks(few, 200):
                    corr.append((site, D, P, B, ch))
                    orc.append((site, D, P, B, ch, "import" if i % 2 else "context", (False, True)))
                    i += 1
            if B:
                # a def that is filtered but not buffered: buffer_filters are not applied (model = code)
                for ch in chunks(few, 200):
                    corr.append(("def", D, P, B, ch))
    # filter calls whose arguments come from an expression grammar (the text is re-emitted from the AST)
    nargs = 240 if ctx.quick else 6000
    arg_lists = []
    for _ in range(nargs):
        entry, _sens = gen_filter_call(rng)
        arg_lists.append(rng.choice([[entry], [entry], ["h", entry], [entry, "trim"], ["n", entry], [entry, "f"]]))
    for site in SITES:
        for ci, (D, P) in enumerate(REPR_CFGS):
            if site != "expr" and ci not in (0, 1):
                continue
            B = BUFS[ci] if site == "bufdef" else B0
            for ch in chunks(arg_lists, 200):
                corr.append((site, D, P, B, ch))
                orc.append((site, D, P, B, ch, "import" if i % 2 else "context", (False, True) if ci == 0 else (False,)))
                i += 1
    # every built-in flag name (alone and in pairs with every other entry) at every site, strict_undefined off AND on
    flag_lists = list(all_lists(2)) + [["decode.latin1"], ["decode.ascii", "h"], ["n", "decode.utf_8"], ["trim", "decode.cp1252"]]
    for (D, P) in REPR_CFGS + [(["str"], None)]:
        for site in SITES:
            for B in (BUFS if site == "bufdef" else [B0]):
                if site == "bufdef" and ctx.quick and B not in ([], ["trim", "f"]):
                    continue
                for ch in chunks(flag_lists, 200):
                    orc.append((site, D, P, B, ch, "import" if i % 2 == 0 else "context", (False, True)))
                    i += 1
    return corr, orc


def bytes_oracle(ctx):
    """decode.<enc> on a bytes value shows whether D (str) ran first: one template per case"""
    install_usermod()
    st = ctx.stream("oracle.pipeline", "oracle")
    xb = "café <b>".encode("utf8")
    lists = [["decode.utf8"], ["n", "decode.utf8"], ["decode.utf8", "h"], ["n", "decode.utf8", "f"], ["decode.utf8", "n"],
             ["decode.latin1"], ["n", "decode.latin1", "trim"], ["f"], ["n", "f"], ["decode.utf8", "f(1)"]]
    viol = []
    for D in DEFAULTS:
        for P in PAGES:
            for fs in lists:
                case = {"kind": "pipe", "site": "expr", "D": D, "P": P, "B": [], "fs": fs, "how": "context",
                        "x": {"bytes": xb.hex()}}
                ok, g, want = pipe_case_holds(case)
                st["cases"] += 1
                ctx.branch("oracle-pipe:bytes:%s" % want[0])
                if not ok:
                    viol.append(("pipeline-order:expr", case, {"rendered": g, "documented": want}, "oracle.pipeline"))
    return viol


def report_violations(ctx, viols):
    seen = set()
    by_site = {}
    for v in viols:
        by_site.setdefault(v[0], []).append(v)
    for grp in by_site.values():      # shortest case first (filter-call arguments are not shrunk further)
        grp.sort(key=lambda v: len(",".join(v[1].get("fs", []))) if isinstance(v[1], dict) and "fs" in v[1]
                 else len(str(v[1].get("input", ""))) if isinstance(v[1], dict) else 0)
    order = [v for grp in itertools.zip_longest(*by_site.values()) for v in grp if v is not None]
    for site, case, detail, stream in order[:60]:
        if len(ctx.violations) >= 12:
            break
        if isinstance(case, dict) and case.get("kind") == "pipe" and "input" not in case:
            try:
                case = shrink_pipe(case)
                ok, g, want = pipe_case_holds(case)
                detail = {"rendered": g, "documented": want}
            except Exception:
                pass
        elif isinstance(case, dict) and case.get("kind") == "scan":
            terms = case["terms"]
            try:
                small = shrink_str(case["input"], lambda s: scan_spec_violated(s, terms), 400)
                case = dict(case, input=small)
            except Exception:
                pass
        key = (site, repr(case.get("input") if isinstance(case, dict) else case))
        if key in seen:
            continue
        seen.add(key)
        ctx.violation(site, case, detail, stream)


def py_spec(terms, s):
    """Python twin of Spec.firstTopLevel (used only for shrinking/replay without Lean)"""
    opener = {"(": ")", "[": "]", "{": "}"}
    n, i, stack = len(s), 0, []
    while i < n:
        c = s[i]
        if c in "\"'":
            op = c * 3 if s.startswith(c * 3, i) else c
            i += len(op)
            while True:
                if i >= n:
                    return None
                if s[i] == "\\":
                    if i + 1 >= n:
                        return None
                    i += 2
                    continue
                if s.startswith(op, i):
                    i += len(op)
                    break
                i += 1
            continue
        if c == "#":
            j = s.find("\n", i)
            if j < 0:
                return None
            i = j + 1
            continue
        if not stack and c in terms:
            return i
        if c in opener:
            stack.append(opener[c])
        elif c in ")]}":
            if not stack or stack[-1] != c:
                return None
            stack.pop()
        i += 1
    return None


def scan_spec_violated(s, terms):
    q = py_spec(terms, s)
    if q is None:
        return False
    return real_until(True, terms, s, 0) != "ok %s %s %d" % (enc(s[:q]), enc(s[q]), q + 1)


def run(ctx):
    install_usermod()
    viols = []
    pool = multiprocessing.get_context("fork").Pool(NPROC)
    try:
        try:
            drv = ctx.driver()
            corr_jobs, orc_jobs = pipe_jobs(ctx)
            # ---------------- scanner jobs ---------------------------------------------------------------
            scan_jobs = []
            k = 4 if ctx.quick else 6
            scan_jobs.append(((), 0, TOKS, 1, 0, (0, 1)))
            for n in range(1, k + 1):
                if n <= 3:
                    scan_jobs.append(((), n, TOKS, 1, 0, (0, 1)))
                elif n <= 5:
                    for pre in itertools.product(TOKS, repeat=n - 3):
                        scan_jobs.append((pre, 3, TOKS, 1, 0, (0, 1)))
                else:
                    # k = 6: exhaustive for the expression terminators, a 1/8 phase for the filter part
                    for pre in itertools.product(TOKS, repeat=n - 3):
                        scan_jobs.append((pre, 3, TOKS, 1, 0, (1,)))
            fam = continued_literal_family()
            fam_jobs = [(ch, (0, 1), "scan-continued-literal") for ch in chunks(fam, 1500)]
            k7 = []
            if not ctx.quick:
                for pre in itertools.product(TOKS, repeat=3):
                    k7.append((pre, 3, TOKS, 8, ctx.seed % 8, (0,)))
                phase = ctx.seed % 64
                for pre in itertools.product(TOKS14, repeat=3):
                    k7.append((pre, 4, TOKS14, 64, phase, (1,)))
            ngen = 12000 if ctx.quick else 300000
            nmut = 12000 if ctx.quick else 300000
            per = 3000 if ctx.quick else 15000
            gen_jobs = [(ctx.rng.randrange(1 << 30), per, False) for _ in range(ngen // per)]
            mut_jobs = [(ctx.rng.randrange(1 << 30), per, True) for _ in range(nmut // per)]
            norc = 4000 if ctx.quick else 60000
            pero = 1000 if ctx.quick else 5000
            so_jobs = [(ctx.rng.randrange(1 << 30), pero) for _ in range(norc // pero)]
            ao_jobs = [(ctx.rng.randrange(1 << 30), 2500 if ctx.quick else 25000) for _ in range(4 if ctx.quick else 8)]
            ctx.log("jobs: %d pipeline-corr, %d pipeline-oracle, %d scanner-exhaustive (+%d k=7 phase), %d+%d generated, "
                    "%d scanner-oracle on %d processes" % (len(corr_jobs), len(orc_jobs), len(scan_jobs), len(k7),
                                                           len(gen_jobs), len(mut_jobs), len(so_jobs), NPROC))
            asyncs = []
            for a in corr_jobs:
                asyncs.append(("corr.pipeline." + a[0], "corr", pool.apply_async(task_pipe_corr, (a,))))
            for a in scan_jobs:
                asyncs.append(("corr.scanner.exhaustive", "corr", pool.apply_async(task_scan_exhaustive, (a,))))
            for a in fam_jobs:
                asyncs.append(("corr.scanner.continued-literals", "corr", pool.apply_async(task_scan_strings, (a,))))
            for a in k7:
                asyncs.append(("corr.scanner.sampled-phase", "corr", pool.apply_async(task_scan_exhaustive, (a,))))
            for a in gen_jobs:
                asyncs.append(("corr.scanner.generated", "corr", pool.apply_async(task_scan_generated, (a,))))
            for a in mut_jobs:
                asyncs.append(("corr.scanner.mutated", "corr", pool.apply_async(task_scan_generated, (a,))))
            oasyncs = []
            for a in orc_jobs:
                oasyncs.append(("oracle.pipeline", pool.apply_async(task_pipe_oracle, (a,))))
            for a in so_jobs:
                oasyncs.append(("oracle.scanner", pool.apply_async(task_scan_oracle, (a,))))
            for a in ao_jobs:
                oasyncs.append(("oracle.filter-arguments", pool.apply_async(task_arg_oracle, (a,))))
            corr_regexes(ctx, drv)
            corr_context_names(ctx, drv)
            for stream, kind, a in asyncs:
                r = a.get(timeout=3000)
                ctx.stream(stream, kind, exhaustive=stream in ("corr.scanner.exhaustive", "corr.scanner.continued-literals") or
                           (stream == "corr.pipeline.expr" and not ctx.quick))
                v = merge(ctx, stream, kind, r)
                if v:
                    ctx.stream("oracle.scanner-spec", "oracle")
                    viols.extend(v)
            # the exhaustive scanner stream doubles as an oracle stream (implementation vs lexical specification)
            ctx.stream("oracle.scanner-spec", "oracle")["cases"] += sum(
                ctx.streams[s]["cases"] for s in ("corr.scanner.exhaustive", "corr.scanner.sampled-phase", "corr.scanner.continued-literals")
                if s in ctx.streams)
            ctx.log("correspondence done: %d cases, %d disagreements" % (
                sum(s["cases"] for s in ctx.streams.values() if s["kind"] == "corr"), len(ctx.disagreements)))
        finally:
            # the oracle runs even when the correspondence raised
            try:
                for stream, a in oasyncs:
                    r = a.get(timeout=3000)
                    viols.extend(merge(ctx, stream, "oracle", r))
            except NameError:
                corr_jobs, orc_jobs = pipe_jobs(ctx)
                for a in orc_jobs[:40]:
                    viols.extend(merge(ctx, "oracle.pipeline", "oracle", task_pipe_oracle(a)))
            viols.extend(bytes_oracle(ctx))
            report_violations(ctx, viols)
            ctx.log("oracle done: %d cases, %d violations" % (
                sum(s["cases"] for s in ctx.streams.values() if s["kind"] == "oracle"), len(ctx.violations)))
    finally:
        pool.terminate()
        pool.join()
    ctx.sample({"stream": "corr.pipeline.expr", "template": '<%page expression_filter="g,n"/>${x | f(1), trim}',
                "default_filters": ["f", "g"], "documented": documented_chain("expr", ["f", "g"], "g,n", [], ["f(1)", "trim"])})
    ctx.notes.append("excluded syntax: Python >=3.12 f-strings reusing the enclosing quote inside {} (documented scanner limit)")


def replay(ctx, data):
    """re-run the recorded case on implementation and model; True iff the property holds on it"""
    install_usermod()
    case = data.get("case")
    if case is None:
        fd = data.get("first_disagreements") or []
        case = fd[0]["case"] if fd else None
    print("replaying", case)
    if not isinstance(case, dict):
        return False
    kind = case.get("kind")
    if kind == "pipe":
        ok, g, want = pipe_case_holds(case)
        print("rendered  :", g)
        print("documented:", want, "chain", documented_chain(case["site"], case["D"], case["P"], case["B"], case["fs"]))
        try:
            site, D, P, B, fs = case["site"], case["D"], case["P"], case["B"], case["fs"]
            real = real_exprs(site, D, P, B, [fs])[0]
            print("generated :", real)
            for q in model_requests(site, D, P, B, [fs])[0]:
                mo = ctx.driver().ask(q)
                print("model     :", dec(mo) if (mo == "-" or mo[:1].isdigit()) else mo)
        except Exception as e:
            print("model/impl comparison failed:", e)
        return ok
    if kind == "scan":
        s, terms = case["input"], case["terms"]
        print("impl :", real_until(True, terms, s, 0))
        try:
            print("model:", ctx.driver().ask("pipe scan 1 %s 0 %d %s" % (enc(s), len(terms), " ".join(enc(t) for t in terms))))
            print("spec :", ctx.driver().ask("pipe ftl %d %s" % (1 if "|" in terms else 0, enc(s))))
        except Exception as e:
            print("model unavailable:", e)
        return not scan_spec_violated(s, terms)
    if kind == "spec-twin":
        # the Lean specification and its Python twin disagreed on where the first top-level terminator is
        s, terms = case["input"], case["terms"]
        pq = py_spec(terms, s)
        print("python twin:", pq)
        try:
            o = ctx.driver().ask("pipe ftl %d %s" % (1 if "|" in terms else 0, enc(s)))
            print("lean spec  :", o)
            return o == ("none" if pq is None else str(pq))
        except Exception as e:
            print("model unavailable:", e)
            return False
    if kind == "argentry":
        ok, out = arg_entry_holds(case["input"])
        print("written    :", case["input"])
        print("re-emitted :", out)
        return ok
    if kind == "scanexpr":
        ok, detail = scan_case_holds(case)
        print("impl:", "ok" if ok else detail)
        return ok
    if kind in ("expr", "spec"):
        s, p = case["input"], case["p"]
        with patched_python_parsing():
            print("impl :", real_expr(s, p))
        try:
            print("model:", model_expr_to_real_form(s, ctx.driver().ask("pipe expr %s %d" % (enc(s), p))))
        except Exception as e:
            print("model unavailable:", e)
        return False
    return False


DRIVER_OPS = ["pipe"]   # per-area driver executable(s) this check talks to (built before any worker is forked)
