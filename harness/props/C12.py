"""C12 - runtime tracebacks and compile warnings map to template lines.

regen    : group TbCfg (tools/regen_tbcfg.py): does the per-file cache of RichTraceback._init keep the template
           source?  -> Generated/TbCfg.lean, named obligation `mods_cache_keeps_source`.
corr (a) : Lean printer model (Printer/Model.lean, driver op `printer run`) vs the real `PythonPrinter`, driven
           directly on an io.StringIO with random emission sequences: source_map, lineno, number of newlines
           in the stream, order of the physical lines, and the dense map computed by the *real*
           `ModuleInfo.get_module_source_metadata` on the real generated text.
corr (b) : instrumented codegen: the real `PythonPrinter` is wrapped while `Template(src)` compiles, the
           recorded event sequence is fed to the model, the model's map is compared with the `line_map` JSON
           of the real module; owners are derived from the node / callable being visited (independent of
           the `start_source` calls) and every generated line whose mark differs from its owner is
           classified by emitting call site (the list of such sites is pinned: KNOWN_UNMARKED); the Lean
           `wellMarked` walk is compared with that classification.
corr (c) : decision logic vs the real functions: one frame of `RichTraceback._init` incl. the line text picked
           from a source with exotic line-boundary characters (`printer tb`), the record that gives `.lineno`
           (`printer pick`), the template source attached to each record when several templates occur
           (`printer srcs`), the warnings hooks under the filter actions (`printer warn`), and which hook is
           installed at each regenerate / load step of `Template._compile_from_file` in its four situations
           (`printer plan`; probed behaviourally with probe warnings).
corr (d) : the Lean emission skeleton of codegen's visit*/write_* methods (Printer/Codegen.lean, `printer emitall`):
           the item list of a real compilation is rebuilt from the visited nodes and `emitAll items` is compared
           with the recorded event sequence, event by event.
oracle   : (no Lean)
           traceback        - hand-written witnesses (one per emission site, alternating templates, exotic line
                              boundaries) and generated template sets with ONE raising expression / statement
                              planted at every candidate position, one at a time, x four construction paths
                              (+ relative / un-normalised module_directory, modulename_callable absolute / relative);
                              which frames are template frames is told by the frame's own module globals;
                              RichTraceback records (file, line, source text, attached source), .lineno/.source,
                              text_error_template, html_error_template, format_exceptions=True, plain frames;
           warnings         - warning-triggering literals x positions x paths x filter actions;
           module-file reuse- module-directory templates constructed a second time in-process and in fresh
                              subprocesses (with / without byte code);
           foreign module   - a recent module file at the module path that belongs to another template file or
                              carries another magic number (second regeneration path);
           same URI in two lookups (module-id collision); RichTraceback built inside a template.
           edit + recompile  - (always run, fixed) EDIT_WITNESSES x EDIT_ROUTES: a module-directory / module_filename template
                              raises and a traceback is built, the FILE is rewritten so that its lines shift, it is
                              recompiled in the same process (lookup filesystem check / new Template) and the next
                              traceback (records, .lineno/.source, text / html error template, format_exceptions)
                              must name the lines of the file as it is now (seeded change C12l: line map cached per
                              module path and never dropped).
"""
from __future__ import annotations

import io
import json
import os
import re
import shutil
import sys
import tempfile
import traceback
import types
import warnings
import zlib

from harness.common import enc, dec

RULE = ("corr(a): random emission sequences over {start_source, writeline (incl. None, multi-line strings, "
        "indent/dedent keywords), write_blanks, write_indented_block (\\n, \\r\\n, with/without starting_lineno), "
        "metadata struct, close}, 1..40 events, every physical line carries a unique token; non-trivial = "
        "contains a block, a multi-line writeline or a repeated start_source. "
        "corr(b)/(d)/oracle: hand-written witness sets plus template sets built from a grammar (text incl. form feed, "
        "VT, FS/GS/RS, NEL, U+2028/9, lone CR, CRLF; ${} incl. multi-line; % if/elif/for/while with loop "
        "context; <% %>/<%! %> blocks with code on several lines; top-level and nested <%def> with filter / "
        "buffered / cached / raising default; named and anonymous <%block>; <%call> and <%self:def> with body and "
        "args; <%include> with args; <%namespace file>; <%inherit>; <%text filter>; <%page>; strict_undefined) with "
        "one fault slot active per case; every slot of every generated set is visited; x {string, file, lookup, "
        "module-directory} and three more spellings of the module-file route: module_directory relative to the working "
        "directory (plain / un-normalised, run inside the temp directory), module_filename through modulename_callable "
        "absolute / relative; a set whose benign form does not render is discarded (counted). "
        "corr(c): random (registered?, lineno, full map, template lines), record sequences over {A,B,C,plain}, "
        "warning sequences over {phase} x {file} x {text} x {always, once, error, ignore}, the four "
        "(module file up to date?, accepted?) situations. "
        "warnings oracle: literal {\"\\d\", 1 is 1, warnings.warn} x 21 positions (incl. python in attributes) x "
        "path x {always, once, error}; second construction / subprocess / foreign module file for the "
        "module-directory path. distinct = distinct (template set text, slot, path)")
ASSUMPTIONS = [
    "owner of a generated line: exact template line inside <% %>/<%! %>; otherwise the line on which the "
    "construct the line was emitted for begins (stub / inline def header / preamble / epilogue of a def or "
    "block: the tag's line; of render_body: the <%page> tag's line, else line 1)",
    "generated lines that cannot raise and are no call sites (try:, finally:, return '', pass, context.get, "
    "_push_frame/_pop_frame, writer/buffer bookkeeping, nextcaller save/restore, literal text writes, blank "
    "lines, def headers without defaults) are not observable in tracebacks or warnings; their mapping is "
    "reported in the evidence but is no violation",
    "under the filter action 'error' a warning becomes an exception where it first passes the filters; C12 "
    "requires that nothing is shown in addition and that the exception names the template and its line",
    "a compile warning is raised when CPython compiles: a reused module file whose byte code is cached may "
    "show none; when it is compiled again the warning must be shown once against the template",
    "an exception raised while <%inherit> is resolved is not passed through format_exceptions by mako; that "
    "view is not required for it",
    "traceback.extract_tb, linecache and the warnings filters themselves are outside the model",
]
REGEN = ["TbCfg"]     # RichTraceback._init: does the per-file cache keep the template source?
TRUSTED_EXTRA = [
    "C12: indentation written by PythonPrinter is not modelled (no newline in it); the text of generated lines "
    "is opaque to the model; the classification 'cannot raise' of generated boiler-plate lines is a fixed list "
    "in harness/props/C12.py (INERT)",
    "C12: tools/regen_tbcfg.py (reads the tuple stored in / unpacked from mods[filename] in RichTraceback._init)",
    "C12: the ground truth of the oracle (expected frame chains of the generated template sets) is computed by the "
    "generator in harness/props/C12.py; a mismatch in the number of template frames is reported as a broken tie",
]

# --------------------------------------------------------------------------------------------------
# model encoding


def ev_tok(ev):
    k = ev[0]
    if k == "S":
        return "S:%d" % ev[1]
    if k == "W":
        return "W:%s:%s" % ("n" if ev[2] is None else ev[2], enc(ev[1]))
    if k == "N":
        return "N"
    if k == "B":
        return "B:%d" % ev[1]
    if k == "I":
        return "I:%s:%s" % ("n" if ev[2] is None else ev[2], enc(ev[1]))
    if k == "M":
        return "M"
    if k == "C":
        return "C"
    raise ValueError(ev)


def parse_resp(r):
    d = {}
    for f in r.split(" "):
        k, _, v = f.partition("=")
        d[k] = v
    out = {"lineno": int(d["lineno"]), "wm": d["wm"] == "1", "nbp": d["nbp"] == "1", "buf": int(d["buf"]),
           "nl": int(d["nl"]), "err": d["err"] == "1"}
    out["map"] = {} if d["map"] == "-" else {int(a): int(b) for a, b in (p.split(":") for p in d["map"].split(","))}
    for k in ("full", "claimed", "marks"):
        out[k] = [] if d[k] == "-" else [int(x) for x in d[k].split(",")]
    out["owners"] = [] if d["owners"] == "-" else [None if x == "n" else int(x) for x in d["owners"].split(",")]
    return out


META_LINES = ['"""', "__M_BEGIN_METADATA", None, '__M_END_METADATA\n"""']   # None = the JSON line

# --------------------------------------------------------------------------------------------------
# corr (a): random emission sequences on the real PythonPrinter

KEYWORD_LINES = ["if x:", "else:", "try:", "finally:", "for a in b:", "def f():", "class C:", "while 1:  # c",
                 "elif y:", "except E:", "with a as b:", "pass", "return ''", "x = {", "# comment", "   ", "",
                 "lambda: 1", "d = {1:", "print('a:')", "if x: # t", "\tif z:"]


def gen_events(rng, allow_meta_mid):
    n = rng.randint(1, 40)
    evs = []
    tok = [0]

    def t():
        tok[0] += 1
        return "T%dq" % tok[0]
    for _ in range(n):
        r = rng.random()
        if r < 0.22:
            evs.append(("S", rng.choice([0, 1, 2, 3, 5, 8, 13, rng.randint(0, 400)])))
            if rng.random() < 0.25:
                evs.append(("S", rng.randint(0, 50)))
        elif r < 0.55:
            k = rng.random()
            if k < 0.5:
                txt = t() + " " + rng.choice(KEYWORD_LINES)
            elif k < 0.7:
                txt = rng.choice(KEYWORD_LINES)
                if txt.strip() and not txt.strip().startswith("#"):
                    txt = txt.replace("x", t(), 1) if "x" in txt else txt
            elif k < 0.9:
                parts = [t() + rng.choice(["", " (", ":", " \\"]) for _ in range(rng.randint(2, 4))]
                txt = "\n".join(parts)
            else:
                txt = rng.choice(["\n", "\n\n", "", "x = '''", "'''"])
            evs.append(("W", txt, rng.choice([None, None, 1, 2, 7])))
        elif r < 0.65:
            evs.append(("N",))
        elif r < 0.75:
            evs.append(("B", rng.choice([0, 1, 1, 2, 2, 3])))
        elif r < 0.95:
            nl = rng.randint(1, 5)
            sep = rng.choice(["\n", "\n", "\r\n", "\r\r\n"])
            lines = []
            for i in range(nl):
                lines.append(rng.choice(["", "  ", "\t", "    "]) + rng.choice([t(), t() + " = 1", "# c " + t(), "", t() + " \\",
                                                                                  "if " + t() + ":", "x = '''" + t()]))
            block = sep.join(lines) + rng.choice(["", "\n", sep])
            if rng.random() < 0.15:
                block = block.replace("\n", "\r", 1)          # a lone CR is no line end
            evs.append(("I", block, rng.choice([None, rng.randint(0, 300), rng.randint(1, 30)])))
        elif allow_meta_mid:
            evs.append(("M",))
        else:
            evs.append(("C",))
    return evs


class RealPrinterRun:
    """drives the real PythonPrinter (and the real write_metadata_struct) with an event list"""

    def __init__(self):
        from mako.pygen import PythonPrinter
        from mako import codegen
        self.PythonPrinter = PythonPrinter
        self.codegen = codegen

    def run(self, evs):
        buf = io.StringIO()
        p = self.PythonPrinter(buf)
        model_evs = []
        exc = None
        meta_at = None
        try:
            for ev in evs:
                k = ev[0]
                if k == "S":
                    p.start_source(ev[1])
                    model_evs.append(ev)
                elif k == "W":
                    p.writeline(ev[1])
                    model_evs.append(ev)
                elif k == "N":
                    p.writeline(None)
                    model_evs.append(ev)
                elif k == "B":
                    p.write_blanks(ev[1])
                    model_evs.append(ev)
                elif k == "I":
                    p.write_indented_block(ev[1], starting_lineno=ev[2])
                    model_evs.append(ev)
                elif k == "C":
                    p.close()
                    model_evs.append(ev)
                elif k == "M":
                    g = object.__new__(self.codegen._GenerateRenderMethod)
                    g.printer = p
                    g.compiler = types.SimpleNamespace(filename=None, uri="u", source_encoding="utf-8")
                    model_evs.append(("M",))
                    if meta_at is None:
                        meta_at = len(model_evs)
                    g.write_metadata_struct()
                    snap = json.dumps({"filename": None, "uri": "u", "source_encoding": "utf-8",
                                       "line_map": p.source_map})
                    for ml in META_LINES:
                        model_evs.append(("W", "{}", None, "json") if ml is None else ("W", ml, None))
                    del snap
        except Exception as e:  # the model answers err=1 for max() of an empty map
            exc = e
        return p, buf, model_evs, exc, meta_at


def corr_a(ctx):
    drv = ctx.driver()
    real = RealPrinterRun()
    from mako.template import ModuleInfo
    n = 4000 if ctx.quick else 40000
    st = ctx.stream("corr.printer_events")
    cases = []
    for i in range(n):
        evs = gen_events(ctx.rng, allow_meta_mid=(i % 5 == 0))
        if i % 2 == 0:
            evs = evs + [("M",)]
        evs = evs + [("C",)] if ctx.rng.random() < 0.8 else evs
        cases.append(evs)
    runs = [real.run(evs) for evs in cases]
    reqs = ["printer run " + " ".join(ev_tok(e) for e in r[2]) for r in runs]
    outs = drv.ask_many([q.rstrip() for q in reqs])
    # second request: the prefix up to and including the first M (what the JSON snapshot holds)
    pre_reqs, pre_idx = [], []
    for i, r in enumerate(runs):
        if r[4] is not None and r[3] is None:
            pre_reqs.append(("printer run " + " ".join(ev_tok(e) for e in r[2][:r[4]])).rstrip())
            pre_idx.append(i)
    pre_outs = dict(zip(pre_idx, drv.ask_many(pre_reqs)))
    for i, (evs, (p, buf, mevs, exc, meta_at), o) in enumerate(zip(cases, runs, outs)):
        st["cases"] += 1
        m = parse_resp(o)
        if exc is not None:
            ctx.branch("a:real-raised:" + type(exc).__name__)
            if not (isinstance(exc, ValueError) and m["err"]):
                ctx.disagree("corr.printer_events", {"input": [list(e) for e in evs], "what": "exception"}, o, repr(exc))
            continue
        if m["err"]:
            ctx.disagree("corr.printer_events", {"input": [list(e) for e in evs], "what": "model-err"}, o, "no exception")
            continue
        text = buf.getvalue()
        real_map = dict(p.source_map)
        bad = None
        if m["lineno"] != p.lineno:
            bad = ("lineno", m["lineno"], p.lineno)
        elif m["map"] != real_map:
            bad = ("source_map", m["map"], real_map)
        elif m["nl"] != text.count("\n"):
            bad = ("newlines-in-stream", m["nl"], text.count("\n"))
        elif m["buf"] != len(p.line_buffer):
            bad = ("line_buffer", m["buf"], len(p.line_buffer))
        else:
            # order of the physical lines: tokens in the real stream vs the model's claimed numbers
            toks = physical_tokens(mevs)
            want = [toks[c - 1] for c in m["claimed"]]
            got = [norm_tok(l) for l in text.split("\n")[:-1]]
            got = [JSON_LINE if w is JSON_LINE else g for w, g in zip(want, got)] + got[len(want):]
            if want != got:
                bad = ("stream-order", want, got)
        if bad is None and meta_at is not None:
            mp = parse_resp(pre_outs[i])
            try:
                md = ModuleInfo.get_module_source_metadata(text, full_line_map=True)
                if md["full_line_map"] != mp["full"]:
                    bad = ("full_line_map", mp["full"], md["full_line_map"])
                elif md["line_map"] != mp["map"]:
                    bad = ("line_map-json", mp["map"], md["line_map"])
                else:
                    # the dense map is the list of marks of the lines before the metadata block
                    if mp["full"] != mp["marks"][:len(mp["full"])] or len(mp["full"]) != mp["lineno"] - 1:
                        bad = ("dense-vs-marks", mp["full"], mp["marks"])
            except Exception as e:
                bad = ("get_module_source_metadata raised", None, repr(e))
        if bad:
            ctx.disagree("corr.printer_events", {"input": [list(e) for e in evs], "what": bad[0]}, bad[1], bad[2])
        kinds = {e[0] for e in evs}
        if "I" in kinds or any(e[0] == "W" and "\n" in e[1] for e in evs):
            ctx.nontriv(("a", tuple(map(tuple, evs))))
        ctx.branch("a:nbp=%d" % m["nbp"])
        ctx.branch("a:wm=%d" % m["wm"])
        if not m["nbp"]:
            ctx.branch("a:blank-overtakes-block-observed", int(m["claimed"] != sorted(m["claimed"])))
    ctx.sample({"stream": "corr.printer_events", "events": [list(e) for e in cases[1][:8]], "model": outs[1][:200]})


JSON_LINE = "<json>"


def norm_tok(line):
    # indentation / re-margining / tab expansion are not modelled: compare the tokens of the line
    return " ".join(line.split())


def physical_tokens(mevs):
    """expected (stripped) text of every physical line, in emission order"""
    res = []
    for ev in mevs:
        if ev[0] == "W" and len(ev) > 3:
            res.append(JSON_LINE)
        elif ev[0] == "W":
            res.extend(norm_tok(x) for x in ev[1].split("\n"))
        elif ev[0] == "B":
            res.extend([""] * ev[1])
        elif ev[0] == "I":
            for l in re.split(r"\r?\n", ev[1]):
                res.append(norm_tok(l))
    return res


# --------------------------------------------------------------------------------------------------
# instrumented codegen: record the emission events of a real compilation, with owners

INERT = [re.compile(p) for p in [
    r"^\s*$", r"^try:$", r"^finally:$", r"^pass$", r"^return ''$", r"^except KeyError:$",
    r"^def \w+\([^=]*\):$",
    r"^__M_caller = context\.caller_stack\._push_frame\(\)$", r"^context\.caller_stack\._pop_frame\(\)$",
    r"^context\._push_buffer\(\)$", r"^__M_buf = context\._pop_buffer\(\)$",
    r"^__M_buf, __M_writer = context\._pop_buffer_and_writer\(\)$",
    r"^__M_writer = context\.writer\(\)$", r"^__M_writer = context\._push_writer\(\)$",
    r"^__M_locals = __M_dict_builtin\(.*\)$", r"^__M_locals_builtin_stored = __M_locals_builtin\(\)$",
    r"^__M_locals\.update\(__M_dict_builtin\(.*\)$",
    r"^\w+ = context\.get\('\w+', UNDEFINED\)$", r"^\w+ = _import_ns\.get\('\w+', context\.get\('\w+', UNDEFINED\)\)$",
    r"^\w+ = _import_ns\.get\('\w+', UNDEFINED\)$", r"^if \w+ is UNDEFINED:$", r"^\w+ = context\['\w+'\]$",
    r"^loop = __M_loop = runtime\.LoopStack\(\)$", r"^loop = __M_loop\._exit\(\)$",
    r"^context\.caller_stack\.nextcaller = None$", r"^context\.caller_stack\.nextcaller = __M_nextcaller$",
    r"^__M_nextcaller = context\.caller_stack\.nextcaller$", r"^return \[[\w,]*\]$", r"^_import_ns = \{\}$",
    r"^__M_\w+ = \w+$", r"^return __M_buf\.getvalue\(\)$",
    r"^if 'parent' not in context\._data or not hasattr\(context\._data\['parent'\], '\w+'\):$",
    r"^__M_writer\('(?:[^'\\]|\\.)*'\)$", r'^__M_writer\("(?:[^"\\]|\\.)*"\)$',          # literal text
]]


def is_inert(line, site=None):
    if site == "visitExpression":
        return False                      # an expression is observable whatever it looks like
    return any(p.match(line) for p in INERT)


class Recorder:
    """patches mako.codegen for the duration of one compilation"""

    def __init__(self):
        from mako import codegen, pygen, parsetree
        self.codegen, self.pygen, self.parsetree = codegen, pygen, parsetree
        self.events = []        # (ev tuple, site, line text or None)
        self.inv_of = []        # per event: the invocation (dict) that wrote it directly
        self.invs = [{"id": 0, "kind": "module-header", "owner": None, "params": {}}]
        self.stack = [("module-header", None, self.invs[0])]
        self.ctl = []
        self.depth = 0
        self.body_owner = None

    # -- printer subclass
    def make_printer_class(rec):
        base = rec.pygen.PythonPrinter

        class P(base):
            def start_source(self, lineno):
                if rec.depth == 0:
                    rec.add((("S", lineno), rec.site(), None))
                return base.start_source(self, lineno)

            def write_blanks(self, num):
                rec.add((("B", num), rec.site(), None))
                return base.write_blanks(self, num)

            def write_indented_block(self, block, starting_lineno=None):
                rec.add((("I", block, starting_lineno), rec.site(), block))
                rec.depth += 1
                try:
                    return base.write_indented_block(self, block, starting_lineno=starting_lineno)
                finally:
                    rec.depth -= 1

            def writeline(self, line):
                if line is None:
                    rec.add((("N",), rec.site(), None))
                else:
                    rec.add((("W", line, rec.owner()), rec.site(), line))
                return base.writeline(self, line)
        return P

    def add(self, e):
        self.events.append(e)
        self.inv_of.append(self.stack[-1][2])

    def push(self, site, owner, params=None):
        inv = {"id": len(self.invs), "kind": site, "owner": owner, "params": params or {}}
        self.invs.append(inv)
        self.stack.append((site, owner, inv))

    def site(self):
        return self.stack[-1][0]

    def owner(self):
        return self.stack[-1][1]

    def wrap(self, cls, name, fn):
        orig = getattr(cls, name)
        rec = self

        def w(self_, *a, **k):
            tag = fn(self_, *a, **k)
            if tag is None:
                return orig(self_, *a, **k)
            rec.push(*tag)
            try:
                return orig(self_, *a, **k)
            finally:
                rec.stack.pop()
        w.__name__ = name
        self._saved.append((cls, name, orig))
        setattr(cls, name, w)

    def __enter__(self):
        cg = self.codegen
        G = cg._GenerateRenderMethod
        pt = self.parsetree
        rec = self
        self._saved = []
        self._saved.append((cg, "PythonPrinter", cg.PythonPrinter))
        cg.PythonPrinter = self.make_printer_class()

        def callable_owner(g, node):
            if g.in_def:
                return node.lineno
            pg = getattr(g.compiler, "pagetag", None)
            return pg.lineno if pg is not None else 1

        def t_render_callable(g, node, name, args, buffered, filtered, cached):
            o = callable_owner(g, node)
            if not g.in_def:
                rec.body_owner = o
            return ("callable", o, {"lineArg": node.lineno, "decorated": bool(g.in_def and node.decorator),
                                    "pushBuf": bool(buffered or filtered or cached)})
        self.wrap(G, "write_render_callable", t_render_callable)
        self.wrap(G, "write_toplevel", lambda g: ("module-header", None))
        self.wrap(G, "write_inherit", lambda g, node: ("inherit", node.lineno))
        self.wrap(G, "write_def_decl", lambda g, node, identifiers: ("stub", node.lineno))

        def t_inline(g, node, identifiers, nested):
            filtered = len(node.filter_args.args) > 0
            buffered = eval(node.attributes.get("buffered", "False"))
            cached = eval(node.attributes.get("cached", "False"))
            return ("inline-def", node.lineno, {"decorated": bool(node.decorator),
                                                "pushBuf": bool(buffered or filtered or cached)})
        self.wrap(G, "write_inline_def", t_inline)

        def t_cache(g, node_or_pagetag, name, args, buffered, identifiers, inline=False, toplevel=False):
            return ("cache-wrapper", node_or_pagetag.lineno if node_or_pagetag.lineno else rec.body_owner,
                    {"buffered": bool(buffered)})
        self.wrap(G, "write_cache_decorator", t_cache)

        def t_finish(g, node, buffered, filtered, cached, callstack=True):
            if isinstance(node, pt.TemplateNode):
                o = rec.body_owner
            else:
                o = node.lineno
            kind = "epilogue-filtered" if (buffered or filtered or cached) else "epilogue"
            return (kind, o, {"plain": not (buffered or filtered or cached), "callstack": bool(callstack),
                              "returns": bool(buffered or cached)})
        self.wrap(G, "write_def_finish", t_finish)

        orig_ns = G.write_namespaces

        def write_namespaces(g, namespaces):
            class Track(dict):
                def values(s):
                    for n in dict.values(s):
                        rec.push("namespace", n.lineno)
                        try:
                            yield n
                        finally:
                            rec.stack.pop()
            rec.push("namespace-boilerplate", None)
            try:
                return orig_ns(g, Track(namespaces))
            finally:
                rec.stack.pop()
        self._saved.append((G, "write_namespaces", orig_ns))
        G.write_namespaces = write_namespaces

        def t_ctl(g, node):
            if node.isend:
                opener = rec.ctl.pop() if rec.ctl else node
                return ("visitControlLine:end", opener.lineno, {"loop": bool(getattr(node, "has_loop_context", False))})
            if not node.is_ternary(node.keyword) or not rec.ctl:
                if node.keyword in ("if", "for", "while", "try", "with"):
                    rec.ctl.append(node)
            lv = cg.LoopVariable()
            node.accept_visitor(lv)
            return ("visitControlLine", node.lineno,
                    {"loop": bool(g.compiler.enable_loop and node.keyword == "for" and lv.detected)})
        self.wrap(G, "visitControlLine", t_ctl)
        self.wrap(G, "visitExpression", lambda g, node: ("visitExpression", node.lineno, {"nl": node.text.count("\n")}))
        self.wrap(G, "visitText", lambda g, node: ("visitText", node.lineno))
        self.wrap(G, "visitCode", lambda g, node: ("visitCode", node.lineno, {"block": node.text, "module": node.ismodule}))
        self.wrap(G, "visitIncludeTag", lambda g, node: ("visitIncludeTag", node.lineno))
        self.wrap(G, "visitBlockTag", lambda g, node: ("visitBlockTag", node.lineno, {"anon": bool(node.is_anonymous)}))
        self.wrap(G, "visitCallTag", lambda g, node: ("visitCallTag", node.lineno))
        self.wrap(G, "visitTextTag", lambda g, node: ("visitTextTag", node.lineno,
                                                       {"filtered": len(node.filter_args.args) > 0}))
        orig_meta = G.write_metadata_struct

        def write_metadata_struct(g):
            rec.push("metadata", None)
            rec.add((("M",), "metadata", None))
            try:
                return orig_meta(g)
            finally:
                rec.stack.pop()
        self._saved.append((G, "write_metadata_struct", orig_meta))
        G.write_metadata_struct = write_metadata_struct
        return self

    def __exit__(self, *a):
        for cls, name, orig in reversed(self._saved):
            setattr(cls, name, orig)
        return False


def refine_site(site, line):
    """name of the emitting call site of a generated line (site of the visit/write method + line shape)"""
    if line is None:
        return site
    if site == "callable" and line.startswith("@runtime._decorate_toplevel"):
        return "callable:decorator"
    if site == "callable" and line.startswith("def render_"):
        return "callable:header"
    if site == "callable":
        if line.startswith("raise NameError"):
            return "callable:preamble-strict"
        if "_mako_get_namespace(context" in line:
            return "callable:preamble-namespace"
        return "callable:preamble"
    if site == "inline-def":
        if line.startswith("@runtime._decorate_inline"):
            return "inline-def:decorator"
        if line.startswith("def "):
            return "inline-def:header"
        if line.startswith("raise NameError"):
            return "inline-def:preamble-strict"
        return "inline-def:preamble"
    if site == "stub":
        return "stub:header" if line.startswith("def ") else "stub:call"
    if site == "visitCallTag":
        if line.startswith("def ccall"):
            return "visitCallTag:ccall-header"
        if line.startswith("def body"):
            return "visitCallTag:body-header"
        if line.startswith("context.caller_stack.nextcaller = runtime"):
            return "visitCallTag:nextcaller"
        if line.startswith("raise NameError"):
            return "visitCallTag:preamble-strict"
        if line.startswith("__M_writer("):
            return "visitCallTag:call"
        return "visitCallTag:other"
    if site == "visitBlockTag":
        return "visitBlockTag:call"
    if site == "visitTextTag":
        return "visitTextTag:filter" if line.startswith("__M_writer(") else "visitTextTag:other"
    return site


def record_compile(text, uri="/t.html", filename=None, **kw):
    """compile `text` with the real mako under the recorder; returns (events, module source)"""
    from mako.template import Template
    with Recorder() as rec:
        t = Template(text, uri=uri, **kw)
    record_compile.last = rec
    return rec.events, t.code


def analyse_recording(events, m):
    """per generated line: (generated lineno, owner, mark, site, text, inert?) for every owned line"""
    rows = []
    g = 1
    for ev, site, line in events:
        k = ev[0]
        if k == "W":
            n = ev[1].count("\n") + 1
            for i in range(n):
                rows.append((g + i, ev[2], m["marks"][g + i - 1], refine_site(site, line), line, is_inert(line, site)))
            g += n
        elif k == "B":
            g += ev[1]
        elif k == "I":
            pieces = re.split(r"\r?\n", ev[1])
            for i, p in enumerate(pieces):
                o = None if ev[2] is None else ev[2] + i
                rows.append((g + i, o, m["marks"][g + i - 1], site + ":block-line", p, not p.strip()))
            g += len(pieces)
    return rows


# --------------------------------------------------------------------------------------------------
# template-set generator with ground truth

class Frame:
    """an expected template frame: template id, template line, role (names the violation site)"""
    __slots__ = ("tid", "line", "role")

    def __init__(self, tid, line, role):
        self.tid, self.line, self.role = tid, line, role

    def __repr__(self):
        return "%s:%s:%s" % (self.tid, self.line, self.role)


class Slot:
    def __init__(self, sid, kind, benign, faulty, frames, opts=None):
        self.sid, self.kind, self.benign, self.faulty = sid, kind, benign, faulty
        self.frames = frames          # list[Frame], outermost first, the last one is where the fault is
        self.opts = opts or {}

    def marker(self):
        return "\x00%d\x00" % self.sid


class TSet:
    """a set of templates; texts contain slot markers"""

    def __init__(self, rng):
        self.rng = rng
        self.templates = {}      # tid -> list of lines
        self.slots = []
        self.counter = 0
        self.main = "main"
        self.kinds = set()

    def fresh(self, p):
        self.counter += 1
        return "%s%d" % (p, self.counter)

    def new_slot(self, kind, benign, faulty, frames, opts=None):
        assert benign.count("\n") == faulty.count("\n")
        s = Slot(len(self.slots), kind, benign, faulty, frames, opts)
        self.slots.append(s)
        return s

    def text(self, tid, active=None):
        src = "\n".join(self.templates[tid])
        for s in self.slots:
            src = src.replace(s.marker(), s.faulty if (active is not None and s.sid == active) else s.benign)
        return src

    def uri(self, tid):
        return "/%s.html" % tid

    def height(self, tid):
        """number of physical lines of the template so far (slot texts may span lines)"""
        n = 0
        for l in self.templates[tid]:
            n += l.count("\n") + 1
            if "\x00" in l:
                for s in self.slots:
                    if s.marker() in l:
                        n += s.benign.count("\n")
        return n


class B:
    """builder for the body of one callable of one template"""

    def __init__(self, ts, tid, chain, toplevel, depth=0, in_block=False, in_call=False):
        self.ts, self.tid, self.chain, self.toplevel, self.depth = ts, tid, chain, toplevel, depth
        self.in_call = in_call        # somewhere inside the body of a <%call> (its defs are hoisted into ccall)
        self.in_block = in_block      # a <%block> lies between here and the enclosing def / call body / template body
        self.lines = ts.templates.setdefault(tid, [])

    @property
    def rng(self):
        return self.ts.rng

    def lineno(self):
        """line number of the line that the next add() creates"""
        return self.ts.height(self.tid) + 1

    def add(self, text):
        ln = self.lineno()
        self.lines.append(text)
        return ln

    def sub(self, chain_ext, toplevel=False, in_block=False, in_call=False):
        return B(self.ts, self.tid, self.chain + chain_ext, toplevel, self.depth + 1, in_block,
                 self.in_call or in_call)

    def here(self, role, line=None):
        return Frame(self.tid, self.lineno() if line is None else line, role)


# characters at which str.splitlines() breaks a line but which are no line ends for mako (only "\n" is)
EXOTIC_TEXT = ["form\x0cfeed", "vertical\x0btab", "fs\x1cgs\x1drs\x1e.", "nel\x85x", "ls\u2028x", "ps\u2029x", "lone\rcr",
               "cr cr lf\r\r", "crlf\r", "\x0c", "\u2028\u2029"]


def g_text(b):
    for _ in range(b.rng.randint(1, 2)):
        c = b.rng.choice(["plain text", "  indented text", "text with # hash", "## mako comment", "text \\",
                          "unicode é世", "a ${'inline'} b", ""] + EXOTIC_TEXT)
        b.add(c)
        if c.endswith("\\"):
            b.add("continued")        # the backslash swallows the newline: never put a tag/control line next
    b.ts.kinds.add("text")


def g_expr(b):
    rng = b.rng
    v = rng.random()
    if v < 0.55:
        ln = b.lineno()
        s = b.ts.new_slot("expr", "str(1)", "str(1/0)", b.chain + [Frame(b.tid, ln, "slot:expr")])
        b.add(rng.choice(["", "pre "]) + "${" + s.marker() + rng.choice(["", " | h", " |n"]) + "}" + rng.choice(["", " post"]))
    elif v < 0.8:
        # a multi-line expression: reported on the line where the construct begins
        ln = b.lineno()
        s = b.ts.new_slot("expr-multiline", "str(1 +\n   1)", "str(1 +\n   1/0)", b.chain + [Frame(b.tid, ln, "slot:expr-multiline")])
        b.add("${" + s.marker() + "}")
    else:
        # two expressions on one line, the second one faulty
        ln = b.lineno()
        s = b.ts.new_slot("expr", "str(2)", "str(2/0)", b.chain + [Frame(b.tid, ln, "slot:expr")])
        b.add("${'a'} mid ${" + s.marker() + "}")
    b.ts.kinds.add("expr")


def g_code(b):
    rng = b.rng
    form = rng.random()
    if form < 0.25:
        ln = b.lineno()
        s = b.ts.new_slot("code-oneline", "pass", "raise ValueError('m')", b.chain + [Frame(b.tid, ln, "slot:code")])
        b.add("<% " + s.marker() + " %>")
        b.ts.kinds.add("code")
        return
    same_line = form < 0.4          # the first statement stands on the line of `<%`
    indent = "" if same_line else rng.choice(["", "    ", "  "])
    n = rng.randint(1, 5)
    k = rng.randrange(n)
    first = b.lineno()
    stmts = []
    for i in range(n):
        if i == k:
            stmts.append(None)
        elif i == 0 and same_line:
            stmts.append("__a = 1")
        else:
            stmts.append(rng.choice(["__a = 1", "# comment", "__b = [1,\n" + indent + "    2]", ""]))
    off = (0 if same_line else 1) + sum(x.count("\n") + 1 for x in stmts[:k])
    s = b.ts.new_slot("code", "pass", rng.choice(["raise ValueError('m')", "__v = 1/0"]),
                      b.chain + [Frame(b.tid, first + off, "slot:code")])
    stmts[k] = s.marker()
    if same_line:
        b.add("<% " + stmts[0])
        for x in stmts[1:]:
            b.add(x)
        b.add("%>")
    else:
        b.add("<%")
        for x in stmts:
            b.add(indent + x)
        b.add("%>")
    b.ts.kinds.add("code")


def g_module_code(b):
    """<%! %> with a helper whose body raises on an exact line; called from the body"""
    rng = b.rng
    name = b.ts.fresh("mf")
    b.add("<%!")
    pad = rng.randint(0, 2)
    for _ in range(pad):
        b.add("    import os")
    b.add("    def %s():" % name)
    b.add("        __x = 1")
    ln = b.lineno()
    call = Frame(b.tid, 0, "call-expr")
    s = b.ts.new_slot("module-code", "__y = 2", "raise ValueError('m')", b.chain + [call, Frame(b.tid, ln, "slot:module-code")])
    b.add("        " + s.marker())
    b.add("        return ''")
    b.add("%>")
    g_text(b)
    call.line = b.lineno()
    b.add("${%s()}" % name)
    b.ts.kinds.add("module-code")


def g_control(b):
    rng = b.rng
    v = rng.random()
    if v < 0.4:
        ln = b.lineno()
        s = b.ts.new_slot("control-if", "1", "1/0", b.chain + [Frame(b.tid, ln, "slot:control")])
        b.add(rng.choice(["", "  "]) + "% if " + s.marker() + ":")
        gen_items(b, rng.randint(1, 2))
        if rng.random() < 0.4:
            # reached only when the `if` is false: make it a separate if/elif pair
            b.add("% endif")
            b.add("% if 0:")
            b.add("never")
            ln2 = b.lineno()
            s2 = b.ts.new_slot("control-elif", "0", "1/0", b.chain + [Frame(b.tid, ln2, "slot:control")])
            b.add("% elif " + s2.marker() + " or 1:")
            gen_items(b, 1)
        if rng.random() < 0.3:
            b.add("% else:")
            b.add("else branch")
        b.add("% endif")
    elif v < 0.8:
        ln = b.lineno()
        uses_loop = rng.random() < 0.5
        s = b.ts.new_slot("control-for" + ("-loop" if uses_loop else ""), "(1,)", "(1/0,)",
                          b.chain + [Frame(b.tid, ln, "slot:control")])
        b.add("% for __i in " + s.marker() + ":")
        if uses_loop:
            b.add("idx ${str(loop.index)}")
        gen_items(b, rng.randint(1, 2))
        b.add("% endfor")
    else:
        ln = b.lineno()
        s = b.ts.new_slot("control-while", "__w < 1", "__w < 1/0", b.chain + [Frame(b.tid, ln + 1, "slot:control")])
        b.add("<% __w = 0 %>")
        b.add("% while " + s.marker() + ":")
        b.add("<% __w += 1 %>")
        gen_items(b, 1)
        b.add("% endwhile")
    b.ts.kinds.add("control")


def tag_open(rng, text):
    """optionally spread a tag over several lines (the construct begins on its first line)"""
    if rng.random() < 0.15 and " " in text:
        head, _, rest = text.partition(" ")
        return head + "\n   " + rest
    return text


def g_def(b):
    rng = b.rng
    name = b.ts.fresh("d")
    top = b.toplevel
    ldef = b.lineno()
    call = Frame(b.tid, 0, "call-expr")
    ext = [call] + ([Frame(b.tid, ldef, "stub")] if top else [])
    variant = rng.random()
    attrs = ""
    extra = None
    if variant < 0.15:
        # filter applied in the epilogue of the def
        fs = b.ts.new_slot("def-filter", "trim", "__boomf", b.chain + ext + [Frame(b.tid, ldef, "def-epilogue"),
                                                                           Frame(b.tid, BOOM, "slot:module-code")])
        attrs = ' filter="%s"' % fs.marker()
        b.ts.need_boomf = True
    elif variant < 0.25:
        attrs = ' buffered="True"'
    elif variant < 0.33 and top and HAVE_BEAKER:
        attrs = ' cached="True"'
        ext = ext + [Frame(b.tid, ldef, "cache-wrapper"), Frame(b.tid, ldef, "cache-wrapper")]
    elif variant < 0.48 and not top and not b.in_block and not b.in_call:
        # default argument of a nested def: evaluated by the `def` statement in the enclosing callable
        ds = b.ts.new_slot("def-default", "1", "1/0", b.chain + [Frame(b.tid, ldef, "def-header")])
        extra = "a=" + ds.marker()
    b.add(tag_open(rng, '<%%def name="%s(%s)"%s>' % (name, extra or "", attrs)))
    inner = b.sub(ext)
    gen_items(inner, rng.randint(1, 3))
    b.add("</%def>")
    if rng.random() < 0.5:
        g_text(b)
    call.line = b.lineno()
    b.add("${%s()}" % name)
    b.ts.kinds.add("def" if top else "nested-def")


def g_block(b):
    rng = b.rng
    named = b.toplevel and rng.random() < 0.6
    lb = b.lineno()
    site = Frame(b.tid, lb, "block-site")
    attrs = ""
    if rng.random() < 0.15:
        fs = b.ts.new_slot("block-filter", "trim", "__boomf", b.chain + [site, Frame(b.tid, lb, "def-epilogue"),
                                                                       Frame(b.tid, BOOM, "slot:module-code")])
        attrs = ' filter="%s"' % fs.marker()
        b.ts.need_boomf = True
    pre = rng.choice(["", "", "lead "])
    if named:
        b.add(pre + '<%%block name="%s"%s>' % (b.ts.fresh("b"), attrs))
    else:
        b.add(pre + "<%%block%s>" % attrs)
    inner = b.sub([site], in_block=True)
    gen_items(inner, rng.randint(1, 3))
    b.add("</%block>")
    b.ts.kinds.add("block" if named else "anon-block")


def g_call(b):
    rng = b.rng
    name = b.ts.fresh("c")
    top = b.toplevel
    ldef = b.lineno()
    b.add('<%%def name="%s()">' % name)
    b.add("before")
    lcb = b.lineno()
    b.add("${caller.body()}")
    b.add("</%def>")
    g_text(b)
    lcall = b.lineno()
    style = rng.random()
    mid = [Frame(b.tid, ldef, "stub")] if top else []
    argdefault = None
    if style < 0.6 or not top:
        args = ""
        if rng.random() < 0.3:
            argdefault = b.ts.new_slot("call-arg-default", "1", "1/0",
                                       b.chain + [Frame(b.tid, lcall, "call-nextcaller"), Frame(b.tid, lcall, "ccall-header")])
            args = ' args="z=%s"' % argdefault.marker()
        b.add(tag_open(rng, '<%%call expr="%s()"%s>' % (name, args)))
        close = "</%call>"
    else:
        b.add("<%%self:%s>" % name)
        close = "</%%self:%s>" % name
        mid = []
    inner = b.sub([Frame(b.tid, lcall, "call-tag")] + mid + [Frame(b.tid, lcb, "caller-body-call")], in_call=True)
    gen_items(inner, rng.randint(1, 2))
    b.add(close)
    b.ts.kinds.add("call")


def g_include(b):
    rng = b.rng
    tid = b.ts.fresh("inc")
    linc = b.lineno()
    inc = Frame(b.tid, linc, "include")
    if rng.random() < 0.25:
        s = b.ts.new_slot("include-args", "1", "1/0", b.chain + [Frame(b.tid, linc, "slot:include-args")])
        b.add('<%%include file="/%s.html" args="q=%s"/>' % (tid, s.marker()))
        page = '<%page args="q=0"/>'
    else:
        b.add(tag_open(rng, '<%%include file="/%s.html"/>' % tid))
        page = None
    ib = B(b.ts, tid, b.chain + [inc], True, b.depth + 1)
    if page:
        ib.add(page)
    gen_items(ib, rng.randint(1, 3))
    b.ts.kinds.add("include")


def g_namespace(b):
    rng = b.rng
    tid = b.ts.fresh("ns")
    nsname = b.ts.fresh("n")
    b.add('<%%namespace name="%s" file="/%s.html"/>' % (nsname, tid))
    g_text(b)
    call = Frame(b.tid, 0, "call-expr")
    nb = B(b.ts, tid, b.chain + [call], True, b.depth + 1)
    nb.add("namespace file text")
    ldef = nb.lineno()
    nb.add('<%def name="nd()">')
    inner = nb.sub([])
    gen_items(inner, rng.randint(1, 3))
    nb.add("</%def>")
    call.line = b.lineno()
    b.add("${%s.nd()}" % nsname)
    b.ts.kinds.add("namespace")


def g_texttag(b):
    ln = b.lineno()
    if b.rng.random() < 0.5:
        s = b.ts.new_slot("texttag-filter", "trim", "__boomf", b.chain + [Frame(b.tid, ln, "texttag-epilogue"),
                                                                          Frame(b.tid, BOOM, "slot:module-code")])
        b.ts.need_boomf = True
        b.add('<%%text filter="%s">' % s.marker())
    else:
        b.add("<%text>")
    b.add("${not python} <% nor this %>")
    b.add("</%text>")
    b.ts.kinds.add("texttag")


def g_strict(b):
    """reference to an undefined name under strict_undefined: NameError raised in the preamble of the callable
    that declares the name (only generated directly in the body or directly in a top-level def / named block)"""
    if not getattr(b, "strict_owner", None):
        return g_expr(b)
    name = b.ts.fresh("undef")
    owner = b.strict_owner
    s = b.ts.new_slot("strict-undefined", "str(1)", name, b.chain + [Frame(b.tid, owner[0], owner[1])],
                      opts={"strict_undefined": True})
    b.add("${" + s.marker() + "}")
    b.ts.kinds.add("strict")


HAVE_BEAKER = False
BOOM = -1          # placeholder line of the `raise` inside the __boomf helper
BOOMF = "<%!\n    def __boomf(t):\n        raise ValueError('filter')\n%>"


def append_boomf(ts):
    """the raising filter is appended to every template (so that no other line moves)"""
    where = {}
    for tid in list(ts.templates):
        n = ts.height(tid)
        ts.templates[tid].append(BOOMF)
        where[tid] = n + 3
    for s in ts.slots:
        for f in s.frames:
            if f.line == BOOM:
                f.line = where[f.tid]


def gen_items(b, n):
    rng = b.rng
    for _ in range(n):
        r = rng.random()
        deep = b.depth >= 3
        if r < 0.12:
            g_text(b)
        elif r < 0.30:
            g_expr(b)
        elif r < 0.42:
            g_code(b)
        elif r < 0.54:
            g_control(b) if not deep else g_expr(b)
        elif r < 0.66:
            g_def(b) if not deep else g_code(b)
        elif r < 0.75:
            g_block(b) if not deep else g_expr(b)
        elif r < 0.83:
            g_call(b) if not deep else g_expr(b)
        elif r < 0.88:
            g_include(b) if (b.depth < 2 and b.toplevel) else g_expr(b)
        elif r < 0.92:
            g_namespace(b) if (b.depth < 2 and b.toplevel) else g_code(b)
        elif r < 0.95:
            g_texttag(b)
        elif r < 0.98:
            g_module_code(b) if b.toplevel else g_expr(b)
        else:
            g_text(b)


def gen_set(rng, shape=None):
    """one template set.  shape: 'plain' | 'page' | 'inherit' | 'strict'"""
    ts = TSet(rng)
    ts.need_boomf = False
    shape = shape or rng.choice(["plain", "plain", "page", "inherit", "strict"])
    ts.shape = shape
    ts.opts = {}
    if shape == "inherit":
        base = B(ts, "base", [], True)
        base.add("base line one")
        lhd = base.lineno()
        base.add('<%block name="hd">')
        base.add("base hd")
        base.add("</%block>")
        lsb = base.lineno()
        which = rng.choice(["self", "next"])
        base.add("${%s.body()}" % which)
        base.add("base end")
        mb = B(ts, "main", [Frame("base", lsb, "inherit-body-call")], True)
        if rng.random() < 0.5:
            g_text(mb)
        mb.add('<%inherit file="/base.html"/>')
        if rng.random() < 0.6:
            # override of the base's block: its call site is in the base
            lb = mb.lineno()
            mb.add('<%block name="hd">')
            inner = B(ts, "main", [Frame("base", lhd, "block-site")], False, 1, True)
            gen_items(inner, rng.randint(1, 2))
            mb.add("</%block>")
        gen_items(mb, rng.randint(2, 4))
    else:
        mb = B(ts, "main", [], True)
        page_line = None
        if shape == "page" or (shape == "strict" and rng.random() < 0.5):
            if rng.random() < 0.5:
                g_text(mb)
            page_line = mb.lineno()
            mb.add(rng.choice(['<%page args="pa=1"/>', "<%page/>", '<%page expression_filter="n"/>']))
        if shape == "strict":
            ts.opts["strict_undefined"] = True
            mb.strict_owner = (page_line or 1, "preamble-strict")
            gen_items(mb, rng.randint(0, 2))
            g_strict(mb)
            gen_items(mb, rng.randint(0, 2))
        else:
            gen_items(mb, rng.randint(2, 5))
    if ts.need_boomf:
        append_boomf(ts)
    return ts


def hand_set(templates, kind, benign, faulty, frames, opts=None, shape="hand"):
    """a hand-written template set with one slot; `{S}` marks the slot in the template texts"""
    ts = TSet(None)
    ts.shape = shape
    ts.opts = dict(opts or {})
    ts.need_boomf = False
    s = ts.new_slot(kind, benign, faulty, [Frame(t, l, r) for (t, l, r) in frames])
    for tid, text in templates.items():
        ts.templates[tid] = text.replace("{S}", s.marker()).split("\n")
    if faulty == "__boomf":
        append_boomf(ts)
    ts.kinds.add(kind)
    return ts


def witness_sets():
    """minimal witnesses, one per emission site that matters; run first in every tier"""
    W = []
    W.append(("expr", hand_set({"main": "a\nb\n${{S}}\nc"}, "expr", "1", "1/0", [("main", 3, "slot:expr")])))
    W.append(("exotic-line-boundaries", hand_set(
        {"main": "a\x0cb\x0bc\n\x1cd\x1de\x1ef\x85g\nh\u2028i\u2029j\rk\r\r\n${{S}}\nlast\x0c"}, "expr", "1", "1/0",
        [("main", 4, "slot:expr")])))
    W.append(("exotic-include", hand_set(
        {"main": "m\x0c\u2028\n<%include file=\"/inc.html\"/>\nlast", "inc": "i\x85\r\x0b\n\n${{S}}"}, "expr", "1", "1/0",
        [("main", 2, "include"), ("inc", 3, "slot:expr")])))
    W.append(("alternating-inherit", hand_set(
        {"main": "<%inherit file=\"/base.html\"/>\nm2\n<%block name=\"foo\">\n    ${parent.foo()}\n</%block>\nm6",
         "base": "b1\nb2\n<%block name=\"foo\">\n  b4\n    ${{S}}\n</%block>\nb7\n${self.body()}"},
        "expr", "1", "1/0", [("base", 3, "block-site"), ("main", 4, "call-expr"), ("base", 5, "slot:expr")])))
    W.append(("alternating-call-with-content", hand_set(
        {"main": "<%namespace name=\"q\" file=\"/ns.html\"/>\nm2\n<%call expr=\"q.wrap()\">\n  body\n  ${{S}}\n</%call>\nm7",
         "ns": "n1\n<%def name=\"wrap()\">\n  n3\n  ${caller.body()}\n</%def>\nn6\nn7\nn8"},
        "expr", "1", "1/0", [("main", 3, "call-tag"), ("ns", 4, "caller-body-call"), ("main", 5, "slot:expr")])))
    W.append(("code", hand_set({"main": "a\n<%\n  x = 1\n  {S}\n%>\nc"}, "code", "pass", "raise ValueError('m')",
                               [("main", 4, "slot:code")])))
    W.append(("control-for-loop", hand_set({"main": "a\nb\n% for i in ({S},):\n${str(loop.index)}\n% endfor\nc"}, "control-for-loop",
                                           "1", "1/0", [("main", 3, "slot:control")])))
    W.append(("stub", hand_set({"main": "a\nb\n<%def name=\"f()\">\n  ${{S}}\n</%def>\n${f()}\nlast"}, "expr", "1", "1/0",
                               [("main", 6, "call-expr"), ("main", 3, "stub"), ("main", 4, "slot:expr")])))
    W.append(("stub-page", hand_set({"main": "<%page args=\"pa=1\"/>\nb\n<%def name=\"f()\">\n  ${{S}}\n</%def>\n${f()}\nlast"},
                                    "expr", "1", "1/0",
                                    [("main", 6, "call-expr"), ("main", 3, "stub"), ("main", 4, "slot:expr")])))
    W.append(("strict-body", hand_set({"main": "a\nb\n${{S}}\nlast"}, "strict-undefined", "1", "undefined_name",
                                      [("main", 1, "preamble-strict")], {"strict_undefined": True})))
    W.append(("strict-page", hand_set({"main": "a\n<%page args=\"pa=1\"/>\n${{S}}\nlast"}, "strict-undefined", "1",
                                      "undefined_name", [("main", 2, "preamble-strict")], {"strict_undefined": True})))
    W.append(("block", hand_set({"main": "a\nb\n\n<%block name=\"bb\">\n  ${{S}}\n</%block>\nlast"}, "expr", "1", "1/0",
                                [("main", 4, "block-site"), ("main", 5, "slot:expr")])))
    W.append(("anon-block", hand_set({"main": "a\nb\n\n<%block>\n  ${{S}}\n</%block>\nlast"}, "expr", "1", "1/0",
                                     [("main", 4, "block-site"), ("main", 5, "slot:expr")])))
    W.append(("nested-def-default", hand_set(
        {"main": "a\n<%def name=\"o()\">\n t\n <%def name=\"p()\">\n  in p\n </%def>\n <%def name=\"q(x={S})\">\n  in q\n </%def>\n ${q()}\n</%def>\n${o()}\nlast"},
        "def-default", "1", "1/0", [("main", 12, "call-expr"), ("main", 2, "stub"), ("main", 7, "def-header")])))
    W.append(("call-arg-default", hand_set(
        {"main": "a\n<%def name=\"o()\">\n ${caller.body()}\n</%def>\nb\nc\n<%call expr=\"o()\" args=\"z={S}\">\n body\n</%call>\nlast"},
        "call-arg-default", "1", "1/0", [("main", 7, "call-nextcaller"), ("main", 7, "ccall-header")])))
    W.append(("def-filter", hand_set(
        {"main": "a\n<%def name=\"o()\" filter=\"{S}\">\n t\n ${1}\n more\n</%def>\n${o()}\nlast"},
        "def-filter", "trim", "__boomf", [("main", 7, "call-expr"), ("main", 2, "stub"), ("main", 2, "def-epilogue"),
                                          ("main", BOOM, "slot:module-code")])))
    W.append(("texttag-filter", hand_set(
        {"main": "a\nb\n<%text filter=\"{S}\">\n t\n more\n</%text>\nlast"},
        "texttag-filter", "trim", "__boomf", [("main", 3, "texttag-epilogue"), ("main", BOOM, "slot:module-code")])))
    W.append(("inherit-missing", hand_set(
        {"main": "a\nb\n<%inherit file=\"/{S}.html\"/>\nlast", "base": "base\n${self.body()}"},
        "inherit-file", "base", "nonexistent", [("main", 3, "inherit")])))
    W.append(("include", hand_set({"main": "a\nb\n<%include file=\"/inc.html\"/>\nlast", "inc": "i\n${{S}}"},
                                  "expr", "1", "1/0", [("main", 3, "include"), ("inc", 2, "slot:expr")])))
    W.append(("namespace-missing", hand_set(
        {"main": "a\n<%namespace name=\"q\" file=\"/{S}.html\"/>\nb\n${q.nd()}", "ns": "<%def name=\"nd()\">x</%def>"},
        "namespace-file", "ns", "nonexistent",
        [("main", 1, "preamble-namespace"), ("main", None, "namespace-boilerplate"), ("main", 2, "namespace")])))
    if HAVE_BEAKER:
        W.append(("cached-def", hand_set(
            {"main": "a\n<%def name=\"o()\" cached=\"True\">\n t\n ${{S}}\n more\n</%def>\n${o()}\nlast"},
            "expr", "1", "1/0", [("main", 7, "call-expr"), ("main", 2, "stub"), ("main", 2, "cache-wrapper"),
                                 ("main", 2, "cache-wrapper"), ("main", 4, "slot:expr")])))
    return W


# --------------------------------------------------------------------------------------------------
# oracle: tracebacks

PATHS = ["string", "file", "lookup", "moddir"]
# the module-file routes once more: module_directory spelled relative to the working directory (plain and
# un-normalised), and module_filename via TemplateLookup(modulename_callable=...) absolute and relative
EXTRA_PATHS = ["moddir-rel", "modfile-abs", "modfile-rel"]


class Env:
    """materialises one (template set, active slot) on one construction path"""

    def __init__(self, root):
        self.root = root
        self.n = 0
        self.home = os.getcwd()

    def restore(self):
        """paths relative to the working directory are resolved when a template is constructed - also the
        templates an <%include> constructs while rendering: a case with a relative module location runs
        inside its temp directory; this brings the process back"""
        if os.getcwd() != self.home:
            os.chdir(self.home)

    def build(self, ts, active, path, format_exceptions=False):
        from mako.template import Template
        from mako.lookup import TemplateLookup
        opts = dict(ts.opts)
        if active is not None:
            opts.update(ts.slots[active].opts)
        if format_exceptions:
            opts["format_exceptions"] = True
        texts = {tid: ts.text(tid, active) for tid in ts.templates}
        if path == "string":
            if len(texts) == 1 and (self.n % 2 == 0):
                self.n += 1
                t = Template(texts[ts.main], **opts)
                return t, {ts.main: t.uri}, texts
            self.n += 1
            lk = TemplateLookup(**opts)
            for tid, tx in texts.items():
                lk.put_string(ts.uri(tid), tx)
            return lk.get_template(ts.uri(ts.main)), {tid: ts.uri(tid) for tid in texts}, texts
        self.n += 1
        d = os.path.join(self.root, "t%d" % self.n)
        os.makedirs(d)
        for tid, tx in texts.items():
            with open(os.path.join(d, tid + ".html"), "w", encoding="utf-8") as f:
                f.write(tx)
        names = {tid: os.path.join(d, tid + ".html") for tid in texts}
        self.last_dir = d
        if path == "file":
            lk = TemplateLookup(directories=[d], **opts)
            return Template(filename=names[ts.main], lookup=lk, **opts), names, texts
        if path == "lookup":
            lk = TemplateLookup(directories=[d], **opts)
            return lk.get_template(ts.uri(ts.main)), names, texts
        if path == "moddir":
            lk = TemplateLookup(directories=[d], module_directory=os.path.join(d, "mods"), **opts)
            return lk.get_template(ts.uri(ts.main)), names, texts
        if path == "moddir-rel":
            os.chdir(d)
            os.makedirs(os.path.join(d, "sub"), exist_ok=True)
            spelling = "mods_rel" if self.n % 2 else "./sub/../mods_rel"
            lk = TemplateLookup(directories=[d], module_directory=spelling, **opts)
            return lk.get_template(ts.uri(ts.main)), names, texts
        if path in ("modfile-abs", "modfile-rel"):
            base = os.path.join(d, "mc") if path == "modfile-abs" else "mc"
            if path == "modfile-rel":
                os.chdir(d)

            def modname(filename, uri, _base=base):
                return os.path.join(_base, re.sub(r"\W", "_", uri) + ".py")
            lk = TemplateLookup(directories=[d], modulename_callable=modname, **opts)
            return lk.get_template(ts.uri(ts.main)), names, texts
        raise ValueError(path)


def construct_again(env, ts, needs_render=False):
    """a second construction of the module-directory template just built: the module file is up to date and reused"""
    from mako.lookup import TemplateLookup
    d = env.last_dir
    lk = TemplateLookup(directories=[d], module_directory=os.path.join(d, "mods"), **ts.opts)
    t = lk.get_template(ts.uri(ts.main))
    if needs_render:
        t.render_unicode()
    return t


SUBPROCESS_SCRIPT = r"""
import sys, json, warnings
sys.path.insert(0, sys.argv[1])
from mako.lookup import TemplateLookup
d, render, sub = sys.argv[2], sys.argv[3] == "1", sys.argv[4]
with warnings.catch_warnings(record=True) as rec:
    warnings.simplefilter("always")
    t = TemplateLookup(directories=[d], module_directory=d + "/mods").get_template("/main.html")
    if render:
        t.render_unicode()
print(json.dumps([[w.filename, w.lineno] for w in rec if sub in str(w.message)]))
"""


def construct_in_subprocess(env, needs_render, msgsub, drop_bytecode):
    """the same in a fresh interpreter; with `drop_bytecode` the byte code cache is removed and not rewritten, so
    that the import system compiles the reused module file again"""
    import subprocess
    from harness.common import REPO
    d = env.last_dir
    e = dict(os.environ)
    if drop_bytecode:
        shutil.rmtree(os.path.join(d, "mods", "__pycache__"), ignore_errors=True)
        e["PYTHONDONTWRITEBYTECODE"] = "1"
    p = subprocess.run([sys.executable, "-c", SUBPROCESS_SCRIPT, REPO, d, "1" if needs_render else "0", msgsub],
                       stdout=subprocess.PIPE, stderr=subprocess.PIPE, env=e, timeout=120)
    if p.returncode != 0:
        raise RuntimeError("subprocess failed: " + p.stderr.decode()[-1500:])
    return [tuple(x) for x in json.loads(p.stdout.decode().strip().split("\n")[-1])]


TEXT_FRAME = re.compile(r'^  File "(.*)", line (\d+), in (.*)$')
HTML_LOC = re.compile(r'<div class="location">(.*?), line (\d+):</div>')


def parse_html_tb(out):
    """[(filename, lineno, source text)] of the per-frame stack trace of the HTML error page, traceback order"""
    import html as _html
    res = []
    ms = list(HTML_LOC.finditer(out))
    for i, m in enumerate(ms):
        seg = out[m.end(): ms[i + 1].start() if i + 1 < len(ms) else len(out)]
        c = re.search(r'<td class="code">.*?<pre>(.*?)</pre>', seg, re.S) or \
            re.search(r'<div class="sourceline">(.*?)</div>', seg, re.S)
        src = _html.unescape(re.sub(r"<[^>]*>", "", c.group(1))) if c else None
        res.append((m.group(1), int(m.group(2)), src))
    return res[::-1]


def parse_text_tb(out):
    lines = out.split("\n")
    res = []
    i = 0
    while i < len(lines):
        m = TEXT_FRAME.match(lines[i])
        if m:
            src = lines[i + 1].strip() if i + 1 < len(lines) else ""
            res.append((m.group(1), int(m.group(2)), m.group(3), src))
            i += 2
        else:
            i += 1
    return res


def expected_frames(ts, slot, names, texts):
    exp = []
    for f in slot.frames:
        lines = texts[f.tid].split("\n")
        src = lines[f.line - 1] if (f.line is not None and 1 <= f.line <= len(lines)) else None
        exp.append((names[f.tid], f.line, src, f.role))
    return exp


def check_traceback(ts, slot, path, env, views=("records", "text", "html", "format_exceptions")):
    """render the set with `slot` active on `path`; returns a list of problems
    (site, detail dict) - empty when every view reports every frame as the ground truth says"""
    try:
        return _check_traceback(ts, slot, path, env, views)
    finally:
        env.restore()


def _check_traceback(ts, slot, path, env, views):
    from mako import exceptions
    import mako.template as MT
    problems = []
    t, names, texts = env.build(ts, slot.sid, path)
    exp = expected_frames(ts, slot, names, texts)
    try:
        t.render_unicode()
        return [("harness:no-exception", {"slot": slot.kind})], None
    except Exception:
        et, ev, tb = sys.exc_info()
        raw = traceback.extract_tb(tb)
        try:
            rt = exceptions.RichTraceback()
        except Exception as e:
            return [("richtraceback-raised", {"error": repr(e)})], None
        text_out = exceptions.text_error_template().render_unicode() if "text" in views else None
        html_out = exceptions.html_error_template().render_unicode(full=False, css=False) if "html" in views else None
        # which frames run code of a generated template module - told by the module's own globals, not by
        # mako's registry
        registered = []
        tbi = tb
        while tbi is not None:
            g = tbi.tb_frame.f_globals
            registered.append("_magic_number" in g and "_template_uri" in g and "render_body" in g)
            tbi = tbi.tb_next
    recs = rt.records
    got_t = []
    for r, fr, reg in zip(recs, raw, registered):
        if reg != (r[4] is not None):
            problems.append(("template-frame-reported-as-python-frame" if reg else "python-frame-reported-as-template-frame",
                             {"file": os.path.basename(fr.filename), "line": fr.lineno, "path": path}))
        if r[4] is None:
            if (r[0], r[1], r[2], r[3]) != (fr.filename, fr.lineno, fr.name, fr.line or "") or any(x is not None for x in r[4:8]):
                problems.append(("plain-frame-changed", {"raw": list(fr), "record": list(r[:4])}))
        else:
            got_t.append((r[4], r[5], r[6], r[1], r[3]))
            tsrc = {names[tid]: texts[tid] for tid in texts}.get(r[4])
            if tsrc is not None and r[7] != tsrc:
                other = [tid for tid in texts if texts[tid] == r[7]]
                problems.append(("record-source-of-another-template", {"frame_of": r[4], "line": r[5],
                                                                       "source_is_that_of": other or "?"}))
            if (r[5] and r[7] is not None and (tsrc is None or r[7] == tsrc)
                    and 1 <= r[5] <= len(r[7].split("\n")) and r[6] != r[7].split("\n")[r[5] - 1]):
                problems.append(("record-source-text-not-line-of-source", {"line": r[5], "text": r[6],
                                                                           "line_of_source": r[7].split("\n")[r[5] - 1]}))
    if len(recs) != len(raw):
        problems.append(("record-count", {"records": len(recs), "raw": len(raw)}))
    summary = {"expected": [(e[0] if False else os.path.basename(str(e[0])), e[1], e[3]) for e in exp],
               "got": [(os.path.basename(str(g[0])), g[1], g[3], g[4][:60]) for g in got_t]}
    if any(p[0].endswith("-frame") for p in problems):
        return problems, summary            # the other comparisons presuppose the classification
    if len(got_t) != len(exp):
        problems.append(("harness:frame-count", summary))
        return problems, summary
    bad_idx = {}
    for i, (e, g) in enumerate(zip(exp, got_t)):
        if e[1] is None:
            continue            # no single owner (boiler-plate shared by several constructs): any line accepted
        if (g[0], g[1], g[2]) != (e[0], e[1], e[2]):
            what = "line0" if g[1] == 0 else ("filename" if g[0] != e[0] else ("line" if g[1] != e[1] else "source"))
            bad_idx[i] = what
            problems.append(("frame:" + e[3], {"reported": what, "expected_line": e[1], "got_line": g[1],
                                               "got_source": g[2], "generated": g[4][:80], "view": "records"}))
    # .lineno / .source: the innermost template frame
    inner = exp[-1]
    own_src = texts[slot.frames[-1].tid]
    if inner[1] is not None and rt.lineno == inner[1] and rt.source != own_src and rt.source in texts.values():
        problems.append(("richtraceback-source-of-another-template",
                         {"lineno": rt.lineno, "source_is_that_of": [t for t in texts if texts[t] == rt.source]}))
    elif inner[1] is not None and (rt.lineno != inner[1] or rt.source != texts[slot.frames[-1].tid]):
        problems.append(("richtraceback-lineno:" + inner[3], {"expected_line": inner[1], "got_line": rt.lineno,
                                                              "source_is_template": rt.source == texts[slot.frames[-1].tid]}))
    # text view: every frame in order
    tmpl_pos = [i for i, r in enumerate(recs) if r[4] is not None]

    def view_check(view, frames_fn_ln):
        # frames_fn_ln: list of (filename, lineno) in traceback order for *all* frames
        if len(frames_fn_ln) != len(recs):
            problems.append(("view:%s:frame-count" % view, {"shown": len(frames_fn_ln), "records": len(recs)}))
            return
        for k, pos in enumerate(tmpl_pos):
            e = exp[k]
            if e[1] is None:
                continue
            fn, ln = frames_fn_ln[pos][0], frames_fn_ln[pos][1]
            if (fn, ln) != (e[0], e[1]) and k not in bad_idx:
                problems.append(("view:%s:%s" % (view, e[3]), {"expected": [e[0], e[1]], "got": [fn, ln]}))
        for pos, (r, fr) in enumerate(zip(recs, raw)):
            if r[4] is None and (frames_fn_ln[pos][0], frames_fn_ln[pos][1]) != (fr.filename, fr.lineno):
                problems.append(("view:%s:plain-frame-changed" % view, {"raw": [fr.filename, fr.lineno],
                                                                       "got": list(frames_fn_ln[pos][:2])}))
    if text_out is not None:
        tf = parse_text_tb(text_out)
        view_check("text", tf)
        if len(tf) == len(recs):
            for k, pos in enumerate(tmpl_pos):
                e = exp[k]
                if e[1] is not None and k not in bad_idx and e[2] is not None and tf[pos][3] != e[2].strip():
                    problems.append(("view:text-source:" + e[3], {"expected": e[2].strip(), "got": tf[pos][3]}))
    if html_out is not None:
        hf = parse_html_tb(html_out)
        view_check("html", hf)
        if len(hf) == len(recs):
            for k, pos in enumerate(tmpl_pos):
                e = exp[k]
                if (e[1] is not None and k not in bad_idx and e[2] is not None and hf[pos][2] is not None
                        and " ".join(hf[pos][2].split()) != " ".join(e[2].split())):
                    problems.append(("view:html-source:" + e[3], {"expected": e[2].strip(), "got": hf[pos][2]}))
    if "format_exceptions" in views:
        t2, names2, texts2 = env.build(ts, slot.sid, path, format_exceptions=True)
        exp2 = expected_frames(ts, slot, names2, texts2)
        try:
            out = t2.render_unicode()
        except Exception as e:
            problems.append(("format_exceptions-raised", {"error": repr(e)[:200]}))
        else:
            hf3 = parse_html_tb(out)
            hf = [(a, b) for a, b, c in hf3]
            # the traceback starts inside the runtime here: compare the template frames only
            reg_names = {e[0] for e in exp2}
            shown_t = [x for x in hf if x[0] in reg_names]
            shown_src = [x[2] for x in hf3 if x[0] in reg_names]
            want = [(e[0], e[1]) for e in exp2]
            if len(shown_t) != len(want):
                # frames whose template line is shown with generated coordinates are not recognisable: count only
                if not bad_idx:
                    problems.append(("view:format_exceptions:frame-count", {"shown": shown_t, "expected": want}))
            else:
                for k, (w, g) in enumerate(zip(want, shown_t)):
                    if w[1] is not None and w != g and k not in bad_idx:
                        problems.append(("view:format_exceptions:" + exp2[k][3], {"expected": list(w), "got": list(g)}))
                    elif (w[1] is not None and k not in bad_idx and exp2[k][2] is not None and shown_src[k] is not None
                          and " ".join(shown_src[k].split()) != " ".join(exp2[k][2].split())):
                        problems.append(("view:format_exceptions-source:" + exp2[k][3],
                                         {"expected": exp2[k][2].strip(), "got": shown_src[k]}))
    return problems, summary


def benign_ok(ts, path, env):
    """the set with no slot active must render without raising (guards against generator accidents)"""
    try:
        t, names, texts = env.build(ts, None, path)
        t.render_unicode()
        return True
    except Exception:
        return False
    finally:
        env.restore()


def case_of(ts, slot, path, extra=None):
    c = {"input": ts.text(ts.main, slot.sid), "path": path, "slot": slot.kind,
         "templates": {tid: ts.text(tid, slot.sid) for tid in ts.templates if tid != ts.main},
         "expected_frames": [[f.tid, f.line, f.role] for f in slot.frames], "options": dict(ts.opts, **slot.opts)}
    if extra:
        c.update(extra)
    return c


def set_size(ts):
    return sum(len(ts.text(t)) for t in ts.templates)


class Collector:
    """keeps, per violation site, the smallest witness seen; reports them at the end"""

    def __init__(self, ctx, stream):
        self.ctx, self.stream = ctx, stream
        self.best = {}

    def add(self, site, size, case, detail):
        cur = self.best.get(site)
        self.ctx.branch("violation-site:" + site)
        if cur is None or size < cur[0]:
            self.best[site] = (size, case, detail)

    def flush(self):
        # smallest witness first: the runner writes the first unknown violation as the replay
        for site, (size, case, detail) in sorted(self.best.items(), key=lambda kv: (kv[1][0], kv[0])):
            self.ctx.violation(site, case, detail, self.stream)


def site_key(problem):
    site, d = problem
    rep = d.get("reported")
    if site.startswith("frame:") and rep == "line0":
        return site + ":line0"
    return site


def oracle_tb(ctx, env):
    global HAVE_BEAKER
    try:
        import beaker  # noqa
        HAVE_BEAKER = True
    except ImportError:
        HAVE_BEAKER = False
    st = ctx.stream("oracle.traceback", "oracle")
    col = Collector(ctx, "oracle.traceback")
    sets = [(n, ts) for n, ts in witness_sets()]
    nsets = 45 if ctx.quick else 260
    for i in range(nsets):
        sets.append(("gen%d" % i, gen_set(ctx.rng)))
    discarded = 0
    for i, (name, ts) in enumerate(sets):
        hand = not name.startswith("gen")
        allp = PATHS + EXTRA_PATHS
        if hand:
            cand = allp
        elif ctx.quick:
            cand = [allp[i % len(allp)]]
        else:
            cand = PATHS + [EXTRA_PATHS[i % len(EXTRA_PATHS)]]
        ok_paths = [p for p in cand if benign_ok(ts, p, env)]
        if not ok_paths:
            discarded += 1
            ctx.branch("oracle:set-discarded(benign version raises)")
            continue
        for k in ts.kinds:
            ctx.branch("oracle:construct:" + k)
        ctx.branch("oracle:shape:" + ts.shape)
        for slot in ts.slots:
            for path in ok_paths:
                # all four views on the hand-written witnesses and on a share of the generated cases
                full = hand or ((i + slot.sid) % (3 if ctx.quick else 2) == 0)
                views = ("records", "text", "html", "format_exceptions") if full else ("records", "text")
                try:
                    probs, summ = check_traceback(ts, slot, path, env, views)
                except Exception as e:
                    ctx.broke("oracle:harness-exception", traceback.format_exc())
                    continue
                st["cases"] += 1
                ctx.branch("oracle:slot:" + slot.kind)
                ctx.branch("oracle:path:" + path)
                ctx.branch("oracle:depth:%d" % len(slot.frames))
                ctx.nontriv((ts.text(ts.main, slot.sid), slot.sid, path))
                for p in probs:
                    if p[0] == "format_exceptions-raised" and slot.kind == "inherit-file":
                        ctx.branch("oracle:format_exceptions-not-applied-to-inherit-resolution")
                        continue
                    if p[0].startswith("harness:"):
                        ctx.branch("oracle:ground-truth-mismatch:" + p[0])
                        ctx.broke("oracle:ground-truth " + p[0], json.dumps({"detail": p[1], "case": case_of(ts, slot, path)})[:6000])
                        continue
                    col.add(site_key(p), set_size(ts), case_of(ts, slot, path), p[1])
    if discarded > len(sets) // 4:
        ctx.broke("oracle:too-many-discarded-sets", "%d of %d template sets do not render in their benign form" % (discarded, len(sets)))
    col.flush()
    ctx.sample({"stream": "oracle.traceback", "set": sets[len(witness_sets())][1].text("main")[:400]})


# --------------------------------------------------------------------------------------------------
# oracle: warnings

LITERALS = {
    # kind: (python text, substring of the message, stage at which CPython raises it)
    "escape": ('"\\d"', "invalid escape sequence", "parse"),
    "is": ("(1 is 1)", '"is" with', "compile"),
}

PREFIXES = [
    [],
    ["first line", "second line"],
    ["<%def name=\"pre_d()\">", "  in def ${1}", "</%def>", "${pre_d()}"],
    ["<%", "    pre_x = 1", "    pre_y = [1,", "        2]", "%>", "text"],
    ["% for pre_i in (1, 2):", "  row ${pre_i}", "% endfor"],
    ["<%block name=\"pre_b\">", "blk", "</%block>", "", ""],
    ["<%!", "    import os", "%>", "${'x'}", "<%text>", "t", "</%text>"],
]


def warning_cases(rng):
    """(name, templates {tid: lines}, main, expected (tid, line) or None, literal kind, needs_render, site)"""
    cases = []

    def mk(name, body, lit, extra=None, needs_render=False, where="main", site=None):
        pre = list(rng.choice(PREFIXES))
        lines = pre + body
        idx = next(i for i, l in enumerate(lines) if "{W}" in l or "{WL}" in l)
        line = idx + 1
        for i, l in enumerate(lines[:idx]):
            line += l.count("\n")
        # {W}: the literal; {WL}: the literal on the second line of a two-line construct (reported on its first)
        w = LITERALS[lit][0]
        if name.startswith("attr:") or name in ("call-expr", "include-file"):
            w = w.replace('"', "'")          # inside a double-quoted attribute
        exact = line + (1 if "{WL}" in lines[idx] else 0)
        text = [l.replace("{W}", w).replace("{WL}", w) for l in lines]
        tm = {"main": text}
        exp = ("main", line)
        if extra:
            tm = dict(extra)
            tm[where] = text
            exp = (where, line)
        cases.append({"name": name, "templates": {k: "\n".join(v) for k, v in tm.items()}, "expected": exp,
                      "exact": exact, "literal": lit, "needs_render": needs_render, "site": site or name})
    for lit in LITERALS:
        mk("expr", ["a", "${{W}}", "b"], lit)
        mk("expr-second-line", ["a", "${('a' +\n   {WL})}", "b"], lit)
        mk("control-if", ["% if {W}:", "x", "% endif"], lit)
        mk("control-for-loop", ["% for i in ({W},):", "${loop.index}", "% endfor"], lit)
        mk("code-block", ["<%", "    a = 1", "    b = {W}", "    c = 3", "%>"], lit)
        mk("code-block-first-line", ["<% a = {W}", "%>"], lit)
        mk("module-block", ["<%!", "    import os", "    b = {W}", "%>", "x"], lit)
        mk("in-def", ["<%def name=\"f()\">", "  t", "  ${{W}}", "</%def>", "${f()}"], lit)
        mk("in-nested-def", ["<%def name=\"o()\">", "<%def name=\"f()\">", "  ${{W}}", "</%def>", "${f()}", "</%def>", "${o()}"], lit)
        mk("in-block", ["<%block name=\"bb\">", "  ${{W}}", "</%block>"], lit)
        mk("in-call-body", ["<%def name=\"c()\">", "${caller.body()}", "</%def>", "<%call expr=\"c()\">", "t", "${{W}}", "</%call>"], lit)
        mk("call-expr", ["<%def name=\"c(x)\">", "${caller.body()}", "</%def>", "<%call expr=\"c({W})\">", "t", "</%call>"], lit)
        mk("include-file", ["a", "<%include file=\"${{W} and '/inc.html'}\"/>"], lit,
           extra={"inc": ["inc"]}, where="main")
        mk("included-template", ["i", "${{W}}"], lit, extra={"main": ["m", "<%include file=\"/inc.html\"/>"]},
           needs_render=True, where="inc")
        # python in attributes that is re-emitted or placed before the start_source of its construct
        mk("attr:def-arg-default", ["<%def name=\"f(x={W})\">", "  ${x}", "</%def>", "${f()}"], lit)
        mk("attr:page-arg-default", ["<%page args=\"x={W}\"/>", "${x}"], lit)
        mk("attr:call-arg-default", ["<%def name=\"c()\">", "${caller.body()}", "</%def>", "<%call expr=\"c()\" args=\"z={W}\">", "t", "</%call>"], lit)
        mk("attr:expr-filter", ["a", "${'x' | (lambda s: s + str({W}))}"], lit)
        mk("attr:def-filter", ["<%def name=\"f()\" filter=\"(lambda s: s + str({W}))\">", "x", "</%def>", "${f()}"], lit)
        mk("attr:decorator", ["<%!", "    def deco(a):", "        return lambda fn: fn", "%>", "<%def name=\"g()\">", " g", " ${1}", "</%def>",
                              "<%def name=\"f()\" decorator=\"deco({W})\">", "  f", "</%def>", "${f()}"], lit)
    # a warning raised while the module-level code runs
    cases_mod = ["<%!", "    import warnings", "    warnings.warn('module body warning', UserWarning)", "%>", "ok"]
    pre = list(rng.choice(PREFIXES[:3]))
    cases.append({"name": "module-body-warn", "templates": {"main": "\n".join(pre + cases_mod)},
                  "expected": ("main", len(pre) + 3), "exact": len(pre) + 3, "literal": None, "needs_render": False,
                  "site": "module-body-warn"})
    return cases


def run_warning_case(case, path, action, env):
    """-> (shown [(filename, lineno)], raised exception or None, names)"""
    ts = TSet(None)
    ts.opts = {}
    for tid, text in case["templates"].items():
        ts.templates[tid] = text.split("\n")
    msgsub = LITERALS[case["literal"]][1] if case["literal"] else "module body warning"
    names = None
    raised = None
    with warnings.catch_warnings(record=True) as rec:
        warnings.simplefilter(action)
        try:
            t, names, texts = env.build(ts, None, path)
            if case["needs_render"]:
                t.render_unicode()
        except Exception as e:
            raised = e
        finally:
            env.restore()
    shown = [(w.filename, w.lineno) for w in rec if msgsub in str(w.message)]
    if names is None:
        # construction failed before the names were returned: recompute them
        if path == "string":
            names = {tid: ts.uri(tid) for tid in ts.templates}
        else:
            d = os.path.join(env.root, "t%d" % env.n)
            names = {tid: os.path.join(d, tid + ".html") for tid in ts.templates}
    return shown, raised, names


def reuse_checks(ctx, col, case, action, env, want_file, line, cd, size, rd):
    """module-directory templates, second construction: the up-to-date module file is REUSED.  A warning raised
    while it is loaded (always: `warnings.warn` in <%! %>; compile warnings when the import system has to compile
    the file again) must be shown exactly once against the template's file and line as well."""
    msgsub = LITERALS[case["literal"]][1] if case["literal"] else "module body warning"
    ts = TSet(None)
    ts.opts = {}
    for tid, text in case["templates"].items():
        ts.templates[tid] = text.split("\n")
    st = ctx.stream("oracle.warnings_module_file_reuse", "oracle")

    def judge(where, shown, must_show):
        st["cases"] += 1
        ctx.branch("oracle:reuse:%s:%s" % (where, "shown" if shown else "silent"))
        c = dict(cd, construction=where)
        if not shown:
            if must_show:
                col.add("warning:module-file-reuse:not-shown", size, c, {"shown": []})
        elif shown != [(want_file, line)]:
            what = ("shown-more-than-once" if len(shown) > 1 else
                    "filename" if shown[0][0] != want_file else "line")
            col.add("warning:module-file-reuse:" + what, size, c, {"shown": shown, "want": [want_file, line]})
    with warnings.catch_warnings(record=True) as rec:
        warnings.simplefilter(action)
        try:
            construct_again(env, ts, case["needs_render"])
        except Exception as e:
            col.add("warning:module-file-reuse:exception", size, dict(cd, construction="second"), {"raised": repr(e)[:200]})
            return
    shown = [(w.filename, w.lineno) for w in rec if msgsub in str(w.message)]
    # module-level code runs on every load; compile warnings only when the file is compiled again
    judge("second-in-process", shown, must_show=case["literal"] is None)
    sub = (zlib.crc32(repr((case["name"], action, rd)).encode()) % (4 if ctx.quick else 2)) == 0
    if sub or case["literal"] is None:
        try:
            shown = construct_in_subprocess(env, case["needs_render"], msgsub, drop_bytecode=False)
            judge("subprocess", shown, must_show=case["literal"] is None)
            shown = construct_in_subprocess(env, case["needs_render"], msgsub, drop_bytecode=True)
            judge("subprocess-recompiles", shown, must_show=True)
        except RuntimeError as e:
            ctx.broke("oracle:reuse-subprocess", str(e))


def oracle_warn(ctx, env):
    st = ctx.stream("oracle.warnings", "oracle")
    col = Collector(ctx, "oracle.warnings")
    rounds = 1 if ctx.quick else 4
    for rd in range(rounds):
        for case in warning_cases(ctx.rng):
            stage = LITERALS[case["literal"]][2] if case["literal"] else "exec"
            for path in PATHS + EXTRA_PATHS:
                for action in ("always", "once", "error"):
                    if path in EXTRA_PATHS and case["name"].startswith("attr:"):
                        continue
                    if ctx.quick and (zlib.crc32(repr((case["name"], path, action, rd)).encode()) % 2) and case["name"].startswith("attr:"):
                        continue
                    try:
                        shown, raised, names = run_warning_case(case, path, action, env)
                    except Exception:
                        ctx.broke("oracle:harness-exception", traceback.format_exc())
                        continue
                    st["cases"] += 1
                    ctx.branch("oracle:warn:" + case["name"])
                    ctx.branch("oracle:warn-action:" + action)
                    ctx.nontriv((case["templates"]["main"], path, action))
                    tid, line = case["expected"]
                    want_file = names[tid]
                    # a string template without uri is named by its memory id
                    if path == "string" and len(case["templates"]) == 1 and shown and shown[0][0].startswith("memory:"):
                        want_file = shown[0][0]
                    cd = {"input": case["templates"]["main"], "templates": {k: v for k, v in case["templates"].items() if k != "main"},
                          "position": case["name"], "literal": case["literal"], "path": path, "action": action,
                          "expected": [tid, line]}
                    size = sum(len(v) for v in case["templates"].values())
                    if action == "error":
                        if shown:
                            col.add("warning:error-action-also-shown:" + case["site"], size, cd, {"shown": shown})
                        if raised is None:
                            col.add("warning:error-action-not-raised:" + case["site"], size, cd, {})
                            continue
                        ln = getattr(raised, "lineno", None)
                        fn = getattr(raised, "filename", None)
                        mako_exc = type(raised).__module__.startswith("mako")
                        ok = mako_exc and ln in (line, case["exact"]) and (fn == names[tid] or (path == "string" and fn in (None, names[tid])))
                        if not ok:
                            col.add("warning:error-action-location:%s.%s" % (type(raised).__module__, type(raised).__name__), size, cd,
                                    {"raised": type(raised).__module__ + "." + type(raised).__name__, "lineno": ln,
                                     "filename": fn, "message": str(raised)[:160]})
                        continue
                    if raised is not None:
                        col.add("warning:unexpected-exception:" + case["site"], size, cd, {"raised": repr(raised)[:200]})
                        continue
                    if shown == [(want_file, line)]:
                        if path == "moddir" and not case["name"].startswith("attr:"):
                            reuse_checks(ctx, col, case, action, env, want_file, line, cd, size, rd)
                        continue
                    if not shown:
                        col.add("warning:not-shown:" + case["site"], size, cd, {"shown": []})
                    elif len(shown) > 1:
                        col.add("warning:shown-more-than-once:%s" % case["site"], size, cd, {"shown": shown})
                    elif shown[0][0] != want_file and shown[0][0].endswith(".py"):
                        col.add("warning:shown-against-module-file", size, cd, {"shown": shown, "want": [want_file, line]})
                    elif shown[0][0] != want_file:
                        col.add("warning:filename:" + case["site"], size, cd, {"shown": shown, "want": want_file})
                    else:
                        col.add("warning:line:" + case["site"], size, cd, {"shown": shown, "want_line": line})
    col.flush()


# --------------------------------------------------------------------------------------------------
# corr (b): recorded real emission sequences through the model

# emission sites of the real code generator whose *observable* lines (lines that can raise or call) are
# written without a start_source of their own, so that they inherit the mark of whatever was emitted
# before: the present state of mako/codegen.py, pinned here.  A site that is not listed and shows a
# mark != owner is reported (a start_source call was lost).  Each listed site is a recorded finding whose
# real-traceback / real-warning witness is produced by the oracle.
KNOWN_UNMARKED = {
    "callable:header": "F9a",            # render_body without <%page>: start_source(0)
    "callable:preamble": "F9a",
    "callable:preamble-strict": "F9a",
    "callable:preamble-namespace": "F9a",
    "stub:header": "F9b", "stub:call": "F9b",
    "visitBlockTag:call": "F9b",
    # declaration lines written after an inline def of the same preamble (no re-mark after it)
    "inline-def:preamble": "F9b", "inline-def:preamble-strict": "F9b",
    "visitCallTag:preamble-strict": "F9b", "visitCallTag:other": "F9b",
    "namespace": "F9b",                  # lines of a namespace written after an inline def of the namespace
}


def corr_b(ctx):
    drv = ctx.driver()
    from mako.template import ModuleInfo
    st = ctx.stream("corr.codegen_events")
    n = 60 if ctx.quick else 400
    texts = []
    for name, ts in witness_sets():
        for tid in ts.templates:
            texts.append((ts.text(tid), dict(ts.opts)))
    for i in range(n):
        ts = gen_set(ctx.rng)
        for tid in ts.templates:
            texts.append((ts.text(tid), dict(ts.opts)))
        # and with one slot active (compiles the same way; different text)
        if ts.slots:
            s = ctx.rng.choice(ts.slots)
            if not s.kind.endswith("-file"):
                texts.append((ts.text(s.frames[-1].tid, s.sid), dict(ts.opts, **s.opts)))
    recs, reqs = [], []
    for text, opts in texts:
        try:
            events, code = record_compile(text, **opts)
        except Exception as e:
            ctx.branch("b:compile-raised:" + type(e).__name__)
            continue
        recs.append((text, events, code))
        reqs.append(("printer run " + " ".join(ev_tok(e[0]) for e in events)).rstrip())
    outs = drv.ask_many(reqs)
    unknown_sites = {}
    for (text, events, code), o in zip(recs, outs):
        st["cases"] += 1
        m = parse_resp(o)
        md = ModuleInfo.get_module_source_metadata(code, full_line_map=True)
        nl = code.count("\n")
        if md["line_map"] != m["map"]:
            ctx.disagree("corr.codegen_events", {"input": text, "what": "line_map"}, m["map"], md["line_map"])
            continue
        # the model ran the whole sequence incl. the metadata lines; the dense map covers the lines before them
        k = len(md["full_line_map"])
        if md["full_line_map"] != m["marks"][:k]:
            ctx.disagree("corr.codegen_events", {"input": text, "what": "full_line_map"}, m["marks"][:k], md["full_line_map"])
            continue
        if m["lineno"] != nl + 1 or m["buf"] != 0:
            ctx.disagree("corr.codegen_events", {"input": text, "what": "lineno-vs-module-text"}, m["lineno"], nl + 1)
            continue
        if not m["nbp"]:
            ctx.disagree("corr.codegen_events", {"input": text, "what": "write_blanks-while-block-pending"}, o[:200], "")
            continue
        if m["claimed"] != list(range(1, m["lineno"])):
            ctx.disagree("corr.codegen_events", {"input": text, "what": "stream-order"}, m["claimed"][:50], "")
            continue
        rows = analyse_recording(events, m)
        # generated line g of the real module text is the line the recording says (ties `line` to the text)
        mod_lines = code.split("\n")
        for g, owner, mark, site, line, inert in rows:
            if line is not None and "\n" not in line and site.find("block-line") < 0:
                if mod_lines[g - 1].strip() != line.strip():
                    ctx.disagree("corr.codegen_events", {"input": text, "what": "recorded-line-vs-module-text", "g": g},
                                 line, mod_lines[g - 1])
                    break
        obs_bad = 0
        for g, owner, mark, site, line, inert in rows:
            if owner is None:
                continue
            if owner == mark:
                ctx.branch("b:line-ok:" + ("inert" if inert else "observable"))
                continue
            if inert:
                ctx.branch("b:unmarked-inert:" + site)
                continue
            obs_bad += 1
            if site in KNOWN_UNMARKED:
                ctx.branch("b:unmarked-known(%s):%s" % (KNOWN_UNMARKED[site], site))
            else:
                ctx.branch("b:unmarked-NEW:" + site)
                unknown_sites.setdefault(site, {"input": text, "generated_line": g, "text": line, "owner": owner, "mark": mark})
        # the Lean `wellMarked` walk on the sequence whose inert owners are erased agrees with the row check
        ctx.branch("b:observably-well-marked=%d" % (obs_bad == 0))
        ctx.nontriv(("b", text))
    # second pass: Lean's wellMarked on observable owners only
    reqs2 = []
    for text, events, code in recs:
        toks = []
        for ev, site, line in events:
            if ev[0] == "W" and (line is None or is_inert(line, site)):
                toks.append(ev_tok(("W", ev[1], None)))
            else:
                toks.append(ev_tok(ev))
        reqs2.append(("printer run " + " ".join(toks)).rstrip())
    outs2 = drv.ask_many(reqs2)
    st2 = ctx.stream("corr.well_marked_walk")
    for (text, events, code), o in zip(recs, outs2):
        st2["cases"] += 1
        m = parse_resp(o)
        rows = analyse_recording([(ev if not (ev[0] == "W" and (line is None or is_inert(line, site))) else ("W", ev[1], None), site, line)
                                  for ev, site, line in events], m)
        bad = [r for r in rows if r[1] is not None and r[1] != r[2] and "block-line" not in r[3]]
        blockbad = [r for r in rows if r[1] is not None and r[1] != r[2] and "block-line" in r[3]]
        # theorem line_map_correct: wm=1 => no owned line is mis-mapped
        if m["wm"] and (bad or blockbad):
            ctx.disagree("corr.well_marked_walk", {"input": text, "what": "wellMarked but a line is mis-mapped"}, o[:200], bad[:3])
        ctx.branch("b:lean-wellMarked=%d" % m["wm"])
    for site, ex in unknown_sites.items():
        ctx.broke("well-markedness:new-unmarked-site:" + site, json.dumps(ex)[:3000])
    if recs:
        ctx.sample({"stream": "corr.codegen_events", "template": recs[0][0][:200],
                    "events": [ev_tok(e[0])[:40] for e in recs[0][1][:12]]})


# --------------------------------------------------------------------------------------------------
# corr (c): RichTraceback._init / warnings helpers decision logic vs the model

def fake_module_source(fm):
    lm = {str(i + 1): v for i, v in enumerate(fm)}
    lm[str(len(fm) + 1)] = len(fm)
    return '"""\n__M_BEGIN_METADATA\n' + json.dumps({"filename": None, "uri": "u", "source_encoding": "utf-8",
                                                     "line_map": lm}) + '\n__M_END_METADATA\n"""\n'


def corr_c(ctx):
    drv = ctx.driver()
    import mako.template as MT
    from mako import exceptions as X
    rng = ctx.rng
    # (c1) one frame ------------------------------------------------------------------------------------
    st = ctx.stream("corr.richtraceback_frame")
    n = 1500 if ctx.quick else 20000
    cases = []
    for _ in range(n):
        nt = rng.randint(1, 6)
        fm = [rng.randint(0, nt + 2) for _ in range(rng.randint(1, 8))]
        reg = rng.random() < 0.8
        ln = rng.randint(1, len(fm) + 2)
        cases.append((reg, ln, fm, nt))
    outs = drv.ask_many(["printer tb %d %d %s %d" % (int(r), ln, ",".join(map(str, fm)), nt) for r, ln, fm, nt in cases])
    orig_extract = X.traceback.extract_tb
    keep = []
    try:
        for (reg, ln, fm, nt), o in zip(cases, outs):
            st["cases"] += 1
            tlines = ["line%d%s" % (i, rng.choice(["", "", "\x0c", "\u2028x", "\rq", "\x85", "\x0b\x1c"])) for i in range(nt)]
            MT.ModuleInfo._modules.pop("m", None)
            if reg:
                info = object.__new__(MT.ModuleInfo)
                info.module = types.SimpleNamespace(_source_encoding=None)
                info.module_filename = None
                info.template_filename = "t"
                info.template_uri = None
                info.module_source = fake_module_source(fm)
                info.template_source = "\n".join(tlines)
                keep.append(info)
                MT.ModuleInfo._modules["m"] = info
            X.traceback.extract_tb = lambda tb: [("outer.py", 7, "g", "call()"), ("m", ln, "f", "l")]
            try:
                rt = X.RichTraceback(error=ValueError("x"), traceback=object())
                r = rt.records[1]
                if r[4] is None:
                    got = "plain"
                else:
                    got = "tl=%d line=%s" % (r[5], "none" if r[6] is None else
                                             (tlines.index(r[6]) if r[6] in tlines else "?" + repr(r[6])))
                shown = rt.traceback[1]
                got += " ref=" + ("t" if shown[0] == "t" else "r")
                if rt.records[0][4] is not None or rt.traceback[0] != ("outer.py", 7, "g", "call()"):
                    got += " outer-frame-changed"
            except IndexError:
                got = "err"
            ctx.branch("c:frame:" + got.split(" ")[0].split("=")[0] + (":line0" if got.startswith("tl=0 ") else ""))
            if got != o:
                ctx.disagree("corr.richtraceback_frame", {"input": [reg, ln, fm, nt]}, o, got)
            keep = keep[-4:]
        # (c2) which record gives .lineno ---------------------------------------------------------------
        st2 = ctx.stream("corr.richtraceback_pick")
        n2 = 800 if ctx.quick else 8000
        picks = []
        for _ in range(n2):
            picks.append([rng.choice(["p", "p", 0, 1, 2, 3]) for _ in range(rng.randint(1, 6))])
        outs2 = drv.ask_many(["printer pick " + " ".join(map(str, p)) for p in picks])
        info = object.__new__(MT.ModuleInfo)
        info.module = types.SimpleNamespace(_source_encoding=None)
        info.module_filename = None
        info.template_filename = "t"
        info.template_uri = None
        info.module_source = fake_module_source([0, 1, 2, 3])
        info.template_source = "a\nb\nc"
        MT.ModuleInfo._modules["m"] = info
        for p, o in zip(picks, outs2):
            st2["cases"] += 1
            frames = [("plain%d.py" % i, 1000 + i, "g", "x") if x == "p" else ("m", x + 1, "f", "l") for i, x in enumerate(p)]
            X.traceback.extract_tb = lambda tb: frames
            try:
                rt = X.RichTraceback(error=ValueError("x"), traceback=object())
            except Exception as e:
                ctx.disagree("corr.richtraceback_pick", {"input": p}, o, repr(e))
                continue
            if o == "none":
                want = frames[-1][1]          # "a normal .py file": the last record's own line
                # (unless the last record is a template frame with line 0 ... still its raw lineno)
                ok = rt.lineno == want
            else:
                idx, ln = o.split(":")
                ok = rt.lineno == int(ln) and rt.source == "a\nb\nc" and p[int(idx)] == int(ln)
            ctx.branch("c:pick:" + ("none" if o == "none" else "template"))
            if not ok:
                ctx.disagree("corr.richtraceback_pick", {"input": p}, o, [rt.lineno, rt.source[:10]])
        # (c2b) the template source attached to each record (several templates in one traceback) -----------
        st2b = ctx.stream("corr.richtraceback_record_source")
        infos = {}
        for nm in "ABC":
            inf = object.__new__(MT.ModuleInfo)
            inf.module = types.SimpleNamespace(_source_encoding=None)
            inf.module_filename = None
            inf.template_filename = nm
            inf.template_uri = None
            inf.module_source = fake_module_source([1])
            inf.template_source = nm.lower()
            infos[nm] = inf
            MT.ModuleInfo._modules[nm] = inf
        seqs = [[rng.choice(["A", "B", "C", "p", "A", "B"]) for _ in range(rng.randint(1, 7))]
                for _ in range(300 if ctx.quick else 3000)]
        # the cache variant of the model is the regenerated constant Generated.TbCfg.modsCacheKeepsSource
        outs2b = drv.ask_many(["printer srcs " + " ".join(q) for q in seqs])
        for q, o in zip(seqs, outs2b):
            st2b["cases"] += 1
            frames = [("plain.py", 5, "g", "x") if x == "p" else (x, 1, "f", "l") for x in q]
            X.traceback.extract_tb = lambda tb: frames
            rt = X.RichTraceback(error=ValueError("x"), traceback=object())
            got = " ".join("n" if r[7] is None else r[7] for r in rt.records)
            own = " ".join("n" if x == "p" else x.lower() for x in q)
            ctx.branch("c:record-source:" + ("own" if got == own else "of-another-template"))
            if got != o:
                ctx.disagree("corr.richtraceback_record_source", {"input": q}, o, got)
    finally:
        X.traceback.extract_tb = orig_extract
        for nm in ("m", "A", "B", "C"):
            MT.ModuleInfo._modules.pop(nm, None)
    # (c3) warnings hooks -----------------------------------------------------------------------------
    st3 = ctx.stream("corr.warning_hooks")
    n3 = 600 if ctx.quick else 6000
    fnames = {"u": "<unknown>", "m": "M", "o": "other.py"}
    for _ in range(n3):
        st3["cases"] += 1
        act = rng.choice(["always", "once", "error", "ignore", "once", "always"])
        fm = [rng.randint(0, 9) for _ in range(rng.randint(0, 5))]
        broken_meta = rng.random() < 0.1
        ws = []
        for _ in range(rng.randint(1, 5)):
            ph = rng.choice("pmb")
            f = "u" if (ph in "pb" and rng.random() < 0.8) else rng.choice("umo")
            ws.append((ph, f, rng.randint(1, 7), rng.choice([65, 65, 66, 67])))
        pre = sorted(set(rng.choice([65, 66, 67]) for _ in range(rng.randint(0, 2)))) if act == "once" else []
        req = "printer warn %s %s %s %s" % (act, "-" if (broken_meta or not fm) else ",".join(map(str, fm)),
                                        "-" if not pre else ",".join(map(str, pre)),
                                        " ".join("%s:%s:%d:%d" % w for w in ws))
        o = drv.ask(req) if False else None
        # real
        src = "not a mako module" if broken_meta else fake_module_source(fm)
        shown, raised = [], "none"
        with warnings.catch_warnings(record=True) as rec:
            warnings.simplefilter(act)
            for t in pre:                       # texts already seen under "once"
                warnings.warn_explicit("w%d" % t, SyntaxWarning, "elsewhere.py", 1)
            del rec[:]
            for ph, f, ln, tx in ws:
                try:
                    if ph == "p":
                        with MT._drop_expression_warnings():
                            warnings.warn_explicit("w%d" % tx, SyntaxWarning, fnames[f], ln)
                    elif ph == "m":
                        with MT._translate_module_warnings(lambda: src, "M", "T"):
                            warnings.warn_explicit("w%d" % tx, SyntaxWarning, fnames[f], ln)
                    else:
                        with MT._translate_module_warnings(lambda: src, "M", "T"):
                            with MT._drop_expression_warnings():
                                warnings.warn_explicit("w%d" % tx, SyntaxWarning, fnames[f], ln)
                except SyntaxWarning:
                    raised = "%d:%s:%d" % (tx, f, ln)
                    break
            inv = {"<unknown>": "u", "M": "m", "other.py": "o", "T": "t"}
            shown = ["%s:%s:%d" % (str(w.message)[1:], inv.get(w.filename, "?"), w.lineno) for w in rec]
        got = "shown=%s raised=%s" % ("-" if not shown else ",".join(shown), raised)
        ctx.branch("c:warn:" + act)
        st3.setdefault("_reqs", []).append((req, got, ws))
    reqs = st3.pop("_reqs")
    outs3 = drv.ask_many([r[0] for r in reqs])
    for (req, got, ws), o in zip(reqs, outs3):
        model = " ".join(o.split(" ")[:2])
        if model != got:
            ctx.disagree("corr.warning_hooks", {"input": req}, o, got)


# --------------------------------------------------------------------------------------------------
# corr (d): the Lean emission skeleton (Printer/Codegen.lean) vs the recorded real emission sequence

def b01(x):
    return "1" if x else "0"


def norm_event(ev, line, site=None):
    """recorded event -> the shape the skeleton speaks about (text reduced to its newlines, owner of an
    unobservable line erased)"""
    if ev[0] == "W":
        return ("W", "\n" * ev[1].count("\n"), None if (ev[2] is None or is_inert(line, site)) else ev[2])
    return ev


def items_of_recording(rec):
    """flat item list of a recorded compilation: specific items for the visit / write methods (parameters
    from the visited nodes), generic `mid`/`hdr`/`mark`/… items for the lines in between"""
    events, inv_of = rec.events, rec.inv_of
    direct = {}
    for i, inv in enumerate(inv_of):
        direct.setdefault(inv["id"], []).append(i)
    items = []
    LEAF = {"visitText", "visitExpression", "visitControlLine", "visitControlLine:end", "visitCode", "visitIncludeTag",
            "visitBlockTag", "stub", "inherit", "epilogue", "epilogue-filtered"}

    def generic(i, inv):
        ev, site, line = events[i]
        k = ev[0]
        if k == "S":
            return "mark:%d" % ev[1]
        if k == "N":
            return "none"
        if k == "B":
            return "blanks:%d" % ev[1]
        if k == "M":
            return "meta"
        if k == "I":
            return "mcode:%d:%s" % (ev[2], enc(ev[1]))
        nl = ev[1].count("\n")
        if inv["owner"] is None:
            return "hdr:%d" % nl
        return "mid:%d:%s:%d" % (inv["owner"], b01(not is_inert(line)), nl)

    for i, inv in enumerate(inv_of):
        ds = direct[inv["id"]]
        pos = ds.index(i)
        kind, o, p = inv["kind"], inv["owner"], inv["params"]
        first_line = next((events[j][2] for j in ds if events[j][0][0] == "W"), None)
        if kind in LEAF:
            if pos != 0:
                continue
            if kind == "visitText":
                items.append("text:%d" % o)
            elif kind == "visitExpression":
                items.append("expr:%d:%d" % (o, p["nl"]))
            elif kind == "visitControlLine":
                last = events[ds[-1]][2]
                items.append("control:%d:%s:%s" % (o, b01(p["loop"]), b01(last == "pass" and len(ds) > 2)))
            elif kind == "visitControlLine:end":
                items.append("cend:%s" % b01(p["loop"]))
            elif kind == "visitCode":
                items.append("code:%d:%s:%s" % (o, b01(len(ds) == 3), enc(p["block"])))
            elif kind == "visitIncludeTag":
                items.append("incl:%d" % o)
            elif kind == "visitBlockTag":
                items.append("block:%d:%s" % (o, b01(p["anon"])))
            elif kind == "stub":
                items.append("stub:%d:%s" % (o, b01(not is_inert(first_line))))
            elif kind == "inherit":
                items.append("inherit:%d" % o)
            else:
                last_w = [events[j][2] for j in ds if events[j][0][0] == "W"]
                ret_obs = False
                if not p["plain"]:
                    ret_obs = not is_inert(last_w[-1] if p["returns"] else last_w[-2])
                items.append("finish:%d:%s:%s:%s:%s:%s" % (o, b01(p["plain"]), b01(p["callstack"]), b01(p["returns"]),
                                                           b01(ret_obs), b01(events[ds[0]][0][0] == "S")))
            continue
        head = tail = 0
        head_item = tail_item = None
        if kind == "callable":
            head = int(p["decorated"]) + 4 + int(p["pushBuf"])
            hdr = events[ds[int(p["decorated"]) + 1]][2]      # start_source, [decorator], def ...
            head_item = "chead:%d:%d:%s:%s:%s" % (o, p["lineArg"], b01(p["decorated"]), b01(not is_inert(hdr)), b01(p["pushBuf"]))
            tail, tail_item = 2, "ctail"
        elif kind == "inline-def":
            head = 1 + int(p["decorated"]) + 3 + int(p["pushBuf"])
            hdr = events[ds[1 + int(p["decorated"])]][2]
            head_item = "ihead:%d:%s:%s:%s" % (o, b01(p["decorated"]), b01(not is_inert(hdr)), b01(p["pushBuf"]))
            tail, tail_item = 1, "itail"
        elif kind == "visitCallTag":
            head, head_item = 2, "callhead:%d" % o
            tail, tail_item = 12, "calltail:%d" % o
        elif kind == "visitTextTag" and p["filtered"]:
            head, head_item = 2, "tthead"
            tail, tail_item = 5, "tttail:%d" % o
        elif kind == "cache-wrapper":
            head = 3
            head_item = "cachehead:%d:%s" % (o, b01(not is_inert(events[ds[2]][2])))
            tail = 2 if p["buffered"] else 3
            tail_item = "cachetail:%d:%s" % (o, b01(p["buffered"]))
        n = len(ds)
        if pos < head:
            if pos == 0:
                items.append(head_item)
        elif pos >= n - tail:
            if pos == n - tail:
                items.append(tail_item)
        else:
            items.append(generic(i, inv))
    return items


def corr_d(ctx):
    drv = ctx.driver()
    st = ctx.stream("corr.codegen_skeleton")
    n = 40 if ctx.quick else 300
    texts = []
    for name, ts in witness_sets():
        for tid in ts.templates:
            texts.append((ts.text(tid), dict(ts.opts)))
    for i in range(n):
        ts = gen_set(ctx.rng)
        for tid in ts.templates:
            texts.append((ts.text(tid), dict(ts.opts)))
    reqs, keep = [], []
    for text, opts in texts:
        try:
            events, code = record_compile(text, **opts)
        except Exception as e:
            ctx.branch("d:compile-raised:" + type(e).__name__)
            continue
        rec = record_compile.last
        items = items_of_recording(rec)
        want = [ev_tok(norm_event(ev, line, site)) for ev, site, line in events]
        reqs.append("printer emitall " + " ".join(items))
        keep.append((text, items, want))
        for it in items:
            ctx.branch("d:item:" + it.split(":")[0])
    outs = drv.ask_many(reqs)
    for (text, items, want), o in zip(keep, outs):
        st["cases"] += 1
        parts = o.split(" ")
        got = parts[2:]
        if got != want:
            k = next((j for j, (a, b) in enumerate(zip(got, want)) if a != b), min(len(got), len(want)))
            ctx.disagree("corr.codegen_skeleton", {"input": text, "first_difference_at_event": k},
                         got[max(0, k - 3):k + 3], want[max(0, k - 3):k + 3])
        ctx.branch("d:all-items-marked=%s" % parts[1][-1])
        ctx.branch("d:skeleton-wellMarked=%s" % parts[0][-1])
        # `codegen_marked_partial`: a list of marked items is well marked
        if parts[1] == "marked=1" and parts[0] != "wm=1":
            ctx.disagree("corr.codegen_skeleton", {"input": text, "what": "marked items but not wellMarked"}, o[:100], "")
        ctx.nontriv(("d", text))


# --------------------------------------------------------------------------------------------------
# oracle: two live templates whose module ids collide (DESIGN F5)

def oracle_collision(ctx, env):
    from mako.lookup import TemplateLookup
    from mako import exceptions
    st = ctx.stream("oracle.same_uri_two_lookups", "oracle")
    a_text = "a one\na two\n${1/0}\na four\n"
    b_text = "b one\n${'fine'}\n"
    for path in ("string", "lookup", "moddir"):
        st["cases"] += 1
        if path == "string":
            la, lb = TemplateLookup(), TemplateLookup()
            la.put_string("/page.html", a_text)
            ta = la.get_template("/page.html")
            lb.put_string("/page.html", b_text)
            tb = lb.get_template("/page.html")
            name_a = "/page.html"
        else:
            env.n += 1
            da = os.path.join(env.root, "ca%d" % env.n)
            db = os.path.join(env.root, "cb%d" % env.n)
            for d, tx in ((da, a_text), (db, b_text)):
                os.makedirs(d)
                with open(os.path.join(d, "page.html"), "w") as f:
                    f.write(tx)
            kw = {} if path == "lookup" else {"module_directory": None}
            la = TemplateLookup(directories=[da], **({"module_directory": os.path.join(da, "m")} if path == "moddir" else {}))
            lb = TemplateLookup(directories=[db], **({"module_directory": os.path.join(db, "m")} if path == "moddir" else {}))
            ta = la.get_template("/page.html")
            tb = lb.get_template("/page.html")
            name_a = os.path.join(da, "page.html")
        tb.render_unicode()
        try:
            ta.render_unicode()
        except ZeroDivisionError:
            rt = exceptions.RichTraceback()
            tf = [(r[4], r[5], r[6]) for r in rt.records if r[4] is not None]
            want = [(name_a, 3, "${1/0}")]
            ctx.branch("oracle:collision:" + path + (":ok" if tf == want else ":wrong"))
            if tf != want:
                ctx.violation("module-id-collision", {"input": a_text, "other_template_same_uri": b_text, "path": path,
                                                      "uri": "/page.html"},
                              {"expected": want, "got": tf}, "oracle.same_uri_two_lookups")
        del ta, tb, la, lb


def oracle_inside_template(ctx):
    """RichTraceback built in an `except` clause inside a template: the template frame is the FIRST record"""
    from mako.template import Template
    st = ctx.stream("oracle.richtraceback_inside_template", "oracle")
    for pad in (0, 2, 5):
        st["cases"] += 1
        src = ("pad\n" * pad + "<%\n    from mako.exceptions import RichTraceback\n    try:\n        x = 1/0\n"
               "    except Exception:\n        tb = RichTraceback()\n%>\n"
               "${tb.lineno}|${tb.source == self.template.source}|${[(r[4] is not None, r[5]) for r in tb.records]}")
        out = Template(src).render_unicode().strip().split("\n")[-1]
        want_line = pad + 4
        want = "%d|True|[(True, %d)]" % (want_line, want_line)
        if out != want:
            ctx.violation("richtraceback-lineno:first-record-skipped", {"input": src, "expected_line": want_line},
                          {"rendered": out, "expected": want}, "oracle.richtraceback_inside_template")
            break


# --------------------------------------------------------------------------------------------------
# oracle: the template FILE is edited (lines shift) and recompiled in the same process

EDIT_RAISE = ("${1/0}", "raise ValueError('boom')")      # the innermost frame's line holds one of these
EDIT_CALL = "${f()}"                                        # an outer frame's line (call of a def that raises)

EDIT_WITNESSES = [
    # name, versions of the file in the order they are written (each has exactly one raising line; a version that
    # holds EDIT_CALL has two template frames: the call line, then the raising line)
    ("code-block-pushed-down", [
        "line one\n<%\n    raise ValueError('boom')\n%>\ntail\n",
        "line one\n## added\n## added\n## added\nmore text\n<%\n    x = 1\n    raise ValueError('boom')\n%>\ntail\n"]),
    ("expr-down-up-and-back", [
        "a\n${1/0}\nz\n",
        "a\nb one\nb two\nb three, some longer filler text\n% if True:\n${1/0}\n% endif\nz\n",
        "${1/0}\nz\n",
        "a\n${1/0}\nz\n"]),
    # (no <%def>/<%block> call chains here: their stub / call-site frames are the known findings F9a/F9b, which the
    #  traceback oracle reports on their own; a stale line map is visible on a single frame)
    ("lines-removed-then-multiline-text-inserted", [
        "h1\nh2\nh3\nh4\nh5\n% for i in range(2):\n  ${i}\n% endfor\n<%\n    y = 2\n    raise ValueError('boom')\n%>\n",
        "<%\n    raise ValueError('boom')\n%>\n",
        "<%text>\nraw one\nraw two\n</%text>\n<%doc>\nnote\n</%doc>\nx ${'ok'} y\n% if 1:\n<%\n"
        "    raise ValueError('boom')\n%>\n% endif\n"]),
]
EDIT_ROUTES = ["lookup-fscheck", "template-moddir", "template-modfile"]


def edit_expected(text):
    """[(line number, line text)] of the template frames, outermost first - read off the text itself"""
    lines = text.split("\n")
    inner = [i + 1 for i, l in enumerate(lines) if any(m in l for m in EDIT_RAISE)]
    outer = [i + 1 for i, l in enumerate(lines) if EDIT_CALL in l]
    assert len(inner) == 1 and len(outer) <= 1, text
    return [(n, lines[n - 1]) for n in outer + inner]


def run_edit_sequence(env, versions, route, upto=None):
    """write versions[0], build a traceback, overwrite the file with versions[1], recompile in this process, build a
    traceback, ...  Returns [(step, site, detail)] - empty when every view of every step reports the lines of the
    file as it is at that step"""
    import time
    from mako import exceptions
    from mako.template import Template
    from mako.lookup import TemplateLookup
    env.n += 1
    d = os.path.join(env.root, "ed%d" % env.n)
    os.makedirs(d)
    path = os.path.join(d, "page.html")
    mdir = os.path.join(d, "mods")
    kw = {"module_filename": os.path.join(d, "mf", "page_mod.py")} if route == "template-modfile" else \
         {"module_directory": mdir}
    if route == "template-modfile":
        os.makedirs(os.path.join(d, "mf"))
    lk = TemplateLookup(directories=[d], module_directory=mdir, filesystem_checks=True)
    now = time.time()
    problems = []
    keep = []
    for step, text in enumerate(versions if upto is None else versions[:upto + 1]):
        with open(path, "w", encoding="utf-8") as f:
            f.write(text)
        # step 0 older than anything written now; every edit newer than the module file generated before it
        stamp = now - 100 if step == 0 else now + 100 * step
        os.utime(path, (stamp, stamp))
        want = [(path, n, l) for n, l in edit_expected(text)]
        t = lk.get_template("page.html") if route == "lookup-fscheck" else Template(filename=path, **kw)
        keep.append(t)
        try:
            t.render_unicode()
            problems.append((step, "harness:edit-recompile:no-exception", {}))
            continue
        except (ZeroDivisionError, ValueError):
            try:
                rt = exceptions.RichTraceback()
                text_out = exceptions.text_error_template().render_unicode()
                html_out = exceptions.html_error_template().render_unicode(full=False, css=False)
            except Exception as e:      # e.g. a line map that does not belong to the module that ran
                problems.append((step, "edit-recompile:traceback-construction-raised",
                                 {"error": repr(e)[:200], "expected": want}))
                continue
        got = [(r[4], r[5], r[6]) for r in rt.records if r[4] is not None]
        if got != want:
            problems.append((step, "edit-recompile:records", {"expected": want, "got": got}))
        elif any(r[7] != text for r in rt.records if r[4] is not None):
            problems.append((step, "edit-recompile:record-source-stale", {"expected_source": text}))
        if rt.lineno != want[-1][1] or rt.source != text:
            problems.append((step, "edit-recompile:lineno", {"expected_line": want[-1][1], "got_line": rt.lineno,
                                                              "source_is_current_file": rt.source == text}))
        wl = [(a, b) for a, b, c in want]
        tv = [(x[0], x[1]) for x in parse_text_tb(text_out) if x[0] == path]
        if tv != wl:
            problems.append((step, "edit-recompile:text_error_template", {"expected": wl, "got": tv}))
        hv = [(x[0], x[1]) for x in parse_html_tb(html_out) if x[0] == path]
        if hv != wl:
            problems.append((step, "edit-recompile:html_error_template", {"expected": wl, "got": hv}))
        t2 = Template(filename=path, format_exceptions=True, **kw)
        try:
            out = t2.render_unicode()
        except Exception as e:
            problems.append((step, "edit-recompile:format_exceptions-raised", {"error": repr(e)[:200]}))
        else:
            fv = [(x[0], x[1]) for x in parse_html_tb(out) if x[0] == path]
            if fv != wl:
                problems.append((step, "edit-recompile:format_exceptions", {"expected": wl, "got": fv}))
    del keep
    return problems


def oracle_edit_recompile(ctx, env):
    """C12 after an edit: a module-directory / module_filename template raises and a traceback is built; the file is
    rewritten so that its lines shift; it is recompiled in the same process (TemplateLookup with filesystem_checks,
    or a new Template on the same module path); the next traceback must name the lines of the file as it is NOW.
    Expected lines are read off the text written (edit_expected), not taken from mako."""
    st = ctx.stream("oracle.traceback_after_edit", "oracle")
    for name, versions in EDIT_WITNESSES:
        for route in EDIT_ROUTES:
            st["cases"] += len(versions)
            probs = run_edit_sequence(env, versions, route)
            ctx.nontriv(("edit", name, route))
            ctx.branch("oracle:edit-recompile:%s:%s" % (route, "ok" if not probs else "wrong"))
            for step, site, detail in probs:
                ctx.branch("violation-site:" + site)
            if probs:
                step, site, detail = probs[0]       # earliest step, first view
                if site.startswith("harness:"):
                    ctx.broke("C12 edit-recompile witness did not raise", "%s %s step %d" % (name, route, step))
                    continue
                ctx.violation(site, {"input": versions[step], "previous_versions": versions[:step], "route": route,
                                     "witness": name, "edit_step": step,
                                     "expected_lines": [n for n, _ in edit_expected(versions[step])]},
                              dict(detail, all_failing_views=sorted({s for k, s, _ in probs if k == step})),
                              "oracle.traceback_after_edit")


# --------------------------------------------------------------------------------------------------

def run(ctx):
    root = tempfile.mkdtemp(prefix="c12_")
    env = Env(root)
    added_path = False
    if root not in sys.path:
        pass
    try:
        try:
            corr_a(ctx)
            corr_b(ctx)
            corr_c(ctx)
            corr_plan(ctx)
            corr_d(ctx)
        finally:
            try:
                oracle_tb(ctx, env)
            finally:
                try:
                    oracle_warn(ctx, env)
                finally:
                    try:
                        oracle_foreign_module(ctx, env)
                    finally:
                        try:
                            oracle_collision(ctx, env)
                        finally:
                            try:
                                oracle_inside_template(ctx)
                            finally:
                                oracle_edit_recompile(ctx, env)
    finally:
        shutil.rmtree(root, ignore_errors=True)
        # modules imported from the scratch module directories
        for k in [k for k, m in list(sys.modules.items()) if getattr(m, "__file__", None) and str(m.__file__).startswith(root)]:
            sys.modules.pop(k, None)


def replay(ctx, data):
    """re-run the recorded case on the implementation (oracle) and show the model's view of its line map"""
    case = data.get("case")
    if case is None and data.get("first_disagreements"):
        print("correspondence disagreement:", json.dumps(data["first_disagreements"][0])[:2000])
        return False
    print("replaying site=%s" % data.get("site"))
    root = tempfile.mkdtemp(prefix="c12r_")
    env = Env(root)
    global HAVE_BEAKER
    try:
        import beaker  # noqa
        HAVE_BEAKER = True
    except ImportError:
        pass
    try:
        if "expected_frames" in case:
            ts = TSet(None)
            ts.opts = dict(case.get("options") or {})
            slot = ts.new_slot(case["slot"], "", "", [Frame(a, b, c) for a, b, c in case["expected_frames"]])
            ts.templates["main"] = case["input"].split("\n")
            for tid, tx in (case.get("templates") or {}).items():
                ts.templates[tid] = tx.split("\n")
            probs, summ = check_traceback(ts, slot, case.get("path", "string"), env)
            for p in probs:
                print("  problem:", p)
            print("  frames :", summ)
            try:
                events, code = record_compile(case["input"], **ts.opts)
                m = parse_resp(ctx.driver().ask("printer run " + " ".join(ev_tok(e[0]) for e in events)))
                bad = [r for r in analyse_recording(events, m) if r[1] is not None and r[1] != r[2] and not r[5]]
                print("  model: observable generated lines whose mark differs from their owner:")
                for r in bad[:12]:
                    print("     gen line %d owner %s mark %s site %s : %s" % (r[0], r[1], r[2], r[3], (r[4] or "")[:70]))
            except Exception as e:
                print("  (model view unavailable: %r)" % (e,))
            want = data.get("site")
            mine = [p for p in probs if site_key(p) == want] if want else [p for p in probs if not p[0].startswith("harness:")]
            return not mine
        if case.get("module_file_state"):
            c2 = type(ctx)(ctx.pid, "thorough", data.get("seed", 0))
            oracle_foreign_module(c2, env)
            bad = [v for v in c2.violations if v["site"] == data.get("site")]
            for v in bad[:3]:
                print("  ", v["site"], v["case"]["action"], v["detail"])
            return not bad
        if "action" in case:
            c = {"name": case["position"], "templates": dict(case.get("templates") or {}, main=case["input"]),
                 "expected": tuple(case["expected"]), "exact": case["expected"][1], "literal": case["literal"],
                 "needs_render": case["position"] == "included-template", "site": case["position"]}
            shown, raised, names = run_warning_case(c, case["path"], case["action"], env)
            print("  shown :", shown)
            print("  raised:", repr(raised)[:300])
            tid, line = c["expected"]
            if case.get("construction"):
                c2 = type(ctx)(ctx.pid, "thorough", 0)
                col = Collector(c2, "oracle.warnings")
                reuse_checks(c2, col, c, case["action"], env, names[tid], line, dict(case), 0, 0)
                col.flush()
                for v in c2.violations:
                    print("   reuse:", v["site"], v["case"].get("construction"), v["detail"])
                return not c2.violations
            if case["action"] == "error":
                return (raised is not None and type(raised).__module__.startswith("mako")
                        and getattr(raised, "lineno", None) == line and not shown)
            return raised is None and len(shown) == 1 and shown[0][1] == line
        if "expected_line" in case and "tb = RichTraceback()" in case["input"]:
            c2 = type(ctx)(ctx.pid, "quick", 0)
            oracle_inside_template(c2)
            for v in c2.violations:
                print("  ", v["detail"])
            return not c2.violations
        if "edit_step" in case:
            vs = list(case.get("previous_versions") or []) + [case["input"]]
            probs = run_edit_sequence(env, vs, case.get("route", "lookup-fscheck"))
            for step, site, detail in probs:
                print("  step %d (file version %d): %s %s" % (step, step + 1, site, json.dumps(detail)[:600]))
            want = data.get("site")
            return not [p for p in probs if (p[1] == want if want else True)]
        if "other_template_same_uri" in case:
            c2 = type(ctx)(ctx.pid, "quick", 0)
            oracle_collision(c2, env)
            return not c2.violations
    finally:
        shutil.rmtree(root, ignore_errors=True)
    return False


DRIVER_OPS = ["printer"]   # per-area driver executable(s) this check talks to (built before any worker is forked)


# --------------------------------------------------------------------------------------------------
# corr (c4): which step of Template._compile_from_file runs under which warnings hook

def corr_plan(ctx):
    """the four situations of a module-directory construction (module file missing / reused / stale; loaded
    module accepted or not) on the real `_compile_from_file`; `_compile_module_file` and `compat.load_module`
    are wrapped to raise probe warnings, whose display tells which hooks are installed at that moment
    (behavioural: a probe against the module file shown against the template = translation hook active; a probe
    against `<unknown>` not shown = drop hook active)"""
    import mako.template as MT
    from mako.template import Template
    drv = ctx.driver()
    st = ctx.stream("corr.compile_from_file_plan")
    root = tempfile.mkdtemp(prefix="c12p_")
    orig_cmf, orig_load = MT._compile_module_file, MT.compat.load_module
    steps = []

    def probe(kind, path, with_module_probe):
        k = len(steps)
        steps.append(kind)
        warnings.warn_explicit("probe-unk-%d" % k, UserWarning, "<unknown>", 1)
        if with_module_probe:
            warnings.warn_explicit("probe-mod-%d" % k, UserWarning, path, 1)

    def cmf(template, text, filename, outputpath, module_writer):
        probe("regen", outputpath, False)      # the module file may not exist yet: no probe against it
        return orig_cmf(template, text, filename, outputpath, module_writer)

    def load(module_id, path):
        probe("load", path, True)
        return orig_load(module_id, path)
    try:
        MT._compile_module_file, MT.compat.load_module = cmf, load
        n = 0
        for rd in range(2 if ctx.quick else 10):
            for up_to_date in (False, True):
                for accepted in (True, False):
                    n += 1
                    d = os.path.join(root, "p%d" % n)
                    os.makedirs(d)
                    fn = os.path.join(d, "t.html")
                    with open(fn, "w") as f:
                        f.write("a\n${1}\n")
                    mods = os.path.join(d, "mods")
                    calls = [0]

                    def bad_writer(source, outputpath, _calls=calls):
                        _calls[0] += 1
                        if _calls[0] == 1:
                            source = source.replace(b"_magic_number = ", b"_magic_number = 1000 + ")
                        with open(outputpath, "wb") as f:
                            f.write(source)
                    if up_to_date:
                        # a module file is there already; for "not accepted" it carries another magic number
                        MT._compile_module_file, MT.compat.load_module = orig_cmf, orig_load
                        try:
                            Template(filename=fn, module_directory=mods)
                            mp = os.path.join(mods, os.path.relpath(fn, "/") + ".py")
                            if not accepted:
                                src = open(mp, "rb").read().replace(b"_magic_number = ", b"_magic_number = 1000 + ")
                                open(mp, "wb").write(src)
                                shutil.rmtree(os.path.join(os.path.dirname(mp), "__pycache__"), ignore_errors=True)
                            t = os.stat(fn).st_mtime + 5
                            os.utime(mp, (t, t))
                        finally:
                            MT._compile_module_file, MT.compat.load_module = cmf, load
                        kw = {}
                    else:
                        kw = {} if accepted else {"module_writer": bad_writer}
                    del steps[:]
                    with warnings.catch_warnings(record=True) as rec:
                        warnings.simplefilter("always")
                        Template(filename=fn, module_directory=mods, **kw)
                    shown = {str(w.message): w.filename for w in rec if str(w.message).startswith("probe-")}
                    got = []
                    for k, kind in enumerate(steps):
                        drop = ("probe-unk-%d" % k) not in shown
                        if kind == "load":
                            translated = shown.get("probe-mod-%d" % k) == fn
                            got.append("load:" + {(True, True): "b", (True, False): "m", (False, True): "p", (False, False): "n"}[(translated, drop)])
                        else:
                            got.append("regen:" + ("drop" if drop else "nodrop"))
                    o = drv.ask("printer plan %d %d" % (int(up_to_date), int(accepted)))
                    model = [x if x.startswith("load") else ("regen:drop" if x.split(":")[1] in ("p", "b") else "regen:nodrop")
                             for x in o.split(" ")]
                    st["cases"] += 1
                    ctx.branch("c:plan:upToDate=%d,accepted=%d:%s" % (up_to_date, accepted, "+".join(got)))
                    if got != model:
                        ctx.disagree("corr.compile_from_file_plan", {"input": [up_to_date, accepted]}, o, got)
    finally:
        MT._compile_module_file, MT.compat.load_module = orig_cmf, orig_load
        shutil.rmtree(root, ignore_errors=True)


# --------------------------------------------------------------------------------------------------
# oracle: a module file that is there already, is NOT older than the template, but is not this template's

def oracle_foreign_module(ctx, env):
    """module-directory construction whose module path holds a recent module file that (A) was generated from
    ANOTHER template file (two roots with the same URI sharing one module_directory; a moved template tree;
    Template(filename=B, module_filename=M written for A)) or (B) carries another _magic_number: the module is
    loaded, rejected, regenerated and loaded again (the second regeneration path of _compile_from_file).  A
    warning-triggering literal of the template loaded now must be shown exactly once, against this template."""
    from mako.lookup import TemplateLookup
    from mako.template import Template
    st = ctx.stream("oracle.warnings_foreign_module_file", "oracle")
    col = Collector(ctx, "oracle.warnings_foreign_module_file")
    rounds = 1 if ctx.quick else 4
    for rd in range(rounds):
        cases = [c for c in warning_cases(ctx.rng) if not c["name"].startswith("attr:") and c["literal"]
                 and len(c["templates"]) == 1]
        if ctx.quick:
            cases = [c for c in cases if c["name"] in ("expr", "code-block", "module-block", "control-if", "in-def", "expr-second-line")]
        for case in cases:
            msgsub = LITERALS[case["literal"]][1]
            text = case["templates"]["main"]
            line = case["expected"][1]
            for state in ("other-source-file", "other-source-file:module_filename", "other-magic-number"):
                for action in ("always", "once"):
                    env.n += 1
                    base = os.path.join(env.root, "f%d" % env.n)
                    r1, r2, mods = os.path.join(base, "r1"), os.path.join(base, "r2"), os.path.join(base, "mods")
                    os.makedirs(r1)
                    os.makedirs(r2)
                    with open(os.path.join(r1, "main.html"), "w") as f:
                        f.write("another template\n${'x'}\n")
                    fn = os.path.join(r2, "main.html")
                    with open(fn, "w") as f:
                        f.write(text)
                    mfile = None
                    with warnings.catch_warnings():
                        warnings.simplefilter("ignore")
                        if state == "other-source-file":
                            TemplateLookup(directories=[r1], module_directory=mods).get_template("/main.html")
                            mp = os.path.join(mods, "main.html.py")
                        elif state == "other-source-file:module_filename":
                            mp = mfile = os.path.join(base, "shared_module.py")
                            Template(filename=os.path.join(r1, "main.html"), module_filename=mfile)
                        else:
                            TemplateLookup(directories=[r2], module_directory=mods).get_template("/main.html")
                            mp = os.path.join(mods, "main.html.py")
                            src = open(mp, "rb").read().replace(b"_magic_number = ", b"_magic_number = 1000 + ")
                            with open(mp, "wb") as f:
                                f.write(src)
                    shutil.rmtree(os.path.join(os.path.dirname(mp), "__pycache__"), ignore_errors=True)
                    t = os.stat(fn).st_mtime + 10
                    os.utime(mp, (t, t))                      # recent: not older than the template
                    raised = None
                    with warnings.catch_warnings(record=True) as rec:
                        warnings.simplefilter(action)
                        try:
                            if mfile:
                                Template(filename=fn, module_filename=mfile)
                            else:
                                TemplateLookup(directories=[r2], module_directory=mods).get_template("/main.html")
                        except Exception as e:
                            raised = e
                    shown = [(w.filename, w.lineno) for w in rec if msgsub in str(w.message)]
                    st["cases"] += 1
                    ctx.branch("oracle:foreign-module:" + state)
                    cd = {"input": text, "position": case["name"], "literal": case["literal"], "path": "moddir",
                          "action": action, "expected": ["main", line], "module_file_state": state}
                    if raised is not None:
                        col.add("warning:foreign-module-file:exception", len(text), cd, {"raised": repr(raised)[:200]})
                    elif shown != [(fn, line)]:
                        what = ("not-shown" if not shown else
                                "filename" if any(x[0] != fn for x in shown) else
                                "line" if any(x[1] != line for x in shown) else "shown-more-than-once")
                        col.add("warning:foreign-module-file:%s:%s" % (what, state.split(":")[0]), len(text), cd,
                                {"shown": shown, "want": [fn, line]})
    col.flush()
