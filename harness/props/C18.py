"""C18 - template text round-trips through input and output encodings.

corr  : the Lean encoding model (MakoModel/Encoding/Model.lean, driver op `encd`) against the real code:
          * `_coding_re` / `_PYTHON_MAGIC_COMMENT_re` transcriptions vs `re` (exhaustive small token strings + random);
          * the UTF-8 decoder (strict / errors="ignore") and encoder vs CPython's, `repr` vs CPython's (`ascii()` on the
            `_template_filename` line of real module files);
          * `Lexer.decode_raw_stream` + the comment skip of `Lexer.parse`: encoding chosen, exception class, text and
            start position handed to the lexer loop - over the codec x declaration grid, random bytes, BOM variants,
            conflicting and malformed declarations (the codec and the registry's `_is_utf8` answer are CPython's, standing in
            for the abstract `Codec` / `Env.isUtf8`; a second stream runs the whole function in Lean for utf-8/latin-1/ascii
            with the regenerated alias table);
          * the preprocessor order of `Lexer.parse` (decode, then the preprocessors on the decoded str, then the comment skip
            on what they return) with a recorder, mako's convert_comments and a text-changing preprocessor;
          * `util.parse_encoding`, the first lines (magic comment, then `from __future__ import`) and the `repr`ed text of
            real module files, `Template.source`,
            `runtime._render`/`FastEncodingBuffer.getvalue` (which encode call, on what);
          * the codec laws the theorems assume (`AsciiPrefix`, `Charwise`, `HighBytes` = strict ASCII compatibility,
            `RoundTrip`) are TESTED per codec on its whole table / repertoire and written to the evidence.
oracle: no Lean.  Generated templates (text, expressions, Python string literals, tag attributes, control lines with
        characters of the codec's repertoire) x codecs x declaration styles x paths {bytes, file, module directory,
        reloaded by a fresh Template, reloaded in a fresh process, TemplateLookup, module directory with a non-ASCII file
        name} x options {future_imports none / ['annotations', 'division']} x {preprocessor none / recorder (must be handed
        exactly the decoded str) / convert_comments / text-changing}, the same options on the reference template: output,
        `Template.source`, `render()` equal those of the template made from the decoded text, the module
        file is in the encoding Python detects for it and equals `Template.code`; undecodable input / BOM-vs-comment
        conflict raise CompileException; `render()` vs `render_unicode().encode(output_encoding, encoding_errors)`.
        The expectation comes from what the generator planted, never from mako's own sniffing.  Four fixed witnesses (the
        inputs of F-C18-1..4) are replayed first on every run, then the LONG_WITNESSES (round 6, C18k): a coding comment
        followed on the same line by an ASCII remark, the line 64 / 100 / 129 / 200 / 257 / 520 / 1030 / 4100 / 8200 bytes
        long, x {koi8-r bytes, cp1251 bytes with input_encoding=latin-1, cp1251 file + module directory reloaded, koi8-r
        file with input_encoding=utf-8, UTF-8 BOM + contradicting comment (must raise), UTF-8 BOM + agreeing comment}:
        the comment decides the encoding however long its line is.  The same dimension is random in the grid (every
        third case with a comment on line 1: line length around a power of two 64..2048 or 40..700) and the
        decode_raw_stream correspondence gets two long-tailed declaration lines among its adversarial sources.
"""
from __future__ import annotations

import codecs
import io
import itertools
import json
import os
import re
import shutil
import subprocess
import sys
import tempfile
import tokenize

from harness.common import enc, dec, ddmin, has_surrogate, REPO

RULE = ("templates = optional declaration line + 2..7 parts drawn from {text run, ${var}, ${'literal'}, <% v='literal' %>, "
        "<%! M='literal' %>, <%def name=\"f(a='literal')\">, % if / % for lines, <%text>, <%block>, ## comment}, runs made of "
        "characters of the codec's tested repertoire mixed with ASCII (quotes, backslash, #, CR LF, tab); x codecs {ascii, utf-8, "
        "latin-1, cp1251, cp1252, koi8-r, shift_jis, euc-jp, gb2312, iso-8859-15} x declaration {comment (5 spellings), "
        "input_encoding, both agreeing, both conflicting (comment right / comment wrong), none, comment on line 2, '#' after a "
        "non-ASCII character, UTF-8 BOM (alone / + utf-8 comment / + alias comment / + other comment / + input_encoding), a byte the "
        "effective codec cannot decode} x length of the declaration line {bare comment / comment + ASCII remark on the same line, 40..2051 bytes "
        "(a third of the cases with a comment on line 1) + fixed witnesses 64..8200 bytes} (2 cases per codec x style in the quick tier, 14 in the thorough tier; declared bodies always "
        "contain a non-ASCII character when the codec has one) x path {bytes, file, module directory, fresh Template on the module "
        "file, fresh process, TemplateLookup, non-ASCII file name} (thorough: all; quick: bytes + two rotating paths, conflicting "
        "declarations always bytes + all module-file paths) x option {future_imports off/on (alternating), preprocessor none/recorder/"
        "convert_comments/Z->ZQ (rotating with style and codec)} x 9 output_encoding values x 6 encoding_errors handlers (render stream; quick: strict + one random handler per case); "
        "plus adversarial byte strings around the declaration logic (6k quick / 60k thorough) for the correspondence; a case is "
        "non-trivial when the source bytes are not pure ASCII or carry a declaration; distinct = distinct (bytes, input_encoding, path)")
ASSUMPTIONS = [
    "codecs are CPython's; the theorems quantify over abstract codecs satisfying AsciiPrefix/AsciiCompatible/RoundTrip, and each "
    "codec of the grid is tested against those laws on every run (results in coverage.notes); shift_jis and euc-jp map U+00A5 and "
    "U+203E onto the ASCII bytes 5C/7E (round trip fails for these two characters: excluded from the repertoire) and shift_jis "
    "uses ASCII-range trail bytes (not strictly ASCII-compatible: only the AsciiPrefix theorems apply to it)",
    "CPython's decoding of a module file on import (PEP 263) is compared (tokenize.detect_encoding, fresh-process reload), not modelled",
    "texts with lone surrogates are outside the domain; non-ASCII-compatible encodings (utf-16, utf-8-sig comment) are out of scope",
    "a byte string that starts with EF BB BF is a UTF-8 BOM declaration by definition (a latin-1 text starting with these three "
    "characters cannot be told apart)",
    "the codec registry (codecs.lookup, and with it Lexer._is_utf8) is CPython's: an abstract parameter of the model (Env), its "
    "answer for the name behind a BOM is handed to the driver; the regenerated alias table is compared on the probed candidate names",
    "CPython decodes the empty byte string without looking the codec up (no LookupError for an unknown name): such inputs are "
    "skipped by the decode_raw_stream correspondence",
]
TRUSTED_EXTRA = [
    "C18: the hand transcriptions of _coding_re, _PYTHON_MAGIC_COMMENT_re, CPython's UTF-8 decoder and repr()/ascii() are compared "
    "with the originals on every run (exhaustive small strings + random)",
    "C18: tools/regen_encoding.py - the recognisers it relies on: literals and branch shapes of decode_raw_stream, the shape "
    "flags bomCompareByCodec (Lexer._is_utf8) / sourceStripsBom / namesWrittenAscii, the statement-order facts "
    "decodeBeforePreprocessors / skipAfterPreprocessors (Lexer.parse) and magicCommentFirst with the `from __future__ import` "
    "format (write_toplevel: first printer call in source order), the utf-8 alias probe of the running interpreter's codec "
    "registry, and the ast.dump fingerprints of the six modelled functions",
]
REGEN = ["Unicode", "Encoding"]

CODECS = ["ascii", "utf-8", "latin-1", "cp1251", "cp1252", "koi8-r", "shift_jis", "euc-jp", "gb2312", "iso-8859-15"]
BOM = codecs.BOM_UTF8
UTF8_ALIASES = ["UTF-8", "utf8", "utf_8", "U8", "Utf8", "cp65001", "uTf-8"]
COMMENT_FORMS = ["## -*- coding: %s -*-\n", "# -*- coding: %s -*-\n", "## coding=%s\n", "## vim: set fileencoding=%s :\n",
                 "## -*- coding: %s -*-\r\n"]
# Round 6 (C18k): the coding comment decides the source encoding however long the first line is.  The declaration line is
# the comment followed, on the same line, by a pure-ASCII remark; the total line length straddles the sizes an
# implementation might cut a "head" at (64 .. 8192 bytes).  Expectation = expectation(case): the planted comment.
LONG_REMARK = ("  product page, generated from the legacy catalogue export; keep this file in its original "
               "code page, the importer on the warehouse side cannot read anything else ")


def long_line(form, name, length):
    """`form % name` with an ASCII remark (no 'coding', starts with a blank) before the line end: a line of `length` bytes
    (never shorter than the bare comment + 2)"""
    line = form % name
    eol = "\r\n" if line.endswith("\r\n") else "\n"
    stem = line[:-len(eol)]
    remark = LONG_REMARK
    while len(stem) + len(remark) + len(eol) < length:
        remark += "~ " + LONG_REMARK[2:]
    return stem + remark[:max(2, length - len(stem) - len(eol))] + eol


ERRORS = ["strict", "replace", "ignore", "xmlcharrefreplace", "backslashreplace", "htmlentityreplace"]
OUT_ENCODINGS = [None, "", "utf-8", "latin-1", "ascii", "cp1251", "shift_jis", "utf-16", "koi8-r"]


FUTURE = ["annotations", "division"]
PRE_NAMES = [None, "recorder", "convert_comments", "zq"]


def preprocessor_of(name, seen=None):
    """the `preprocessor=` option: None | a recorder (identity that remembers what it was handed) | mako's own
    convert_comments | a text-changing one (every Z becomes ZQ; no generated identifier or keyword contains a Z)"""
    if name is None:
        return None
    if name == "recorder":
        def recorder(text):
            if seen is not None:
                seen.append(text)
            return text
        return recorder
    if name == "convert_comments":
        from mako.ext.preprocessors import convert_comments
        return convert_comments
    if name == "zq":
        return lambda text: text.replace("Z", "ZQ")
    raise ValueError(name)


def opts_of(c, seen=None):
    """keyword arguments of Template / TemplateLookup for the option dimension of a case"""
    kw = {}
    if c.get("future"):
        kw["future_imports"] = list(c["future"])
    if c.get("pre"):
        kw["preprocessor"] = preprocessor_of(c["pre"], seen)
    return kw


def encb(b) -> str:
    return ",".join(map(str, b)) if b else "-"


def optname(x):
    return "none" if x is None else enc(x)


def is_utf8_name(name):
    """the abstract `Env.isUtf8` of the model, instantiated by the running interpreter's registry"""
    try:
        return codecs.lookup(name).name == "utf-8"
    except LookupError:
        return False


def same_codec(a, b):
    try:
        return codecs.lookup(a).name == codecs.lookup(b).name
    except LookupError:
        return False


# --------------------------------------------------------------------------- codec laws (tested, not proved)

_REP = {}


def codec_table(codec):
    """(repertoire that round-trips, law report).  Whole BMP (+ an astral sample for utf-8) is encoded."""
    if codec in _REP:
        return _REP[codec]
    rep, rt_fail, low, charwise_fail = [], [], [], []
    cps = list(range(0x80, 0xD800)) + list(range(0xE000, 0x10000))
    if codec == "utf-8":
        cps += list(range(0x10000, 0x10400)) + list(range(0x1F300, 0x1F700)) + [0x10FFFF, 0xE0001, 0x2A6D6]
    for cp in cps:
        ch = chr(cp)
        try:
            b = ch.encode(codec)
        except UnicodeEncodeError:
            continue
        try:
            back = b.decode(codec)
        except UnicodeDecodeError:
            back = None
        if back != ch:
            rt_fail.append(ch)
            continue
        if ("a" + ch + "b").encode(codec) != b"a" + b + b"b":
            charwise_fail.append(ch)
            continue
        if any(x < 0x80 for x in b):
            low.append(ch)
        rep.append(ch)
    ascii_self = all(chr(i).encode(codec) == bytes([i]) and bytes([i]).decode(codec) == chr(i) for i in range(128))
    undefined = []
    if len(rep) <= 256:          # single-byte codec: the whole byte table, other direction
        for x in range(128, 256):
            try:
                c = bytes([x]).decode(codec)
                if c.encode(codec) != bytes([x]):
                    undefined.append(x)
            except UnicodeDecodeError:
                undefined.append(x)
    report = {
        "codec": codec, "repertoire_non_ascii": len(rep), "ascii_is_identity (enc and dec, all 128)": ascii_self,
        "Charwise (enc(a+c+b)=a+enc(c)+b) failures": len(charwise_fail),
        "HighBytes (non-ASCII char -> only bytes >= 0x80) failures": len(low),
        "HighBytes sample": [("U+%04X" % ord(c), c.encode(codec).hex()) for c in low[:4]],
        "RoundTrip failures (excluded from the repertoire)": ["U+%04X->%s->%r" % (ord(c), c.encode(codec).hex(),
                                                                                  c.encode(codec).decode(codec, "replace")) for c in rt_fail],
        "single-byte table: bytes >= 0x80 undefined or not round-tripping": ["%02x" % x for x in undefined],
        "strictly_ascii_compatible": ascii_self and not low and not charwise_fail,
        "ascii_prefix_law": ascii_self and not charwise_fail,
    }
    _REP[codec] = (rep, report, low)
    return _REP[codec]


def law_stream(ctx):
    st = ctx.stream("laws.codecs", "corr")
    for codec in CODECS:
        rep, report, low = codec_table(codec)
        # AsciiPrefix on random concatenations
        bad = 0
        for _ in range(200 if ctx.quick else 3000):
            h = "".join(chr(ctx.rng.randrange(128)) for _ in range(ctx.rng.randint(0, 6)))
            r = "".join(ctx.rng.choice(rep) for _ in range(ctx.rng.randint(0, 6))) if rep else ""
            t = "".join(ctx.rng.choice(rep + ["a", "#", "\n"]) for _ in range(ctx.rng.randint(0, 6)))
            st["cases"] += 1
            if (h + r + t).encode(codec) != h.encode("ascii") + (r + t).encode(codec):
                bad += 1
            if (h + r + t).encode(codec).decode(codec) != h + r + t:
                bad += 1
        report["AsciiPrefix/RoundTrip failures on random texts of the repertoire"] = bad
        ctx.notes.append({"codec_laws": report})
        ctx.branch("laws:%s:%s" % (codec, "strict" if report["strictly_ascii_compatible"] else
                                   ("prefix-only" if report["ascii_prefix_law"] else "NOT-ascii-compatible")))
        if bad or not report["ascii_prefix_law"]:
            ctx.broke("codec-law:" + codec, json.dumps(report)[:2000])


# --------------------------------------------------------------------------- generator

SAFE_ASCII = " abcXYZ019.,;:!?()[]=+-*/_~^|&@"
TEXT_EXTRA = ["'", '"', "\\", "\n", "\r\n", "\t", " # ", "#", "%", "$", "<", ">", "{", "}", "coding: x", "\\n"]


def chars_run(rng, rep, lo=1, hi=10, extra=(), share=0.55):
    out = []
    for _ in range(rng.randint(lo, hi)):
        r = rng.random()
        if rep and r < share:
            out.append(rng.choice(rep))
        elif extra and r < share + 0.15:
            out.append(rng.choice(extra))
        else:
            out.append(rng.choice(SAFE_ASCII))
    return "".join(out)


def lit(rng, rep):
    """content of a Python string literal / attribute value: no quotes, backslash, newline, braces, '%', '<', '>'"""
    return chars_run(rng, rep, 1, 8)


def gen_parts(rng, rep, n):
    parts = []
    for i in range(n):
        k = rng.choice(["text", "text", "text", "var", "filt", "lit", "lit2", "py", "mod", "def", "if", "for", "texttag",
                        "block", "comment", "cat"])
        if k == "text":
            s = chars_run(rng, rep, 1, 14, TEXT_EXTRA)
            s = s.replace("${", "$ {").replace("<%", "< %").replace("</%", "< /%")
            # no accidental control line / comment line: '%' or '##' never first on a line, and the run ends mid-line
            s = re.sub(r"(^|\n)([ \t]*)(%|##)", r"\1\2.\3", s)
            if s.endswith("\\") or s[-1:].isspace():
                s += "."
        elif k == "var":
            s = "${x}"
        elif k == "filt":
            s = "${y | h}"
        elif k == "cat":
            s = "${x + '%s' + y}" % lit(rng, rep)
        elif k == "lit":
            s = '${"%s"}' % lit(rng, rep)
        elif k == "lit2":
            s = "${'%s' | u}" % lit(rng, rep)
        elif k == "py":
            s = '<% v{0} = "{1}" %>${{v{0}}}'.format(i, lit(rng, rep))
        elif k == "mod":
            s = "<%! M{0} = '{1}' %>${{M{0}}}".format(i, lit(rng, rep))
        elif k == "def":
            s = '<%def name="f{0}(a=\'{1}\')">[${{a}}{2}]</%def>${{f{0}()}}'.format(i, lit(rng, rep), lit(rng, rep))
        elif k == "if":
            s = "\n% if x:\n" + lit(rng, rep) + "\n% endif\n"
        elif k == "for":
            s = '\n% for c in "' + lit(rng, rep) + '":\n${c}|\n% endfor\n'
        elif k == "texttag":
            s = "<%text>" + lit(rng, rep) + " ${no} </%text>"
        elif k == "block":
            s = '<%block name="b{0}">'.format(i) + lit(rng, rep) + "</%block>"
        else:
            s = "\n## " + lit(rng, rep) + "\n"
        parts.append(s)
    return parts


STYLES = ["comment", "input_encoding", "both", "conflict-comment-right", "conflict-comment-wrong", "none", "comment-line2",
          "hash-after-nonascii", "bom", "bom+comment", "bom+alias", "bom+conflict", "bom+input_encoding", "undecodable"]


def other_codec(codec):
    return "koi8-r" if codec not in ("koi8-r",) else "cp1252"


def make_case(rng, codec, style, nparts, idx):
    """a case = what the generator planted (ground truth) + the bytes; `expect` is derived from the property statement:
    effective encoding = utf-8 under a BOM (a comment naming another codec -> CompileException), else the comment on line 1,
    else input_encoding, else utf-8; undecodable -> CompileException; otherwise the template of the decoded text."""
    real = "utf-8" if style.startswith("bom") else codec
    rep = codec_table(real)[0]
    parts = gen_parts(rng, rep, nparts)
    if rep and style in ("conflict-comment-right", "conflict-comment-wrong", "both", "comment", "input_encoding"):
        parts.insert(rng.randint(0, len(parts)), rng.choice(rep) + rng.choice(rep))     # never a pure-ASCII body
    if style == "hash-after-nonascii" and not rep:
        style = "comment"
    form = rng.choice(COMMENT_FORMS)
    ie = None
    comment = None
    head = ""
    bom = False
    if style == "comment":
        comment = real
    elif style == "input_encoding":
        ie = real
    elif style == "both":
        comment, ie = real, rng.choice([real, real.upper()])
    elif style == "conflict-comment-right":
        comment, ie = real, other_codec(real)
    elif style == "conflict-comment-wrong":
        comment, ie = other_codec(real), real
    elif style == "none":
        pass
    elif style == "comment-line2":
        ie = real
        head = rng.choice(["\n", chars_run(rng, rep, 1, 5) + "\n", "x\n"]) + (form % other_codec(real))
    elif style == "hash-after-nonascii":
        ie = real
        head = rng.choice(rep) + (form.lstrip("#") if rng.random() < 0.3 else form) % rng.choice([other_codec(real), "ascii"])
        head = head if head[1:2] == "#" else head[0] + "#" + head[1:]
    elif style == "bom":
        bom = True
    elif style == "bom+comment":
        bom, comment = True, "utf-8"
    elif style == "bom+alias":
        bom, comment = True, rng.choice(UTF8_ALIASES)
    elif style == "bom+conflict":
        bom, comment = True, rng.choice(["latin-1", "koi8-r", "ascii", "cp1252"])
    elif style == "bom+input_encoding":
        bom, ie = True, rng.choice(["latin-1", "koi8-r", "ascii"])
    elif style == "undecodable":
        comment = rng.choice([None, "ascii", "utf-8"]) if real not in ("ascii",) else "ascii"
        ie = None if comment else rng.choice([None, "ascii", "utf-8"])
    # length of the declaration line: every third case with a comment on line 1 carries an ASCII remark behind the comment
    # (same line), the line ending just below / just above a power of two (64 .. 2048 bytes) or at a random length
    line1 = form % comment if comment else ""
    long_line_len = None
    if comment and rng.random() < 0.34:
        long_line_len = rng.choice([2 ** rng.randint(6, 11) + rng.randint(-2, 3), rng.randint(40, 700)])
        line1 = long_line(form, comment, long_line_len)
    text = (line1 if style != "undecodable" else "") + head + "".join(parts)
    if style == "undecodable":
        text = line1 + "".join(parts)
    data = text.encode(real)
    if style == "undecodable":
        # plant a byte that the effective codec cannot decode
        eff = comment or ie or "utf-8"
        junk = {"ascii": b"\xe9", "utf-8": rng.choice([b"\xff", b"\xc3(", b"\xe9x", b"\xf5", b"\xed\xa0\x80"])}[eff]
        pos = len(data) if rng.random() < 0.5 else len(line1.encode())
        data = data[:pos] + junk + data[pos:]
    if bom:
        data = BOM + data
    case = {"id": idx, "codec": codec, "style": style, "comment": comment, "input_encoding": ie, "bom": bom,
            "long_line": long_line_len, "data": data.hex(), "x": chars_run(rng, rep, 0, 6, ["<", "&", "'", '"']), "y": chars_run(rng, rep, 0, 6, ["<", "&", ">"])}
    return case


def expectation(case):
    """('ok', text) | ('compile', why) - from the planted declaration, never from mako's own sniffing"""
    data = bytes.fromhex(case["data"])
    comment, ie = case["comment"], case["input_encoding"]
    if case["bom"]:
        data = data[len(BOM):]
        if comment is not None and not same_codec(comment, "utf-8"):
            return ("compile", "bom-conflict")
        eff = "utf-8"
    elif comment is not None:
        eff = comment
    elif ie:
        eff = ie
    else:
        eff = "utf-8"
    try:
        return ("ok", data.decode(eff))
    except UnicodeDecodeError:
        return ("compile", "undecodable")


# --------------------------------------------------------------------------- implementation probes

class Impl:
    def __init__(self):
        import mako.lexer as LX
        import mako.template as T
        import mako.lookup as LK
        import mako.util as U
        import mako.runtime as R
        from mako import exceptions as X

        class ProbeLexer(LX.Lexer):
            def match_end(self):
                if not hasattr(self, "_c18_start"):
                    self._c18_start = self.match_position
                return super().match_end()
        self.LX, self.T, self.LK, self.U, self.R, self.X, self.ProbeLexer = LX, T, LK, U, R, X, ProbeLexer

    def lex(self, source, ie, preprocessor=None):
        """what Lexer.parse hands to its loop: ('ok', encoding, text, start) | ('compile', kind) | ('lookup',) | ('other', cls)"""
        lx = self.ProbeLexer(source, input_encoding=ie, preprocessor=preprocessor)
        try:
            lx.parse()
        except self.X.CompileException as e:
            if hasattr(lx, "_c18_start"):
                return ("ok", lx.encoding, lx.text, lx._c18_start)
            msg = str(e)
            return ("compile", "bomConflict" if "conflicting" in msg else ("undecodable" if "decode operation" in msg else msg[:40]))
        except LookupError:
            return ("lookup",)
        except Exception as e:                 # SyntaxException of a random text etc.: the decode step was passed
            if hasattr(lx, "_c18_start"):
                return ("ok", lx.encoding, lx.text, lx._c18_start)
            return ("other", type(e).__name__)
        return ("ok", lx.encoding, lx.text, lx._c18_start)


def model_lex_bytes(drv, items):
    """items: [(data: bytes, ie)] -> model prediction per item, the codec being CPython's"""
    sn = drv.ask_many(["encd bomsniff " + encb(d) for d, ie in items])
    u8 = [0 if o == "none" else int(is_utf8_name(dec(o))) for o in sn]     # the registry's answer, as Lexer._is_utf8 defines it
    outs = drv.ask_many(["encd choose %s %s %d" % (encb(d), optname(ie), u) for (d, ie), u in zip(items, u8)])
    res = [None] * len(items)
    todo = []
    for i, ((d, ie), o) in enumerate(zip(items, outs)):
        f = o.split(" ")
        if f[0] == "err":
            res[i] = ("compile", f[1])
            continue
        name = dec(f[1])
        raw = d[len(BOM):] if f[2] == "1" else d
        if not raw:
            # CPython decodes the empty byte string without looking the codec up (no LookupError for an unknown name);
            # the model's `Env.codecOf` is asked first.  Not a mako matter: skipped.
            try:
                codecs.lookup(name)
            except LookupError:
                res[i] = ("skip",)
                continue
        try:
            text = raw.decode(name)
        except LookupError:
            res[i] = ("lookup",)
            continue
        except UnicodeDecodeError:
            res[i] = ("compile", "undecodable")
            continue
        if has_surrogate(text):
            res[i] = ("skip",)
            continue
        todo.append((i, name, text))
    outs = drv.ask_many(["encd skip " + enc(t) for _, _, t in todo])
    for (i, name, text), o in zip(todo, outs):
        res[i] = ("ok", name, text, int(o))
    return res


# --------------------------------------------------------------------------- correspondence streams

CODING_TOK = ["#", "coding", ":", "=", " ", "\n", "\r", "\t", "x", "-", ".", "\u00a0", "\u00e9", "\u2028", "utf-8", "c", "od",
              "ing", "_", "\x0c", "\x1c", "\u3000", "!", "\u0660", "\u0301"]
PYMAGIC_TOK = [" ", "\t", "\x0c", "#", "coding", ":", "=", "x", "-", ".", "\n", "a b", "_", "!", "c", "\r", "\u00e9"]


def corr_regex(ctx, drv, impl, big):
    cre = impl.LX.Lexer._coding_re
    k = 5 if big else 4
    cases = []
    for n in range(0, k + 1):
        for t in itertools.product(CODING_TOK[:12], repeat=n):
            cases.append("#" + "".join(t))
    for _ in range(400000 if big else 60000):
        s = "".join(ctx.rng.choice(CODING_TOK) for _ in range(ctx.rng.randint(0, 12)))
        cases.append("#" + s if ctx.rng.random() < 0.8 else s)
    outs = drv.ask_many(["encd coding " + enc(s) for s in cases])
    st = ctx.stream("corr.coding_re")
    for s, o in zip(cases, outs):
        st["cases"] += 1
        m = cre.match(s)
        want = "none" if not m else "some %s %d" % (enc(m.group(1)), m.end())
        ctx.branch("coding_re:" + ("match" if m else "no-match"))
        if o != want:
            ctx.disagree("corr.coding_re", s, o, want)
    pre = impl.U._PYTHON_MAGIC_COMMENT_re
    cases = []
    for n in range(0, k + 1):
        for t in itertools.product(PYMAGIC_TOK[:11], repeat=n):
            cases.append("".join(t))
    for _ in range(300000 if big else 40000):
        cases.append("".join(ctx.rng.choice(PYMAGIC_TOK) for _ in range(ctx.rng.randint(0, 12))))
    outs = drv.ask_many(["encd pymagic " + enc(s) for s in cases])
    st = ctx.stream("corr.pymagic_re")
    for s, o in zip(cases, outs):
        st["cases"] += 1
        m = pre.match(s)
        want = "none" if not m else enc(m.group(1))
        if o != want:
            ctx.disagree("corr.pymagic_re", s, o, want)


BOUNDARY = [0, 0x0a, 0x23, 0x41, 0x7f, 0x80, 0x8f, 0x90, 0x9f, 0xa0, 0xbf, 0xc0, 0xc1, 0xc2, 0xdf, 0xe0, 0xe1, 0xec, 0xed, 0xee,
            0xef, 0xf0, 0xf1, 0xf3, 0xf4, 0xf5, 0xff, 0xbb]


def corr_utf8_repr(ctx, drv, big):
    cases = []
    for n in range(0, 4 if big else 3):
        for t in itertools.product(BOUNDARY, repeat=n):
            cases.append(bytes(t))
    for _ in range(600000 if big else 60000):
        kk = ctx.rng.randint(0, 9)
        if ctx.rng.random() < 0.5:
            cases.append(bytes(ctx.rng.choice(BOUNDARY) for _ in range(kk)))
        else:
            cases.append(bytes(ctx.rng.randrange(256) for _ in range(kk)))
    o1 = drv.ask_many(["encd u8i " + encb(b) for b in cases])
    o2 = drv.ask_many(["encd u8s " + encb(b) for b in cases])
    st = ctx.stream("corr.utf8_decode")
    for b, a, s in zip(cases, o1, o2):
        st["cases"] += 1
        want = enc(b.decode("utf-8", "ignore"))
        try:
            w2 = "some " + enc(b.decode("utf-8"))
            ctx.branch("utf8:valid")
        except UnicodeDecodeError:
            w2 = "none"
            ctx.branch("utf8:invalid")
        if a != want or s != w2:
            ctx.disagree("corr.utf8_decode", {"bytes": b.hex()}, [a, s], [want, w2])
    step = 64
    cps = [chr(c) for c in range(0x110000) if not 0xD800 <= c <= 0xDFFF]
    if not big:
        cps = cps[:0x3000] + cps[0x3000::7]
    chunks = ["".join(cps[i:i + step]) for i in range(0, len(cps), step)]
    o1 = drv.ask_many(["encd u8e " + enc(s) for s in chunks])
    st = ctx.stream("corr.utf8_encode", exhaustive=big)
    for s, o in zip(chunks, o1):
        st["cases"] += len(s)
        if o != encb(s.encode("utf-8")):
            ctx.disagree("corr.utf8_encode", s[:4], o[:60], encb(s.encode("utf-8"))[:60])
    # repr
    al = ["'", '"', "\\", "\n", "\r", "\t", "\x00", "\x1f", "\x7f", "a", " ", "\x80", "\xa0", "\xad", "\u00e9", "\u2028",
          "\u3000", "\u65e5", "\U0001f600", "\U000e0001", "\ufeff", "\u0378"]
    cases = []
    for n in range(0, 4):
        for t in itertools.product(al[:12], repeat=n):
            cases.append("".join(t))
    for _ in range(100000 if big else 15000):
        cases.append("".join(ctx.rng.choice(al) for _ in range(ctx.rng.randint(0, 8))))
    allc = [chr(c) for c in range(0x110000) if not 0xD800 <= c <= 0xDFFF]
    for i in range(0, len(allc), 61 if big else 997):
        cases.append("".join(allc[i:i + 5]))
    outs = drv.ask_many(["encd repr %s %s" % (enc(s), enc("".join(sorted(set(c for c in s if not c.isprintable())))))
                         for s in cases])
    st = ctx.stream("corr.repr")
    for s, o in zip(cases, outs):
        st["cases"] += 1
        if o != enc(repr(s)):
            ctx.disagree("corr.repr", s, dec(o), repr(s))


NAMES_BAD = ["nonsense", "utf-9", "latin-999", "x-unknown"]


def adversarial_sources(ctx, n):
    """byte strings around the declaration logic (not templates that need to compile)"""
    rng = ctx.rng
    names = CODECS + UTF8_ALIASES + NAMES_BAD + ["latin1", "LATIN-1", "Shift_JIS", "cp1251.x", "utf-8-sig", "U8", "Utf-8", "cp65001",
                                                  "uTf-8", "utf--8", "utf8-", "UTF", "utf.8", "utf-16"]
    out = []
    for _ in range(n):
        r = rng.random()
        name = rng.choice(names)
        pre = rng.choice([b"", b"", BOM, b"\xef\xbb", b"\xe9", b"\xc3\xa9", b" ", b"\n", b"x", b"\x83\x5c"])
        hashes = rng.choice([b"#", b"##", b"# -*- ", b"#!/x\n# ", b"## vim: set file"])
        kw = rng.choice([b"coding", b"coding", b"encoding", b"Coding", b"codin", b"coding coding"])
        sep = rng.choice([b":", b"=", b": ", b"=\t", b":\n", b":\xa0", b": \n \n", b"", b" :"])
        tail = rng.choice([b"\n", b" -*-\n", b"\r\n", b"", b" -*-", b"\xe9\n", b" coding: latin-1\n", b"\n\n", b" \xe3\x81\x82\n",
                           b" -*- " + b"." * 110 + b"\n", b" " + b"k" * 300 + b"\r\n"])
        body = bytes(rng.choice([0x41, 0x0a, 0xe9, 0xc3, 0xa9, 0x23, 0x20, 0xff, 0x83, 0x5c, 0xd0, 0xb6]) for _ in range(rng.randint(0, 6)))
        if r < 0.75:
            d = pre + hashes + kw + sep + name.encode() + tail + body
        elif r < 0.9:
            d = pre + body + hashes + kw + sep + name.encode() + tail
        else:
            d = bytes(rng.randrange(256) for _ in range(rng.randint(0, 12)))
        ie = rng.choice([None, None, "", "latin-1", "utf-8", "ascii", "koi8-r", "shift_jis", "nonsense"])
        out.append((d, ie))
    return out


def corr_decode(ctx, drv, impl, cases, big):
    """decode_raw_stream + comment skip: model (Lean decision logic + CPython codec) vs Lexer.parse"""
    items = [(bytes.fromhex(c["data"]), c["input_encoding"]) for c in cases]
    items += adversarial_sources(ctx, 60000 if big else 6000)
    pred = model_lex_bytes(drv, items)
    st = ctx.stream("corr.decode_raw_stream")
    for (d, ie), p in zip(items, pred):
        if p == ("skip",):
            continue
        st["cases"] += 1
        got = impl.lex(d, ie)
        ctx.branch("drs:" + (p[0] if p[0] != "compile" else "compile:" + p[1]))
        if got != p:
            ctx.disagree("corr.decode_raw_stream", {"bytes": d.hex(), "input_encoding": ie}, p, got)
    # str input: only the comment is looked at
    strs = []
    for c in cases:
        e = expectation(c)
        if e[0] == "ok" and not has_surrogate(e[1]):
            strs.append((e[1], c["input_encoding"]))
    for d, ie in items[len(cases):len(cases) + (20000 if big else 3000)]:
        t = d.decode("latin-1")
        strs.append((t, ie))
    o1 = drv.ask_many(["encd strenc %s %s" % (enc(t), optname(ie)) for t, ie in strs])
    o2 = drv.ask_many(["encd skip " + enc(t) for t, _ in strs])
    st = ctx.stream("corr.decode_raw_stream_str")
    for (t, ie), a, b in zip(strs, o1, o2):
        st["cases"] += 1
        got = impl.lex(t, ie)
        want = ("ok", dec(a), t, int(b))
        if got != want:
            ctx.disagree("corr.decode_raw_stream_str", {"input": t, "input_encoding": ie}, want, got)
    # preprocessors: decode, then the preprocessors on the decoded str, then the comment skip on what they return
    order = drv.ask("encd preorder").split(" ")
    dec_first, skip_after = order[0] == "1", order[1] == "1"
    st = ctx.stream("corr.preprocessors")
    sub = [(d, ie, p) for (d, ie), p in zip(items, pred) if p[0] in ("ok", "compile", "lookup")][: (20000 if big else 3000)]
    todo = []
    for k, (d, ie, p) in enumerate(sub):
        name = PRE_NAMES[1 + k % 3]
        if p[0] == "ok" and dec_first:
            try:
                t2 = preprocessor_of(name)(p[2])
            except Exception:
                continue
            todo.append((d, ie, name, p, t2))
        else:
            todo.append((d, ie, name, p, None))
    outs = drv.ask_many(["encd skip " + enc(t2 if (t2 is not None and skip_after) else (p[2] if p[0] == "ok" else "")) for d, ie, name, p, t2 in todo])
    for (d, ie, name, p, t2), o in zip(todo, outs):
        st["cases"] += 1
        seen = []
        got = impl.lex(d, ie, preprocessor=[preprocessor_of(name, seen)])
        if not dec_first:
            want = ("other",)                    # the model: a str preprocessor handed bytes (Err.preprocessorOnBytes)
            ok = got[0] == "other"
        elif p[0] == "ok":
            want = ("ok", p[1], t2, int(o))
            ok = got == want and (name != "recorder" or seen == [p[2]])
        else:
            want, ok = p, got == p
        ctx.branch("preprocessors:%s:%s" % (name, p[0]))
        if not ok:
            ctx.disagree("corr.preprocessors", {"bytes": d.hex(), "input_encoding": ie, "pre": name}, want, [got, [repr(x)[:40] for x in seen]])
    # the codecs Lean has itself: the whole function in Lean
    lean_items = [(d, ie) for d, ie in items if ie in (None, "", "latin-1", "utf-8", "ascii")][: (40000 if big else 5000)]
    outs = drv.ask_many(["encd lex %s %s" % (encb(d), optname(ie)) for d, ie in lean_items])
    sn = drv.ask_many(["encd bomsniff " + encb(d) for d, ie in lean_items])
    st = ctx.stream("corr.decode_raw_stream_lean_codecs")
    sys.path.insert(0, os.path.join(os.path.dirname(os.path.dirname(os.path.dirname(os.path.abspath(__file__)))), "tools"))
    import regen_encoding
    table = set(regen_encoding.utf8_alias_probe("utf-8")[0])           # = Generated.Encoding.utf8Aliases
    lean_names = table | {"latin-1", "latin1", "iso-8859-1", "LATIN-1", "ascii", "us-ascii", "ASCII"}
    for (d, ie), o, sname in zip(lean_items, outs, sn):
        f = o.split(" ")
        if sname != "none" and is_utf8_name(dec(sname)) != (dec(sname) in table):
            ctx.branch("drs-lean:alias-outside-the-regenerated-table")
            continue                            # the registry calls it utf-8 by normalisation; the table instance does not list it
        if f[0] == "err" and f[1] == "unknownCodec":
            if dec(f[2]) not in lean_names:
                continue                        # a codec only CPython has: covered by the stream above
        st["cases"] += 1
        got = impl.lex(d, ie)
        if f[0] == "ok":
            want = ("ok", dec(f[1]), dec(f[2]), int(f[3]))
        elif f[1] == "unknownCodec":
            want = ("lookup",)
        else:
            want = ("compile", f[1])
        if got != want:
            ctx.disagree("corr.decode_raw_stream_lean_codecs", {"bytes": d.hex(), "input_encoding": ie}, want, got)


def corr_parse_encoding(ctx, drv, impl, big):
    rng = ctx.rng
    files = []
    for _ in range(30000 if big else 4000):
        l1 = rng.choice([b"", b"# -*- coding:%s -*-\n", b"#!/usr/bin/python\n", b"x = 1\n", b"x = (\n", b" \t\x0c# coding=%s\n",
                         b"# coding: %s coding: latin-1\n", b"\xe9# coding:%s\n", b"# c\xc3\xa9 coding:%s", b"'''\n", b"\n"])
        l2 = rng.choice([b"", b"# -*- coding:%s -*-\n", b"# vim: set fileencoding=%s :\n", b"y = 2\n", b"#\xffcoding:%s\r\n"])
        name = rng.choice([b"utf-8", b"latin-1", b"koi8-r", b"shift_jis", b"a.b-c_d", b"x"])
        d = rng.choice([b"", b"", b"", BOM]) + (l1 % name if b"%s" in l1 else l1) + (l2 % name if b"%s" in l2 else l2) + b"z\n"
        files.append(d)
    reqs = []
    for d in files:
        line1 = d.split(b"\n", 1)[0] + (b"\n" if b"\n" in d else b"")
        if line1.startswith(BOM):
            line1 = line1[len(BOM):]
        try:
            impl.U.parse(line1.decode("ascii", "ignore"))
            ok = 1
        except (ImportError, SyntaxError):
            ok = 0
        reqs.append("encd penc %d %s" % (ok, encb(d)))
    outs = drv.ask_many(reqs)
    st = ctx.stream("corr.parse_encoding")
    for d, o in zip(files, outs):
        st["cases"] += 1
        try:
            r = impl.U.parse_encoding(io.BytesIO(d))
            want = "none" if r is None else "name " + enc(r)
        except SyntaxError:
            want = "err syntaxError -"
        ctx.branch("parse_encoding:" + want.split(" ")[0])
        if o != want:
            ctx.disagree("corr.parse_encoding", {"bytes": d.hex()}, o, want)


class RecordingBuffer:
    """stand-in for util.FastEncodingBuffer that remembers every instance (how it was made, what was written)"""
    made = []

    @classmethod
    def install(cls, impl):
        base = impl.U.FastEncodingBuffer

        class Rec(base):
            def __init__(self, encoding=None, errors="strict"):
                super().__init__(encoding, errors)
                self._c18 = {"encoding": encoding, "errors": errors}
                RecordingBuffer.made.append(self)
        cls.base = base
        impl.U.FastEncodingBuffer = Rec

    @classmethod
    def uninstall(cls, impl):
        impl.U.FastEncodingBuffer = cls.base


def corr_render(ctx, drv, impl, cases, big):
    """which buffer `_render` makes, what `getvalue` does with the chunks: model decision vs the real call"""
    st = ctx.stream("corr.render")
    sel = [c for c in cases if expectation(c)[0] == "ok"][: (400 if big else 60)]
    reqs, meta = [], []
    RecordingBuffer.install(impl)
    try:
        for c in sel:
            text = expectation(c)[1]
            for oe in OUT_ENCODINGS:
                errors = ctx.rng.choice(ERRORS)
                try:
                    t = impl.T.Template(text, output_encoding=oe, encoding_errors=errors)
                except Exception:
                    continue
                for as_unicode in (False, True):
                    RecordingBuffer.made.clear()
                    try:
                        got = ("ok", (t.render_unicode if as_unicode else t.render)(x=c["x"], y=c["y"]))
                    except UnicodeError as e:
                        got = ("raise", "UnicodeError")
                    except LookupError:
                        got = ("raise", "LookupError")
                    except Exception as e:
                        got = ("raise-other", type(e).__name__)
                    if not RecordingBuffer.made or got[0] == "raise-other":
                        continue
                    top = RecordingBuffer.made[0]
                    chunks = [str(x) for x in top.data] if got[0] != "ok" else None
                    # after a successful render the top buffer was popped and read; its chunks are still in .data
                    chunks = [str(x) for x in top.data]
                    if any(has_surrogate(x) for x in chunks):
                        continue
                    reqs.append("encd render %s %s %d %s" % (optname(oe), enc(errors), 1 if as_unicode else 0,
                                                            " ".join(enc(x) for x in chunks)))
                    meta.append((c, oe, errors, as_unicode, got, top._c18))
    finally:
        RecordingBuffer.uninstall(impl)
    outs = drv.ask_many(reqs)
    for (c, oe, errors, as_unicode, got, made), o in zip(meta, outs):
        st["cases"] += 1
        f = o.split(" ")
        if f[0] == "str":
            want = ("ok", dec(f[1]))
            wmade = {"encoding": None if as_unicode else oe, "errors": "strict" if as_unicode else errors}
        else:
            nums = [int(x) for x in f[1].split(",")] if f[1] != "-" else []
            i1 = nums.index(1114112)
            i2 = nums.index(1114112, i1 + 1)
            n, e, tx = ("".join(map(chr, nums[:i1])), "".join(map(chr, nums[i1 + 1:i2])), "".join(map(chr, nums[i2 + 1:])))
            wmade = {"encoding": oe, "errors": errors}
            try:
                want = ("ok", tx.encode(n, e))
            except UnicodeError:
                want = ("raise", "UnicodeError")
            except LookupError:
                want = ("raise", "LookupError")
        ctx.branch("render:%s:%s" % ("unicode" if as_unicode else "render", f[0]))
        if got != want or (made != wmade and not (as_unicode and made["encoding"] is None)):
            ctx.disagree("corr.render", {"output_encoding": oe, "errors": errors, "as_unicode": as_unicode, "text": expectation(c)[1]},
                         [want, wmade], [got, made])


# --------------------------------------------------------------------------- oracle (no Lean)

FRESH_SCRIPT = r'''
import sys, json
repo, jobs = sys.argv[1], json.load(open(sys.argv[2]))
sys.path.insert(0, repo)
from mako.template import Template
out = []
for j in jobs:
    try:
        kw = {}
        if j.get("future"):
            kw["future_imports"] = j["future"]
        if j.get("pre") == "convert_comments":
            from mako.ext.preprocessors import convert_comments
            kw["preprocessor"] = convert_comments
        elif j.get("pre") == "zq":
            kw["preprocessor"] = lambda text: text.replace("Z", "ZQ")
        elif j.get("pre") == "recorder":
            kw["preprocessor"] = lambda text: text
        t = Template(filename=j["filename"], module_directory=j["module_directory"], input_encoding=j["input_encoding"], **kw)
        r = t.render_unicode(x=j["x"], y=j["y"])
        out.append({"ok": [ord(c) for c in r], "source": [ord(c) for c in t.source]})
    except Exception as e:
        out.append({"exc": type(e).__name__, "msg": str(e)[:200]})
json.dump(out, open(sys.argv[3], "w"))
'''


class Oracle:
    def __init__(self, ctx, impl, base):
        self.ctx, self.impl, self.base = ctx, impl, base
        self.n = 0
        self.fresh_jobs = []
        os.makedirs(os.path.join(base, "t"), exist_ok=True)

    def reference(self, text, c):
        t = self.impl.T.Template(text, **opts_of(c))
        return t, t.render_unicode(x=c["x"], y=c["y"])

    def write(self, c, data, name=None):
        self.n += 1
        fn = os.path.join(self.base, "t", name or ("c%d_%d.html" % (c["id"], self.n)))
        with open(fn, "wb") as f:
            f.write(data)
        return fn

    def subject(self, path, c, data):
        """-> Template made along `path`"""
        T, ie = self.impl.T, c["input_encoding"]
        self.seen = []
        kw = opts_of(c, self.seen)
        if path == "bytes":
            return T.Template(data, input_encoding=ie, **kw)
        if path == "file":
            return T.Template(filename=self.write(c, data), input_encoding=ie, **kw)
        if path in ("moddir", "reload", "fresh", "moddir-nonascii-name"):
            name = None
            if path == "moddir-nonascii-name":
                name = "n%d_%s.html" % (self.n, c.get("fname", "\u00e9\u0436\u65e5"))
            fn = self.write(c, data, name)
            md = os.path.join(self.base, "m%d" % self.n)
            t = T.Template(filename=fn, module_directory=md, input_encoding=ie, **kw)
            if path == "moddir" or path == "moddir-nonascii-name":
                return t
            if path == "reload":
                return T.Template(filename=fn, module_directory=md, input_encoding=ie, **kw)
            self.fresh_jobs.append(({"filename": fn, "module_directory": md, "input_encoding": ie, "x": c["x"], "y": c["y"],
                                     "future": c.get("future"), "pre": c.get("pre")}, c))
            return t
        if path == "lookup":
            d = os.path.join(self.base, "l%d" % self.n)
            self.n += 1
            os.makedirs(d)
            with open(os.path.join(d, "a.html"), "wb") as f:
                f.write(data)
            lk = self.impl.LK.TemplateLookup(directories=[d], module_directory=os.path.join(d, "mods"), input_encoding=ie, **kw)
            return lk.get_template("a.html")
        raise ValueError(path)

    def check(self, c, path):
        """None if the property holds on this case along this path, else (site, detail)"""
        X = self.impl.X
        data = bytes.fromhex(c["data"])
        exp = expectation(c)
        ref_exc = None
        if exp[0] == "ok":
            try:
                self.reference(exp[1], c)
            except (X.SyntaxException, X.CompileException) as e:
                ref_exc = type(e)              # the decoded text is not a template: the bytes must fail the same way
        try:
            t = self.subject(path, c, data)
        except X.CompileException as e:
            if exp[0] == "compile" or ref_exc is X.CompileException:
                return None
            if c["bom"] and c["comment"] is not None and same_codec(c["comment"], "utf-8") and "conflicting" in str(e):
                return ("bom-alias-comment", "CompileException(%s) although the comment names utf-8" % str(e)[:90])
            if exp[0] == "ok" and "decode operation" in str(e) and self.sniff_defect(c, exp[1]):
                return ("comment-sniffed-through-dropped-bytes", "the bytes were decoded as %r: %s" % (self.sniffed(data), str(e)[:80]))
            return ("unexpected-CompileException", str(e)[:200])
        except UnicodeEncodeError as e:
            if path == "moddir-nonascii-name":
                return ("module-file-filename-outside-codec", "%s: %s" % (type(e).__name__, str(e)[:120]))
            return ("module-file-unencodable", str(e)[:200])
        except (X.SyntaxException,) as e:
            if ref_exc is X.SyntaxException:
                return None
            return ("syntax-error-only-for-bytes", str(e)[:200])
        except Exception as e:
            return ("unexpected-exception:" + type(e).__name__, str(e)[:200])
        if exp[0] == "compile":
            return ("no-CompileException:" + exp[1], "compiled; text=%r" % t.source[:60])
        if ref_exc is not None:
            return ("error-only-for-text:" + ref_exc.__name__, "")
        try:
            return self.compare(t, c, path, exp)
        except Exception as e:              # e.g. UnicodeDecodeError from Template.source / the module file
            return ("unexpected-exception-after-compile:" + type(e).__name__, str(e)[:200])

    def compare(self, t, c, path, exp):
        if c.get("pre") == "recorder":
            # "compiles to the same template as its decoded text": what a preprocessor is handed is that text
            if not self.seen:
                return ("preprocessor-not-called", "")
            for got in self.seen:
                if not isinstance(got, str):
                    return ("preprocessor-got-non-str", "the preprocessor was handed %s %r" % (type(got).__name__, got[:40]))
                if got != exp[1]:
                    site = "comment-sniffed-through-dropped-bytes" if self.sniff_defect(c, exp[1]) else "preprocessor-got-other-text"
                    return (site, "the preprocessor was handed %r instead of %r" % (got[:60], exp[1][:60]))
        ref, want = self.reference(exp[1], c)
        got = t.render_unicode(x=c["x"], y=c["y"])
        if got != want:
            if self.sniff_defect(c, exp[1]):
                return ("comment-sniffed-through-dropped-bytes", "rendered %r, decoded text renders %r" % (got[:60], want[:60]))
            return ("output-differs", "rendered %r, decoded text renders %r" % (got[:80], want[:80]))
        src = t.source
        if src != ref.source:
            if c["bom"] and src == "\ufeff" + ref.source:
                return ("source-keeps-bom", "Template.source starts with U+FEFF")
            return ("source-differs", "%r vs %r" % (src[:60], ref.source[:60]))
        r1 = t.render(x=c["x"], y=c["y"])
        if not isinstance(r1, str) or r1 != want:
            return ("render-without-output_encoding", repr(r1)[:80])
        if path in ("moddir", "reload", "fresh", "lookup", "moddir-nonascii-name"):
            bad = self.check_module_file(t, c, exp)
            if bad:
                return bad
        return None

    def sniffed(self, data):
        m = self.impl.LX.Lexer._coding_re.match(data.decode("utf-8", "ignore"))
        return m and m.group(1)

    def sniff_defect(self, c, text):
        """the defect class: the bytes show a coding comment that the decoded text does not carry (or another one)"""
        data = bytes.fromhex(c["data"])
        if c["bom"]:
            data = data[len(BOM):]
        m = self.impl.LX.Lexer._coding_re.match(text)
        return self.sniffed(data) != (m and m.group(1))

    def check_module_file(self, t, c, exp):
        path = t.module.__file__
        raw = open(path, "rb").read()
        eff = t.module._source_encoding
        try:
            detected, _ = tokenize.detect_encoding(io.BytesIO(raw).readline)
        except SyntaxError as e:
            return ("module-file-encoding-not-detectable", str(e)[:100])
        if not same_codec(detected, eff):
            return ("module-file-declares-other-encoding", "python reads it as %s, written as %s" % (detected, eff))
        try:
            text = raw.decode(eff)
        except UnicodeDecodeError as e:
            return ("module-file-not-in-declared-encoding", str(e)[:100])
        if t.code != text:
            return ("Template.code-differs-from-module-file", "")
        return None

    def run_fresh(self):
        if not self.fresh_jobs:
            return []
        script = os.path.join(self.base, "fresh.py")
        with open(script, "w") as f:
            f.write(FRESH_SCRIPT)
        jf, of = os.path.join(self.base, "jobs.json"), os.path.join(self.base, "out.json")
        json.dump([j for j, _ in self.fresh_jobs], open(jf, "w"))
        p = subprocess.run([sys.executable, script, REPO, jf, of], stdout=subprocess.PIPE, stderr=subprocess.STDOUT, timeout=1200)
        if p.returncode != 0:
            self.ctx.broke("oracle:fresh-process", p.stdout.decode(errors="replace")[-2000:])
            return []
        res = json.load(open(of))
        bad = []
        for (j, c), r in zip(self.fresh_jobs, res):
            exp = expectation(c)
            try:
                ref, want = self.reference(exp[1], c)
            except (self.impl.X.SyntaxException, self.impl.X.CompileException):
                continue
            if "exc" in r:
                bad.append((c, ("fresh-process-raises:" + r["exc"], r["msg"])))
                continue
            elif "".join(map(chr, r["ok"])) != want:
                site = "comment-sniffed-through-dropped-bytes" if self.sniff_defect(c, exp[1]) else "fresh-process-output-differs"
                bad.append((c, (site, "%r vs %r" % ("".join(map(chr, r["ok"]))[:60], want[:60]))))
            elif "".join(map(chr, r["source"])) != ref.source and not (c["bom"] and "".join(map(chr, r["source"])) == "\ufeff" + ref.source):
                bad.append((c, ("fresh-process-source-differs", "")))
        self.fresh_jobs = []
        return bad


def shrink_case(c, fails):
    """drop characters of the body (everything after the declaration line) while the violation persists"""
    try:
        data = bytes.fromhex(c["data"])
        body0 = data[len(BOM):] if c["bom"] else data
        real = "utf-8" if c["bom"] else c["codec"]
        text = body0.decode(real)
    except UnicodeDecodeError:
        return c
    nl = text.find("\n") + 1 if c["comment"] else 0
    head, body = text[:nl], text[nl:]

    def mk(chars):
        d = (head + "".join(chars)).encode(real)
        cc = dict(c)
        cc["data"] = ((BOM if c["bom"] else b"") + d).hex()
        return cc

    def f(chars):
        try:
            return fails(mk(chars))
        except Exception:
            return False
    small = ddmin(list(body), f, 300)
    cc = mk(small)
    for k in ("x", "y"):
        c2 = dict(cc)
        c2[k] = ""
        try:
            if fails(c2):
                cc = c2
        except Exception:
            pass
    return cc


def describe(c):
    d = dict(c)
    data = bytes.fromhex(c["data"])
    d["input"] = data.decode("latin-1")        # the bytes, one character per byte (exact, printable in JSON)
    return d


WITNESSES = [
    # (case, path) - the recorded witnesses of the known findings, replayed on every run
    ({"id": -1, "codec": "utf-8", "style": "bom+alias", "comment": "UTF-8", "input_encoding": None, "bom": True,
      "data": (BOM + b"## coding: UTF-8\nhi").hex(), "x": "", "y": ""}, "bytes"),
    ({"id": -2, "codec": "latin-1", "style": "hash-after-nonascii", "comment": None, "input_encoding": "latin-1", "bom": False,
      "data": b"\xe9# coding: ascii\nx".hex(), "x": "", "y": ""}, "bytes"),
    ({"id": -3, "codec": "utf-8", "style": "bom", "comment": None, "input_encoding": None, "bom": True,
      "data": (BOM + b"hi").hex(), "x": "", "y": ""}, "bytes"),
    ({"id": -4, "codec": "ascii", "style": "input_encoding", "comment": None, "input_encoding": "ascii", "bom": False,
      "data": b"hi".hex(), "x": "", "y": "", "fname": "\u00e9"}, "moddir-nonascii-name"),
]

def _long_witnesses():
    out = []
    body = "\u041f\u0440\u0438\u0432\u0435\u0442, ${x}! \u0426\u0435\u043d\u0430: ${y}\n"
    k = -10
    for length in (64, 100, 129, 200, 257, 520, 1030, 4100, 8200):
        for codec, ie, path, form in (("koi8-r", None, "bytes", COMMENT_FORMS[0]), ("cp1251", "latin-1", "bytes", COMMENT_FORMS[2]),
                                      ("cp1251", "latin-1", "reload", COMMENT_FORMS[4]), ("koi8-r", "utf-8", "file", COMMENT_FORMS[3])):
            text = long_line(form, codec, length) + body
            out.append(({"id": k, "codec": codec, "style": "long-comment-line" + ("+input_encoding" if ie else ""), "comment": codec,
                         "input_encoding": ie, "bom": False, "data": text.encode(codec).hex(), "x": "\u041c\u0438\u0440", "y": "42"}, path))
            k -= 1
        # a UTF-8 BOM contradicted by a comment at the end of / before a long line is a CompileException; an agreeing one is fine
        for comment, style in (("latin-1", "bom+conflict"), ("utf-8", "bom+comment")):
            text = long_line(COMMENT_FORMS[0], comment, length) + ("plain ascii body\n" if comment != "utf-8" else body)
            out.append(({"id": k, "codec": "utf-8", "style": "long-comment-line:" + style, "comment": comment, "input_encoding": None,
                         "bom": True, "data": (BOM + text.encode("utf-8")).hex(), "x": "", "y": ""}, "bytes"))
            k -= 1
    return out


LONG_WITNESSES = _long_witnesses()


def oracle_grid(ctx, impl, cases):
    base = tempfile.mkdtemp(prefix="c18_")
    try:
        orc = Oracle(ctx, impl, base)
        st = ctx.stream("oracle.grid", "oracle")
        reported = set()

        def report(c, path, bad):
            site = bad[0]
            key = (site, c["style"] if site.startswith(("output", "source-d", "unexpected")) else "")
            if key in reported:
                return
            reported.add(key)
            small = c
            if c["id"] >= 0:
                small = shrink_case(c, lambda cc: (orc.check(cc, path) or ("",))[0] == site)
            d = describe(small)
            d["path"] = path
            ctx.violation(site, d, bad[1], "oracle.grid")

        for c, path in WITNESSES + LONG_WITNESSES:
            st["cases"] += 1
            if c["style"].startswith("long-comment-line"):
                ctx.branch("oracle:long-comment-line-witness:%s" % path)
            bad = orc.check(c, path)
            if bad:
                report(c, path, bad)
        paths_all = ["bytes", "file", "moddir", "reload", "fresh", "lookup", "moddir-nonascii-name"]
        for c in cases:
            exp = expectation(c)
            if exp[0] == "compile":
                paths = ["bytes", "file", "moddir", "lookup"]
            else:
                paths = paths_all
            if ctx.quick and c["style"] in ("conflict-comment-right", "conflict-comment-wrong") and exp[0] == "ok":
                # {comment vs input_encoding conflicting} x {module directory, fresh Template, fresh process}: always all
                paths = ["bytes", "moddir", "reload", "fresh", "lookup"]
            elif ctx.quick:
                # every case runs 'bytes' and two more paths (rotating), so that every cell of the grid is reached
                k = c["id"]
                rest = [p for p in paths if p != "bytes"]
                paths = ["bytes"] + [rest[k % len(rest)], rest[(k + 3) % len(rest)]]
            for path in paths:
                st["cases"] += 1
                ctx.branch("oracle:%s:%s" % (c["style"], path))
                ctx.branch("oracle-option:%s:future=%s,pre=%s" % (path, "yes" if c.get("future") else "no", c.get("pre")))
                ctx.branch("oracle-codec:%s" % c["codec"])
                if c.get("long_line"):
                    ctx.branch("oracle:declaration-line-length:%s" % ("<=128" if c["long_line"] <= 128 else "129..1024" if c["long_line"] <= 1024 else ">1024"))
                if c["comment"] or c["input_encoding"] or c["bom"] or not bytes.fromhex(c["data"]).isascii():
                    ctx.nontriv((c["data"], c["input_encoding"], path))
                bad = orc.check(c, path)
                if bad:
                    report(c, path, bad)
            if len(orc.fresh_jobs) >= 400:
                for cc, bad in orc.run_fresh():
                    report(cc, "fresh", bad)
        for cc, bad in orc.run_fresh():
            report(cc, "fresh", bad)
        ctx.sample({"stream": "oracle.grid", "case": {k: v for k, v in describe(cases[0]).items() if k != "data"}})
    finally:
        shutil.rmtree(base, ignore_errors=True)


def oracle_render(ctx, impl, cases):
    """render() is str without output_encoding, else exactly render_unicode().encode(output_encoding, encoding_errors);
    render_unicode() ignores output_encoding"""
    st = ctx.stream("oracle.render", "oracle")
    sel = [c for c in cases if expectation(c)[0] == "ok"]
    sel = sel[:: max(1, len(sel) // (150 if ctx.quick else 1500))]
    reported = set()
    for c in sel:
        text = expectation(c)[1]
        try:
            plain = impl.T.Template(text)
            uni = plain.render_unicode(x=c["x"], y=c["y"])
        except (impl.X.SyntaxException, impl.X.CompileException):
            continue
        for oe in OUT_ENCODINGS:
            for errors in (ERRORS if not ctx.quick else [ctx.rng.choice(ERRORS), "strict"]):
                st["cases"] += 1
                case = {"input": text, "output_encoding": oe, "encoding_errors": errors, "x": c["x"], "y": c["y"]}
                # both as text and as bytes in the codec with input_encoding
                t = impl.T.Template(text, output_encoding=oe, encoding_errors=errors)
                bad = None
                try:
                    u2 = t.render_unicode(x=c["x"], y=c["y"])
                except Exception as e:
                    u2 = e
                if not isinstance(u2, str) or u2 != uni:
                    bad = ("render_unicode-depends-on-output_encoding", "%r vs %r" % (u2 if isinstance(u2, Exception) else u2[:60], uni[:60]))
                try:
                    want = ("ok", uni.encode(oe, errors)) if oe else ("ok", uni)
                except (UnicodeError, LookupError) as e:
                    want = ("raise", type(e).__name__)
                try:
                    got = ("ok", t.render(x=c["x"], y=c["y"]))
                except (UnicodeError, LookupError) as e:
                    got = ("raise", type(e).__name__)
                ctx.branch("oracle-render:%s:%s" % ("none" if not oe else "encoded", want[0]))
                if bad is None and (got != want or (got[0] == "ok" and type(got[1]) is not type(want[1]))):
                    bad = ("render-not-encode-of-render_unicode" if oe else "render-not-str-without-output_encoding",
                           "render() -> %r, expected %r" % (got, want))
                if bad and bad[0] not in reported:
                    reported.add(bad[0])

                    def fails(s, site=bad[0], oe=oe, errors=errors, c=c):
                        try:
                            return (check_render_case(impl, {"input": s, "output_encoding": oe, "encoding_errors": errors,
                                                             "x": c["x"], "y": c["y"]}) or ("",))[0] == site
                        except Exception:
                            return False
                    case["input"] = "".join(ddmin(list(text), lambda ch: fails("".join(ch)), 300))
                    ctx.violation(bad[0], case, bad[1], "oracle.render")


def check_render_case(impl, case):
    t0 = impl.T.Template(case["input"])
    uni = t0.render_unicode(x=case["x"], y=case["y"])
    oe, errors = case["output_encoding"], case["encoding_errors"]
    t = impl.T.Template(case["input"], output_encoding=oe, encoding_errors=errors)
    try:
        u2 = t.render_unicode(x=case["x"], y=case["y"])
    except Exception as e:
        u2 = e
    if not isinstance(u2, str) or u2 != uni:
        return ("render_unicode-depends-on-output_encoding", "")
    try:
        want = ("ok", uni.encode(oe, errors)) if oe else ("ok", uni)
    except (UnicodeError, LookupError) as e:
        want = ("raise", type(e).__name__)
    try:
        got = ("ok", t.render(x=case["x"], y=case["y"]))
    except (UnicodeError, LookupError) as e:
        got = ("raise", type(e).__name__)
    if got != want or (got[0] == "ok" and type(got[1]) is not type(want[1])):
        return ("render-not-encode-of-render_unicode" if oe else "render-not-str-without-output_encoding", "%r vs %r" % (got, want))
    return None


# --------------------------------------------------------------------------- module files: model vs real (corr)

def corr_module(ctx, drv, impl, cases, big):
    """real module files: magic comment = model's magicLine; parse_encoding(model) = util.parse_encoding = lexer.encoding;
    text-only templates: the argument of __M_writer is the model's repr; every non-ASCII character of the module text comes
    from the template, its file name or its uri (the hypothesis of `module_file_written`); Template.source vs the model"""
    base = tempfile.mkdtemp(prefix="c18m_")
    st = ctx.stream("corr.module_file")
    try:
        sel = [c for c in cases if expectation(c)[0] == "ok" and c["style"] in ("comment", "input_encoding", "both", "bom", "none",
                                                                                   "conflict-comment-right", "bom+comment")]
        sel = sel[:: max(1, len(sel) // (600 if big else 80))]
        n = 0
        rows = []
        for c in sel:
            n += 1
            data = bytes.fromhex(c["data"])
            fn = os.path.join(base, "t%d%s.html" % (n, ["", "\u00e9", "\u0436\u65e5'", "\u2028\U0001f600"][n % 4]))
            open(fn, "wb").write(data)
            try:
                t = impl.T.Template(filename=fn, module_directory=os.path.join(base, "m"), input_encoding=c["input_encoding"],
                                    **({"future_imports": FUTURE} if n % 2 else {}))
            except (impl.X.SyntaxException, impl.X.CompileException):
                continue
            except Exception as e:
                st["cases"] += 1
                ctx.disagree("corr.module_file", {"what": "module file cannot be written/loaded", "bytes": data.hex(),
                                                  "input_encoding": c["input_encoding"]}, "loads", "%s: %s" % (type(e).__name__, str(e)[:120]))
                continue
            raw = open(t.module.__file__, "rb").read()
            rows.append((c, t, raw, data, fn))
        # plain-text templates for the repr tie
        for i in range(300 if big else 40):
            codec = CODECS[i % len(CODECS)]
            rep = codec_table(codec)[0]
            body = chars_run(ctx.rng, rep, 1, 12, ["'", '"', "\\", "\t", " "]).replace("$", "S").replace("<", "L").replace("#", "H").replace("%", "P")
            if body.endswith("\\"):
                body += "x"
            text = "## -*- coding: %s -*-\n%s" % (codec, body)
            n += 1
            fn = os.path.join(base, "p%d.html" % n)
            data = text.encode(codec)
            open(fn, "wb").write(data)
            try:
                t = impl.T.Template(filename=fn, module_directory=os.path.join(base, "m"))
            except Exception as e:
                st["cases"] += 1
                ctx.disagree("corr.module_file", {"what": "module file cannot be written/loaded", "bytes": data.hex()},
                             "loads", "%s: %s" % (type(e).__name__, str(e)[:120]))
                continue
            raw = open(t.module.__file__, "rb").read()
            rows.append(({"plain": body, "comment": codec, "input_encoding": None, "bom": False}, t, raw, data, fn))
        reqs = []
        for c, t, raw, data, fn in rows:
            eff = t.module._source_encoding
            reqs.append("encd magic " + enc(eff))
            line1 = raw.split(b"\n", 1)[0] + b"\n"
            try:
                impl.U.parse(line1.decode("ascii", "ignore"))
                ok = 1
            except (ImportError, SyntaxError):
                ok = 0
            reqs.append("encd penc %d %s" % (ok, encb(raw[:400])))
            reqs.append("encd modenc " + optname(eff))
            reqs.append("encd ascii " + enc(fn))
            reqs.append("encd modhead %s%s" % (enc(eff), "".join(" " + enc(x) for x in (t.future_imports or []))))
        outs = drv.ask_many(reqs)
        rep_reqs, rep_rows = [], []
        for i, (c, t, raw, data, fn) in enumerate(rows):
            st["cases"] += 1
            eff = t.module._source_encoding
            magic, penc, modenc, afn, head = outs[5 * i], outs[5 * i + 1], outs[5 * i + 2], outs[5 * i + 3], outs[5 * i + 4]
            ctx.branch("module:future_imports=%s" % ("yes" if t.future_imports else "no"))
            if not raw.startswith(dec(head).encode("ascii")):
                ctx.disagree("corr.module_file", {"what": "first lines (magic comment, from __future__ import)", "encoding": eff,
                                                  "future_imports": t.future_imports}, dec(head), raw[:120].decode("latin-1"))
            mfn = re.search(rb"^_template_filename = (.*)$", raw, re.M)
            if not mfn or mfn.group(1) != dec(afn).encode("ascii"):
                ctx.disagree("corr.module_file", {"what": "_template_filename line", "filename": fn}, dec(afn),
                             mfn and mfn.group(1).decode("latin-1"))
            line1 = raw.split(b"\n", 1)[0]
            if line1 != dec(magic).encode("ascii"):
                ctx.disagree("corr.module_file", {"what": "magic comment", "encoding": eff}, dec(magic), line1.decode("latin-1"))
            real_penc = impl.U.parse_encoding(io.BytesIO(raw))
            if penc != "name " + enc(eff) or real_penc != eff:
                ctx.disagree("corr.module_file", {"what": "parse_encoding", "encoding": eff}, penc, real_penc)
            if dec(modenc) != eff:
                ctx.disagree("corr.module_file", {"what": "module encoding", "encoding": eff}, dec(modenc), eff)
            try:
                mtext = raw.decode(eff)
            except UnicodeDecodeError:
                ctx.disagree("corr.module_file", {"what": "module bytes are not in the declared encoding", "encoding": eff}, "decodable", "not")
                continue
            try:
                src = t.source
            except Exception as e:
                ctx.disagree("corr.module_file", {"what": "Template.source raises", "encoding": eff}, "a str", "%s: %s" % (type(e).__name__, str(e)[:100]))
                continue
            allowed = set(src) | set(fn) | set(t.uri)
            stray = sorted(ch for ch in set(mtext) if ord(ch) > 127 and ch not in allowed)
            if stray:
                ctx.disagree("corr.module_file", {"what": "non-ASCII character of the module text not from template/filename/uri"},
                             "none", stray[:5])
            ctx.branch("module:enc:" + codecs.lookup(eff).name)
            if "plain" in c:
                m = re.search(r"__M_writer\((.*)\)\n", mtext)
                rep_reqs.append("encd repr %s %s" % (enc(c["plain"]), enc("".join(sorted(set(x for x in c["plain"] if not x.isprintable()))))))
                rep_rows.append((c, m.group(1) if m else None))
        outs = drv.ask_many(rep_reqs)
        for (c, real), o in zip(rep_rows, outs):
            st["cases"] += 1
            if real != dec(o):
                ctx.disagree("corr.module_file", {"what": "repr of the text", "text": c["plain"]}, dec(o), real)
        # Template.source: decode the given bytes (BOM included) with _source_encoding
        st = ctx.stream("corr.template_source")
        for c, t, raw, data, fn in rows:
            st["cases"] += 1
            eff = t.module._source_encoding
            try:
                want = (data[len(BOM):] if data.startswith(BOM) else data).decode(eff)
            except UnicodeDecodeError:
                want = None
            try:
                got_src = t.source
            except Exception as e:
                got_src = "%s raised" % type(e).__name__
            if got_src != want:
                ctx.disagree("corr.template_source", {"bytes": data.hex(), "encoding": eff}, want, got_src)
        lean = []
        for c, t, raw, data, fn in rows:
            if t.module._source_encoding in ("utf-8", "latin-1", "ascii", "UTF-8"):
                try:
                    lean.append((c, t, data, t.source))
                except Exception:
                    pass
        outs = drv.ask_many(["encd source %s %s" % (encb(d), enc(t.module._source_encoding)) for c, t, d, _ in lean])
        for (c, t, d, src), o in zip(lean, outs):
            st["cases"] += 1
            want = "ok str " + enc(src)
            if o != want:
                ctx.disagree("corr.template_source", {"bytes": d.hex(), "lean": True}, o, want)
    finally:
        shutil.rmtree(base, ignore_errors=True)


# --------------------------------------------------------------------------- entry points

def build_cases(ctx):
    per_cell = 2 if ctx.quick else 14
    cases = []
    idx = 0
    for codec in CODECS:
        for style in STYLES:
            if style == "undecodable" and codec == "utf-8":
                pass
            for _ in range(per_cell):
                c = make_case(ctx.rng, codec, style, ctx.rng.randint(2, 7), idx)
                # the option dimension: future_imports x preprocessor, rotating so that every (style, option) pair and,
                # over the codecs, every (path, option) pair is reached
                c["future"] = FUTURE if idx % 2 else None
                c["pre"] = PRE_NAMES[(idx // 2 + CODECS.index(codec)) % len(PRE_NAMES)]
                cases.append(c)
                idx += 1
    return cases


def run(ctx):
    import warnings
    warnings.simplefilter("ignore", SyntaxWarning)
    impl = Impl()
    cases = build_cases(ctx)
    ctx.log("C18: %d generated cases (%d codecs x %d declaration styles)" % (len(cases), len(CODECS), len(STYLES)))
    try:
        drv = ctx.driver()
        fp = drv.ask("encd fp")
        changed = [kv.split("=")[0] for kv in fp.split(" ") if kv.endswith("=0")]
        big = (not ctx.quick) or bool(changed)
        if changed:
            ctx.notes.append({"fingerprints_changed": changed,
                              "effect": "regex / decode correspondence streams run at thorough size (no verdict by itself)"})
            ctx.log("fingerprints changed: %s -> thorough-size correspondence" % changed)
        ctx.branch("fingerprints:" + ("changed" if changed else "as-modelled"))
        law_stream(ctx)
        corr_regex(ctx, drv, impl, big)
        corr_utf8_repr(ctx, drv, big)
        corr_decode(ctx, drv, impl, cases, big)
        corr_parse_encoding(ctx, drv, impl, big)
        corr_module(ctx, drv, impl, cases, big)
        corr_render(ctx, drv, impl, cases, big)
    finally:
        try:
            oracle_grid(ctx, impl, cases)
        finally:
            oracle_render(ctx, impl, cases)
    rep = {c: codec_table(c)[1]["repertoire_non_ascii"] for c in CODECS}
    ctx.notes.append({"repertoire_sizes": rep})


def replay(ctx, data):
    """re-run the recorded case on the implementation (oracle) and show the model's decision"""
    impl = Impl()
    case = data.get("case") or (data.get("first_disagreements") or [{}])[0].get("case")
    print("replaying", json.dumps(case, ensure_ascii=True)[:600])
    if not isinstance(case, dict):
        print("nothing to replay (no failing input was found); broken:", data.get("no_longer_checks"))
        return False
    if "output_encoding" in case and "encoding_errors" in case:
        bad = check_render_case(impl, case)
        print("oracle:", bad or "holds")
        return bad is None
    if "data" in case and "path" in case:
        base = tempfile.mkdtemp(prefix="c18r_")
        try:
            orc = Oracle(ctx, impl, base)
            bad = orc.check(case, case["path"])
            if bad is None and case["path"] == "fresh":
                res = orc.run_fresh()
                bad = res[0][1] if res else None
            print("expected (from the planted declaration):", expectation(case)[0])
            print("oracle:", bad or "holds")
            try:
                d = bytes.fromhex(case["data"])
                print("model :", model_lex_bytes(ctx.driver(), [(d, case["input_encoding"])])[0])
                print("impl  :", impl.lex(d, case["input_encoding"]))
            except Exception as e:
                print("model side not available:", e)
            return bad is None
        finally:
            shutil.rmtree(base, ignore_errors=True)
    if "bytes" in case:
        d = bytes.fromhex(case["bytes"])
        ie = case.get("input_encoding")
        m = model_lex_bytes(ctx.driver(), [(d, ie)])[0]
        i = impl.lex(d, ie)
        print("model :", m)
        print("impl  :", i)
        return m == i
    return False


DRIVER_OPS = ["encd"]   # per-area driver executable(s) this check talks to (built before any worker is forked)
