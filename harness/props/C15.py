"""C15 - module files are regenerated when stale and never observed half-written.

corr (a): the real `Template(filename=…, module_directory=…)` runs in-process with proxies around every
          file-system call mako makes (tempfile.mkstemp, os.fdopen + the raw writes and the close of the real
          BufferedWriter it returns, os.write, os.close, shutil.move, os.stat, os.path.exists, os.makedirs, open
          of the source, a direct open() of the destination, compat.load_module) over random histories (<= 12
          ops: touch the source newer/older/equal, delete the module, remove the module directory, replace the
          module by one with another magic number and/or generated from another template file, construct -
          also with a raising or short-writing primitive in either write group and with module_writer hooks;
          the Template is given an absolute name, a relative one (cwd = the sandbox; optionally re-spelled
          './src//t.html' <-> 'src/t.html' between constructs) or comes from a TemplateLookup over a relative
          directory);
          per construct the recorded write-group sequence, the number of (re)writes, what is served, what the
          module path holds afterwards (version, magic, template file, mtime), the left-over temp files and the
          hook calls are compared with the Lean model (`modfile hist`).  The file system's clock is a logical
          one (>= 1 s per history op); stamps carry a sub-second part (sources T.25, modules T.31) while the
          model's are whole seconds.  Also `util.verify_directory` vs `modfile vdir`, the post-states of (b) vs
          the model, and the outcomes of (c) vs `modfile conc`.
oracle  : judged against the property text, no Lean involved:
      (in-process) every construct of (a): written iff missing / older (whole seconds) / other magic number /
          generated from another file (file identity, not the spelling of the name); a reused module keeps bytes, inode and mtime; module_writer called with
          (current module source, module path) exactly when due; what is served is current after a rewrite or
          when the file was current; the module path holds nothing or a complete module;
      (b) fault enumeration in SUBPROCESSES: 5 start states x every call k of the write group x {kill before,
          kill after, kill midway (write), raise, short write}; then a fresh process lists the directory, checks
          the module path in {absent, complete old, complete new} and constructs a fresh Template which must
          render the CURRENT source;
      (c) 2-8 processes constructing the same Template concurrently (6 start states), plus one process that is
          killed at a random call of its write group; all others must render the current source and the module
          path must hold the complete current module afterwards (corr: what they served and the final module
          must be among the outcomes the construct-interleaving model reaches for that start state, with the
          dying process stopped at the same point, under random schedules);
      (d) same-second same-size rewrite with bytecode caching ENABLED in the worker, through the built-in writer
          and through a module_writer: the current source must be rendered.
"""
from __future__ import annotations

import importlib.util
import json
import os
import shutil
import subprocess
import sys
import tempfile
import time

RULE = ("histories of <= 12 ops over {touch source newer/older/equal (relative to the module's mtime; sources are "
        "stamped T.25, modules T.31), delete module, remove module directory, replace module by one with another "
        "_magic_number and/or generated from another template file (fresh, equal or stale mtime), construct, "
        "construct with a raising or short-writing primitive in either write group, construct with a module_writer "
        "hook (installing / doing nothing), re-spell the relative file name}; each history runs with an absolute file name, a "
        "relative one or through a TemplateLookup over a relative directory; + 15 fixed histories; a history is non-trivial when it contains a reuse "
        "and a rewrite; distinct = distinct op-token sequences.  Fault enumeration: start states {no module, stale "
        "module, other magic number, generated from another file, stale + missing directory} x every call k of the "
        "write group x {kill before, kill after, kill midway (write), raise, short write} = 70 cases.  Concurrency: "
        "n in {2,4,8} (thorough 2..8 x 6 repetitions) x start states {none, stale, other magic, other file, fresh, "
        "source in the future} x 3-12 rounds per process + one process killed at a random call of its write group; "
        "model side: 40 (thorough 200) random complete schedules + sequential + lock step per configuration.")
ASSUMPTIONS = [
    "POSIX rename within one directory is atomic and mkstemp names are unique (the OS's part of the property)",
    "the file system's clock is modelled as a logical clock advancing >= 1 s per history op in streams (a)-(c); "
    "the same-second case is probed separately in (d)",
    "streams (a)-(c) run with sys.dont_write_bytecode (as this sandbox does); CPython's bytecode cache is modelled "
    "in the sequential model (World.pyc) and probed by (d) with bytecode writing enabled; the interleaving model "
    "of (c) has no bytecode cache",
    "a module file installed by somebody else does not collide in (mtime second, size) with the cached bytecode "
    "of the module path (HistOkFrom) - CPython validates cached bytecode by that key",
    "the source is not modified while constructs are running (concurrent_constructs_converge; the theorem "
    "concurrent_constructs_need_stable_source_counterexample shows what happens otherwise - outside the property's quantifier)",
    "the oracle judges 'generated from this template file' by file identity (os.path.realpath of the recorded and "
    "the given name) while code and theorem (rewrite_iff_due) compare os.path.normpath of the names: no spelling the "
    "generator produces distinguishes the two (absolute name; 'src/t.html' <-> './src//t.html'; lookup over a "
    "relative directory) - symlinked names and relative-vs-absolute spellings of one file at ONE module path are out "
    "of scope",
    "durability across power loss (fsync) is not claimed by the property",
]
TRUSTED_EXTRA = ["C15: the proxies in harness/props/C15.py that record / fail mako's file-system calls (incl. the raw "
                 "layer under the real BufferedWriter); tools/regen_modfile.py (reads the writer's primitive sequence, "
                 "the staleness test and the re-check from the AST); the driver-side glue of `modfile hist/conc`"]
REGEN = ["ModFile"]

VERIF = os.path.dirname(os.path.dirname(os.path.dirname(os.path.abspath(__file__))))
REPO = os.environ.get("MAKO_REPO", "/repo")
PY = "/venv/bin/python"
GROUP_CALLS = ("mkstemp", "write", "close", "move")
ACTS_OF = {"mkstemp": 1, "write": 2, "close": 1, "move": 1}


def src_ns(sec):
    """mtimes carry a sub-second part, as real file systems give them: a source stamped in second T is T.25 …"""
    return sec * 1_000_000_000 + 250_000_000


def mod_ns(sec):
    """… a module file written in second T is T.31 (never older than a source of the same second in any reading)"""
    return sec * 1_000_000_000 + 310_000_000


def src_text(k):
    return "[[v%d]] ${7*6}\n" % k


def rendered(k):
    return "[[v%d]] 42\n" % k


def version_of(out):
    if isinstance(out, str) and out.startswith("[[v") and out.endswith("]] 42\n"):
        try:
            return int(out[3:-6])
        except ValueError:
            return None
    return None


# --------------------------------------------------------------------------- proxies around mako's FS calls

class Killed(BaseException):
    pass


class FaultPlan:
    """what to do at the j-th call (0-based) of write group g (1 = staleness, 2 = magic re-check)"""

    def __init__(self, faults=None):
        self.faults = dict(faults or {})          # (g, j) -> 'r' | 's' | 'kb' | 'ka' | 'km'

    def at(self, g, j):
        return self.faults.get((g, j))


class Recorder:
    """installs proxies on mako.template / mako.util / mako.compat; records every FS call mako makes"""

    def __init__(self, plan=None, clock=None, kill=None):
        self.plan = plan or FaultPlan()
        self.clock = clock                      # logical FS clock: mtime given to a moved module file
        self.kill = kill or (lambda: os._exit(9))
        self.ops = []
        self.group = 0
        self.j = 0
        self.loaded = False
        self.groups_begun = 0
        self.seen = set()
        self.fds = {}
        self.leaked = []
        self.makedirs_failures = 0
        self.saved = []

    # -- bookkeeping
    def rec(self, *a):
        self.ops.append(list(a))

    def begin_construct(self):
        self.ops = []
        self.group = 0
        self.j = 0
        self.loaded = False
        self.groups_begun = 0
        self.seen = set()

    def _fault(self, name):
        """fault for this primitive of the current write group (mkstemp=0, write=1, close=2, move=3); a write that is
        repeated (code that writes until complete) is faulted at its first call only"""
        if name in ("mkstemp", "opendest"):
            self.group = 2 if self.loaded else 1
            self.groups_begun += 1
            self.seen = set()
        j = 0 if name == "opendest" else GROUP_CALLS.index(name)
        if j in self.seen:
            return None
        self.seen.add(j)
        return self.plan.at(self.group, j)

    # -- installation
    def install(self):
        import mako.template as T
        import mako.util as U
        import mako.compat as C
        rec = self
        real_os, real_tempfile, real_shutil = os, tempfile, shutil

        class PathProxy:
            def __getattr__(self, n):
                return getattr(real_os.path, n)

            def exists(self, p):
                r = real_os.path.exists(p)
                rec.rec("exists", p, r)
                return r

        class OsProxy:
            path = PathProxy()

            def __getattr__(self, n):
                return getattr(real_os, n)

            def stat(self, p, *a, **k):
                rec.rec("stat", p)
                return real_os.stat(p, *a, **k)

            def makedirs(self, p, *a, **k):
                rec.rec("makedirs", p)
                if rec.makedirs_failures > 0:
                    rec.makedirs_failures -= 1
                    raise OSError(13, "injected makedirs failure")
                return real_os.makedirs(p, *a, **k)

            def write(self, fd, data):
                f = rec._fault("write")
                data = bytes(data)
                if f == "kb":
                    rec.kill()
                if f in ("r", "s", "km"):
                    n = real_os.write(fd, data[: len(data) // 2])
                    rec.rec("write", fd in rec.fds, len(data), n, f)
                    rec.last_data = data
                    if f == "km":
                        rec.kill()
                    if f == "r":
                        raise OSError(28, "injected write failure")
                    return n
                n = 0
                while n < len(data):                    # the OS' part: here a full write
                    n += real_os.write(fd, data[n:])
                rec.rec("write", fd in rec.fds, len(data), n, None)
                rec.last_data = data
                if f == "ka":
                    rec.kill()
                return n

            def fdopen(self, fd, mode="r", *a, **k):
                """os.fdopen(fd, 'wb'): a REAL io.BufferedWriter (its buffering and its write-until-complete loop are
                what the code relies on) over a raw layer that goes through the recording / failing os.write, os.close"""
                import io
                osp_ = self
                if "b" not in mode or ("w" not in mode and "a" not in mode):
                    return real_os.fdopen(fd, mode, *a, **k)

                class Raw(io.RawIOBase):
                    def writable(self_):
                        return True

                    def fileno(self_):
                        return fd

                    def write(self_, b):
                        return osp_.write_raw(fd, bytes(b))

                    def close(self_):
                        if not self_.closed:
                            try:
                                osp_.close(fd)
                            finally:
                                io.RawIOBase.close(self_)
                rec.rec("fdopen", fd in rec.fds)
                try:
                    bs = real_os.fstat(fd).st_blksize
                except OSError:
                    bs = 0
                return io.BufferedWriter(Raw(), bs if bs > 1 else io.DEFAULT_BUFFER_SIZE)

            def write_raw(self, fd, data):
                """one raw write: faulted like os.write, but a full write is ONE os.write call (no loop of ours)"""
                f = rec._fault("write")
                if f == "kb":
                    rec.kill()
                if f in ("r", "s", "km"):
                    n = real_os.write(fd, data[: len(data) // 2])
                    rec.rec("write", fd in rec.fds, len(data), n, f)
                    if f == "km":
                        rec.kill()
                    if f == "r":
                        raise OSError(28, "injected write failure")
                    return n
                n = real_os.write(fd, data)
                rec.rec("write", fd in rec.fds, len(data), n, None)
                if f == "ka":
                    rec.kill()
                return n

            def close(self, fd):
                f = rec._fault("close")
                if f == "kb":
                    rec.kill()
                if f == "r":
                    rec.rec("close", fd in rec.fds, "r")
                    rec.leaked.append(fd)
                    raise OSError(5, "injected close failure")
                real_os.close(fd)
                rec.rec("close", fd in rec.fds, None)
                if f == "ka":
                    rec.kill()

        class TempfileProxy:
            def __getattr__(self, n):
                return getattr(real_tempfile, n)

            def mkstemp(self, *a, **k):
                f = rec._fault("mkstemp")
                if f == "kb":
                    rec.kill()
                if f == "r":
                    rec.rec("mkstemp", k.get("dir"), None, "r")
                    raise OSError(24, "injected mkstemp failure")
                fd, name = real_tempfile.mkstemp(*a, **k)
                rec.fds[fd] = name
                rec.rec("mkstemp", k.get("dir"), name, None)
                if f == "ka":
                    rec.kill()
                return fd, name

        class ShutilProxy:
            def __getattr__(self, n):
                return getattr(real_shutil, n)

            def move(self, a, b, *r, **k):
                f = rec._fault("move")
                if f == "kb":
                    rec.kill()
                if f == "r":
                    rec.rec("move", a, b, "r")
                    raise OSError(18, "injected move failure")
                res = real_shutil.move(a, b, *r, **k)
                if rec.clock is not None:
                    real_os.utime(b, ns=(mod_ns(rec.clock), mod_ns(rec.clock)))
                rec.rec("move", a, b, None)
                if f == "ka":
                    rec.kill()
                return res

        real_load = C.load_module

        def load_module(module_id, path):
            rec.rec("load", path)
            rec.loaded = True
            return real_load(module_id, path)

        import builtins

        def open_(p, *a, **k):
            rec.rec("open", p, a[0] if a else k.get("mode", "r"))
            return builtins.open(p, *a, **k)

        def template_open(p, mode="r", *a, **k):
            """a direct open() in mako.template (the unchanged code has none): the destination opened for writing"""
            if "w" not in mode and "a" not in mode:
                rec.rec("open", p, mode)
                return builtins.open(p, mode, *a, **k)
            f = rec._fault("opendest")
            if f == "kb":
                rec.kill()
            if f == "r":
                rec.rec("opendest", p, "r")
                raise OSError(13, "injected open failure")
            fobj = builtins.open(p, mode, *a, **k)
            rec.rec("opendest", p, None)
            if f == "ka":
                fobj.flush()
                rec.kill()

            class FileProxy:
                def write(self_, data):
                    fl = rec._fault("write")
                    if fl == "kb":
                        rec.kill()
                    if fl in ("r", "s", "km"):
                        n = fobj.write(data[: len(data) // 2])
                        fobj.flush()
                        rec.rec("write", False, len(data), n, fl)
                        if fl == "km":
                            rec.kill()
                        if fl == "r":
                            raise OSError(28, "injected write failure")
                        return n
                    n = fobj.write(data)
                    fobj.flush()
                    rec.rec("write", False, len(data), n, None)
                    if fl == "ka":
                        rec.kill()
                    return n

                def close(self_):
                    fl = rec._fault("close")
                    if fl == "kb":
                        rec.kill()
                    if fl == "r":
                        rec.rec("close", False, "r")
                        raise OSError(5, "injected close failure")
                    fobj.close()
                    rec.rec("close", False, None)
                    if fl == "ka":
                        rec.kill()

                def flush(self_):
                    fobj.flush()

                def __enter__(self_):
                    return self_

                def __exit__(self_, *exc):
                    self_.close()
                    return False
            return FileProxy()

        T.open = template_open
        self._T = T
        osp = OsProxy()
        self.saved = [(T, "os", T.os), (T, "tempfile", T.tempfile), (T, "shutil", T.shutil), (U, "os", U.os),
                      (C, "load_module", real_load)]
        T.os = osp
        T.tempfile = TempfileProxy()
        T.shutil = ShutilProxy()
        U.os = osp
        C.load_module = load_module
        U.open = open_
        self._U = U
        return self

    def uninstall(self):
        for mod, name, val in self.saved:
            setattr(mod, name, val)
        if hasattr(self, "_U") and "open" in self._U.__dict__:
            del self._U.__dict__["open"]
        if hasattr(self, "_T") and "open" in self._T.__dict__:
            del self._T.__dict__["open"]
        for fd in self.leaked:
            try:
                os.close(fd)
            except OSError:
                pass
        self.leaked = []
        self.saved = []


# --------------------------------------------------------------------------- inspecting a module file

_probe_n = [0]


def inspect_module(path, srcfile):
    """('absent',) | ('complete', version, magic, generated from this FILE?, recorded name == srcfile?, recorded name)
    | ('broken', why);  complete = compiles, has _magic_number, renders.  "This file" is judged by file identity
    (realpath), relative names against the current working directory"""
    if not os.path.exists(path):
        return ("absent",)
    try:
        _probe_n[0] += 1
        name = "c15_probe_%d_%d" % (os.getpid(), _probe_n[0])
        data = open(path, "rb").read()
        import types
        mod = types.ModuleType(name)
        mod.__file__ = path
        exec(compile(data, path, "exec"), mod.__dict__)
        magic = mod._magic_number
        from mako.template import ModuleTemplate
        out = ModuleTemplate(mod, module_filename=path, template_filename=srcfile).render()
        v = version_of(out)
        if v is None:
            return ("broken", "renders %r" % (out[:40],))
        rec_name = getattr(mod, "_template_filename", None)
        same_file = isinstance(rec_name, str) and \
            os.path.realpath(os.path.abspath(rec_name)) == os.path.realpath(os.path.abspath(srcfile))
        return ("complete", v, magic, same_file, rec_name == srcfile, rec_name)
    except BaseException as e:                 # noqa: a truncated module can fail in any way
        return ("broken", type(e).__name__)


def module_path(moddir, srcfile):
    u = os.path.normpath(srcfile).replace(os.path.sep, "/").lstrip("/")
    return os.path.abspath(os.path.join(os.path.normpath(moddir), os.path.normpath(u) + ".py"))


def temp_files(mp):
    d = os.path.dirname(mp)
    if not os.path.isdir(d):
        return []
    return sorted(f for f in os.listdir(d) if os.path.join(d, f) != mp and f != "__pycache__")


def make_module_text(srcfile, scratch, magic):
    """a complete module for the current source, as another generator version would have left it"""
    from mako.template import Template
    md = tempfile.mkdtemp(dir=scratch)
    Template(filename=srcfile, module_directory=md)
    data = open(module_path(md, srcfile), "rb").read()
    shutil.rmtree(md, ignore_errors=True)
    import mako.codegen as CG
    old = b"_magic_number = %d" % CG.MAGIC_NUMBER
    if data.count(old) != 1:
        raise RuntimeError("cannot find the magic number line in the generated module")
    return data.replace(old, b"_magic_number = %d" % magic)


# --------------------------------------------------------------------------- a sandbox = source + module dir

class Sandbox:
    """mode 'abs': the Template is given the absolute file name; 'rel': a relative one (cwd = base), spelling 0 =
    'src/t.html', spelling 1 = './src//t.html' (same module path); 'lookup': through a TemplateLookup over the
    relative directory 'src'"""

    def __init__(self, base, name="t.html", moddir="mods", mode="abs"):
        self.base = base
        self.mode = mode
        self.src = os.path.join(base, "src", name)
        self.other = os.path.join(base, "src", "other_" + name)
        self.moddir = os.path.join(base, moddir)
        self.scratch = os.path.join(base, "scratch")
        os.makedirs(os.path.dirname(self.src), exist_ok=True)
        os.makedirs(self.scratch, exist_ok=True)
        self.spell = 0
        self.leaf = name
        if mode == "abs":
            self.names = [self.src]
            self.other_name = self.other
            self.mp = module_path(self.moddir, self.src)
        else:
            self.names = ["src/" + name, "./src//" + name]
            self.other_name = "src/other_" + name
            self.mp = os.path.join(self.moddir, "src", name + ".py") if mode == "rel" else os.path.join(self.moddir, name + ".py")
        self.used = set()
        self.ver = 0
        self.clock = 1000

    @property
    def name(self):
        return self.names[self.spell]

    def construct(self, writer=None):
        from mako.template import Template
        self.used.add(self.name)
        if self.mode == "lookup":
            from mako.lookup import TemplateLookup
            lk = TemplateLookup(directories=["src"], module_directory=self.moddir, module_writer=writer)
            return lk.get_template(self.leaf)
        return Template(filename=self.name, module_directory=self.moddir, module_writer=writer)

    def write_src(self, mtime):
        self.ver += 1
        with open(self.src, "w") as f:
            f.write(src_text(self.ver))
        os.utime(self.src, ns=(src_ns(mtime), src_ns(mtime)))

    def mod_mtime(self):
        try:
            return int(os.stat(self.mp).st_mtime)
        except OSError:
            return None

    def src_mtime(self):
        return int(os.stat(self.src).st_mtime)

    def delete_mod(self):
        if os.path.exists(self.mp):
            os.unlink(self.mp)

    def replace_mod(self, magic, mtime, other=False):
        """install a complete module at the module path: of another generator version (magic) and / or generated
        from ANOTHER template file (which renders version 1000 + current)"""
        src = self.name
        if other:
            with open(self.other, "w") as f:
                f.write(src_text(1000 + self.ver))
            src = self.other_name
        data = make_module_text(src, self.scratch, magic)
        os.makedirs(os.path.dirname(self.mp), exist_ok=True)
        with open(self.mp, "wb") as f:
            f.write(data)
        os.utime(self.mp, ns=(mod_ns(mtime), mod_ns(mtime)))


# --------------------------------------------------------------------------- (a) histories, in-process

def gen_history(rng, quick):
    """list of op dicts; a source modification's mtime is chosen when the op is executed (relative to the module)"""
    n = rng.randint(3, 12)
    mode = rng.choice(["abs", "abs", "abs", "rel", "rel", "lookup"])
    ops = [{"op": "touch", "rel": "older", "mode": mode}]
    weights = [("construct", 30), ("touch", 24), ("delete", 8), ("replace", 10), ("fault", 14), ("hook", 10), ("rmdir", 4)]
    if mode == "rel":
        weights.append(("respell", 6))
    tot = sum(w for _, w in weights)
    while len(ops) < n:
        r = rng.randrange(tot)
        for name, w in weights:
            if r < w:
                break
            r -= w
        if name == "touch":
            ops.append({"op": "touch", "rel": rng.choice(["newer", "older", "equal", "equal", "newer"])})
        elif name == "replace":
            other = rng.random() < 0.35
            ops.append({"op": "replace", "magic": rng.choice([10, 10, 9]) if other else rng.choice([9, 11, 7, 0]),
                        "rel": rng.choice(["fresh", "fresh", "stale", "equal"]), "other": other})
        elif name == "fault":
            # make the faulty write group actually happen: stale / missing module (group 1) or other magic (group 2)
            pre = rng.choice(["newer", "delete", "magic", "magic", "any"])
            g = 1
            if pre == "newer":
                ops.append({"op": "touch", "rel": "newer"})
            elif pre == "delete":
                ops.append({"op": "delete"})
            elif pre == "magic":
                other = rng.random() < 0.4
                ops.append({"op": "replace", "magic": 10 if other else rng.choice([9, 11]), "rel": rng.choice(["fresh", "equal"]),
                            "other": other})
                g = 2
            else:
                g = rng.choice([1, 2])
            j = rng.randrange(4)
            kind = "s" if (j == 1 and rng.random() < 0.35) else "r"
            ops.append({"op": "construct", "fault": [g, j, kind]})
        elif name == "hook":
            ops.append({"op": "construct", "hook": rng.choice(["install", "install", "noop"])})
        else:
            ops.append({"op": name})
    if ops[-1]["op"] != "construct":
        ops.append({"op": "construct"})
    return ops


def fates_str(fault, g):
    if not fault or fault[0] != g:
        return "-"
    return "o" * fault[1] + fault[2]


def canon_real_acts(ops, mp):
    """recorded write-group calls -> the model's action tokens (temp names become '#'); also structural checks"""
    acts = []
    notes = []
    tmp = None
    wr = None
    dest = False
    for o in ops:
        k = o[0]
        if k == "mkstemp":
            if o[3] == "r":
                continue
            if o[1] != os.path.dirname(mp):
                notes.append("mkstemp dir=%r is not the module's directory" % (o[1],))
            tmp = o[2]
            wr = None
            dest = False
            acts.append("create#")
        elif k == "opendest":
            if o[2] is None:
                acts.append("trunc")
                dest = True
                wr = None
        elif k == "write":
            if not o[1] and not dest:
                notes.append("os.write on a descriptor that mkstemp did not return")
            tgt = "mod" if dest else "tmp#"
            if wr is None:
                wr = [o[2], 0]
                acts.append("fillp:" + tgt)
            wr[1] += o[3]
            if wr[1] >= wr[0] and wr[0] >= 0:
                acts.append("fillf:" + tgt)
                wr[0] = -1
        elif k == "close":
            if o[2] is None:
                acts.append("nop")
        elif k == "move":
            if o[3] is None:
                if o[1] != tmp or o[2] != mp:
                    notes.append("move(%r, %r): not (temp, module path)" % (o[1], o[2]))
                acts.append("move#")
    return acts, notes


def canon_model_acts(s):
    if s == "-":
        return []
    import re
    return [re.sub(r"\d+$", "#", a) for a in s.split(",")]


def check_trail(ops, sb):
    """order rules on the read-only calls (judged directly): returns a list of complaints"""
    bad = []
    names = [o[0] for o in ops]
    first_group = next((i for i, n in enumerate(names) if n in ("mkstemp", "opendest")), len(names))
    head = [o for o in ops[:first_group]]
    if not any(o[0] == "stat" and o[1] == sb.name for o in head):
        bad.append("no stat(source) before the first write group")
    if not any(o[0] == "exists" and o[1] == sb.mp for o in head):
        bad.append("no exists(module path) before the first write group")
    for i, n in enumerate(names):
        if n in ("mkstemp", "opendest"):
            prev = names[:i]
            if "open" not in prev or not any(o[0] == "open" and o[1] == sb.name for o in ops[:i]):
                bad.append("write group not preceded by reading the source")
    return bad


def run_history(ctx, hist, base, record_oracle=True):
    """runs `hist` on the real code; returns (model request, per-construct real records, oracle complaints)"""
    mode = hist[0].get("mode", "abs") if hist else "abs"
    sb = Sandbox(base, mode=mode)
    cwd = os.getcwd()
    if mode != "abs":
        os.chdir(base)
    try:
        return _run_history(ctx, hist, sb, record_oracle)
    finally:
        os.chdir(cwd)


def _run_history(ctx, hist, sb, record_oracle):
    toks = []
    reals = []
    complaints = []
    sb.clock = 1000
    hook_calls = []

    for op in hist:
        sb.clock += 1 + (len(op["op"]) % 2)
        kind = op["op"]
        if kind == "respell":
            if sb.mode == "rel":
                sb.spell = 1 - sb.spell
                toks.append("F%d" % sb.spell)
        elif kind == "touch":
            mm = sb.mod_mtime()
            ref = mm if mm is not None else sb.clock
            m = {"newer": ref + 1 + (sb.clock % 3), "older": max(1, ref - 1 - (sb.clock % 3)), "equal": ref}[op["rel"]]
            sb.write_src(m)
            toks.append("S%d" % m)
        elif kind == "delete":
            sb.delete_mod()
            toks.append("D")
        elif kind == "rmdir":
            shutil.rmtree(sb.moddir, ignore_errors=True)      # the whole module directory disappears
            toks.append("D")
            toks.append("X")                                   # marker: temp files are gone as well (model side: ignored)
        elif kind == "replace":
            sm = sb.src_mtime()
            m = {"fresh": max(sm, sb.clock), "stale": max(1, sm - 2), "equal": sm}[op["rel"]]
            other = bool(op.get("other"))
            sb.replace_mod(op["magic"], m, other)
            toks.append("R%d.%d.%d.1.%d" % (1000 + sb.ver if other else sb.ver, op["magic"], m, 99 if other else sb.spell))
        elif kind == "construct":
            toks.append("K%d" % sb.clock)
            fault = op.get("fault")
            hook = op.get("hook")
            plan = "%s/%s/n/1/1" % (fates_str(fault, 1), fates_str(fault, 2))
            toks.append(("C" if not hook else ("H" if hook == "install" else "N")) + plan)
            rec = Recorder(FaultPlan({(fault[0], fault[1]): fault[2]} if fault else None), clock=sb.clock)
            before = inspect_module(sb.mp, sb.name)
            before_mtime = sb.mod_mtime()
            before_bytes = open(sb.mp, "rb").read() if os.path.exists(sb.mp) else None
            before_ino = os.stat(sb.mp).st_ino if os.path.exists(sb.mp) else None
            before_ns = os.stat(sb.mp).st_mtime_ns if os.path.exists(sb.mp) else None
            del hook_calls[:]
            writer = None
            if hook:
                clock = sb.clock

                def writer(source, path, _hook=hook, _clock=clock):
                    hook_calls.append((bytes(source), path))
                    if _hook == "install":
                        fd, name = tempfile.mkstemp(dir=os.path.dirname(path))
                        os.write(fd, source)
                        os.close(fd)
                        os.replace(name, path)
                        os.utime(path, ns=(mod_ns(_clock), mod_ns(_clock)))
            rec.install()
            rec.begin_construct()
            res = None
            try:
                try:
                    t = sb.construct(writer)
                    out = t.render()
                    res = {"res": "served", "ver": version_of(out), "magic": t.module._magic_number}
                except Exception as e:  # noqa
                    res = {"res": "failed", "exc": type(e).__name__}
            finally:
                rec.uninstall()
            after = inspect_module(sb.mp, sb.name)
            temps = [inspect_module(os.path.join(os.path.dirname(sb.mp), f), sb.name)[0] == "complete" for f in temp_files(sb.mp)]
            res.update({"ops": rec.ops, "groups": rec.groups_begun, "after": after, "mtime": sb.mod_mtime(),
                        "temps": sorted(temps), "hook_calls": [(version_of_module_source(s), p == sb.mp) for s, p in hook_calls],
                        "trail": check_trail(rec.ops, sb) if not hook else [], "cur": sb.ver, "before": before,
                        "fault": fault, "hook": hook, "spell": sb.spell, "mode": sb.mode})
            reals.append(res)
            if record_oracle and before[0] != "broken":
                # the property text, read directly (no model): due = missing, older than the source, other generator version
                import mako.codegen as CG
                mm_before = res["before_mtime"] = before_mtime
                due = before[0] == "absent" or before_mtime < sb.src_mtime() or before[2] != CG.MAGIC_NUMBER or not before[3]
                wrote = (len(hook_calls) if hook else rec.groups_begun) > 0
                what = "module_writer called" if hook else "module written"
                respelled = before[0] == "complete" and before[3] and not before[4] and before[5] in sb.used
                if wrote and not due:
                    complaints.append({"site": "respelled-filename-rewrite" if respelled else "rewrite-when-not-due", "detail": "%s although the module (mtime %.2f, magic %r, generated from this file) is not older than the source (mtime %.2f)"
                                       % (what, (before_ns or 0) / 1e9, before[2], os.stat(sb.src).st_mtime_ns / 1e9)
                                       + (" - the module records the name %r, this Template was given %r" % (before[5], sb.name)
                                          if not before[4] else "")})
                if due and not wrote:
                    complaints.append({"site": "no-rewrite-when-due", "detail": "not %s although due: before=%r mtime %r, source mtime %r"
                                       % (what, before, before_mtime, sb.src_mtime())})
                if not due and not wrote and (before_bytes != (open(sb.mp, "rb").read() if os.path.exists(sb.mp) else None)
                                               or before_mtime != sb.mod_mtime()
                                               or before_ino != (os.stat(sb.mp).st_ino if os.path.exists(sb.mp) else None)
                                               or before_ns != (os.stat(sb.mp).st_mtime_ns if os.path.exists(sb.mp) else None)):
                    complaints.append({"site": "reused-module-changed", "detail": "module file (bytes / inode / mtime) changed although it was reused"})
                if hook and any(c != (sb.ver, True) for c in res["hook_calls"]):
                    complaints.append({"site": "hook-arguments", "detail": "module_writer called with %r (expected the module of version %d and the module path)"
                                       % (res["hook_calls"], sb.ver)})
                if hook and len(hook_calls) > 1 and hook == "install":
                    complaints.append({"site": "hook-called-twice", "detail": "%d calls" % len(hook_calls)})
                if res["res"] == "served" and not fault and (wrote and hook != "noop" or (before[0] == "complete" and before[1] == sb.ver)) \
                        and res["ver"] != sb.ver:
                    complaints.append({"site": "served-not-current", "detail": "rendered version %r, current source is version %d (rewrite=%s, module before=%r)"
                                       % (res["ver"], sb.ver, wrote, before)})
                if res["res"] == "failed" and not fault and hook != "noop":
                    complaints.append({"site": "construct-failed", "detail": "Template() raised %s with the module path holding %r" % (res["exc"], before)})
            if record_oracle:
                if after[0] == "broken" and before[0] != "broken":
                    complaints.append({"site": "short-write-truncated-module" if (fault and fault[2] == "s") else "partial-module-after-fault",
                                       "detail": "module path holds a broken file (%s) after a construct with fault %r" % (after[1], fault)})
                elif after[0] == "complete" and before[0] == "complete" and after[1] not in (before[1], sb.ver):
                    complaints.append({"site": "module-neither-old-nor-new", "detail": "module path holds version %r" % (after[1],)})
    return sb, toks, reals, complaints


def version_of_module_source(b):
    """which source version a generated module's bytes render (read from the embedded text)"""
    try:
        s = b.decode("utf-8", "replace")
        i = s.index("[[v")
        return int(s[i + 3: s.index("]]", i)])
    except ValueError:
        return None


def parse_record(r):
    res, writes, acts, calls, modf, temps = r.split("|")
    d = {"writes": int(writes), "acts": canon_model_acts(acts)}
    if res.startswith("served:"):
        src, magic, comp, stamp, fil = res[7:].split(":")
        d.update(res="served", ver=int(src), magic=int(magic))
    else:
        d["res"] = "failed" if res == "failed" else res
    d["calls"] = [] if calls == "-" else [(int(c.split(">")[0].split(":")[0]), c.split(">")[1] == "mod") for c in calls.split(",")]
    if modf == "none":
        d["after"] = ("absent",)
        d["mtime"] = None
    else:
        body, mt = modf.split("@")
        src, magic, comp, stamp, fil = body.split(":")
        d["after"] = ("complete", int(src), int(magic), int(fil)) if comp == "1" else ("broken",)
        d["mtime"] = int(mt)
    d["temps"] = sorted([] if temps == "-" else [t.split("=")[1].split(":")[2] == "1" for t in temps.split(",")])
    return d


def compare(real, model, rmdir_seen):
    """list of differences between one real construct record and the model's"""
    diffs = []
    if real["res"] != model["res"]:
        diffs.append(("res", model["res"], real["res"] + ":" + str(real.get("exc", real.get("ver")))))
    elif real["res"] == "served" and (real["ver"], real["magic"]) != (model["ver"], model["magic"]):
        diffs.append(("served", (model["ver"], model["magic"]), (real["ver"], real["magic"])))
    if not real["hook"]:
        ra, notes = canon_real_acts(real["ops"], real["mp"])
        if ra != model["acts"]:
            diffs.append(("acts", model["acts"], ra))
        for n in notes:
            diffs.append(("shape", "", n))
        if real["groups"] != model["writes"]:
            diffs.append(("writes", model["writes"], real["groups"]))
    else:
        if real["hook_calls"] != model["calls"]:
            diffs.append(("hook_calls", model["calls"], real["hook_calls"]))
    ra = real["after"]
    ma = model["after"]
    if ra[0] == "complete":
        ra = (ra[0], ra[1], ra[2], ra[4])                       # (…, the recorded name is the name now given)
    if ma[0] == "complete":
        ma = (ma[0], ma[1], ma[2], ma[3] == real["spell"])
    if ra[0] != ma[0] or (ra[0] == "complete" and tuple(ra[1:]) != tuple(ma[1:])):
        diffs.append(("module-path", ma, ra))
    elif ra[0] != "absent" and real["mtime"] != model["mtime"]:
        diffs.append(("module-mtime", model["mtime"], real["mtime"]))
    if not rmdir_seen and real["temps"] != model["temps"]:
        diffs.append(("temp-files", model["temps"], real["temps"]))
    for t in real["trail"]:
        diffs.append(("trail", "", t))
    return diffs


def hist_tokens(hist):
    out = []
    for o in hist:
        t = o["op"]
        if t == "touch":
            t += ":" + o["rel"] + (":mode=" + o["mode"] if o.get("mode") else "")
        elif t == "replace":
            t += ":%d:%s%s" % (o["magic"], o["rel"], ":otherfile" if o.get("other") else "")
        elif t == "construct":
            if o.get("fault"):
                t += ":f%d.%d%s" % tuple(o["fault"])
            if o.get("hook"):
                t += ":hook-" + o["hook"]
        out.append(t)
    return out


def ask_many(ctx, lines):
    return ctx.driver().ask_many(lines)


def ask(ctx, line):
    return ask_many(ctx, [line])[0]


def real_history(ctx, hist, root):
    """real side only: (tokens, reals, complaints)"""
    base = tempfile.mkdtemp(dir=root)
    try:
        sb, toks, reals, complaints = run_history(ctx, hist, base)
        for r in reals:
            r["mp"] = sb.mp
        return toks, reals, complaints
    finally:
        shutil.rmtree(base, ignore_errors=True)


def diff_history(toks, reals, ans):
    recs = [] if ans == "-" else ans.split(";")
    if ans.startswith("bad") or len(recs) != len(reals):
        return [{"construct": -1, "diffs": [("protocol", ans[:200], len(reals))]}]
    diffs = []
    rmdir_seen = False
    ci = 0
    for t in toks:
        if t == "X":
            rmdir_seen = True
        if t[0] in "CHN":
            d = compare(reals[ci], parse_record(recs[ci]), rmdir_seen)
            if d:
                diffs.append({"construct": ci, "diffs": d})
            ci += 1
    return diffs


def one_history(ctx, hist, root, stream="corr.history"):
    """run + compare one history; returns (diffs, complaints, reals)"""
    toks, reals, complaints = real_history(ctx, hist, root)
    ans = ask(ctx, "modfile hist 0 " + " ".join(t for t in toks if t != "X"))
    return diff_history(toks, reals, ans), complaints, reals


def corr_histories(ctx, root):
    from harness.common import ddmin
    n = 220 if ctx.quick else 4000
    st = ctx.stream("corr.history")
    so = ctx.stream("oracle.inproc", "oracle")
    fixed = [
        [{"op": "touch", "rel": "older"}, {"op": "construct"}, {"op": "construct"}],
        [{"op": "touch", "rel": "older"}, {"op": "construct"}, {"op": "touch", "rel": "equal"}, {"op": "construct"},
         {"op": "touch", "rel": "newer"}, {"op": "construct"}, {"op": "touch", "rel": "older"}, {"op": "construct"}],
        [{"op": "touch", "rel": "older"}, {"op": "construct"}, {"op": "replace", "magic": 9, "rel": "fresh"}, {"op": "construct"},
         {"op": "replace", "magic": 11, "rel": "stale"}, {"op": "construct"}, {"op": "delete"}, {"op": "construct"}],
        [{"op": "touch", "rel": "older"}, {"op": "construct", "fault": [1, 1, "s"]}, {"op": "construct"}],
        [{"op": "touch", "rel": "older", "mode": "rel"}, {"op": "construct"}, {"op": "construct"}, {"op": "construct", "hook": "install"},
         {"op": "touch", "rel": "equal"}, {"op": "construct"}, {"op": "touch", "rel": "newer"}, {"op": "construct", "hook": "install"},
         {"op": "construct", "hook": "install"}],
        [{"op": "touch", "rel": "older", "mode": "lookup"}, {"op": "construct"}, {"op": "construct", "hook": "install"},
         {"op": "replace", "magic": 9, "rel": "fresh"}, {"op": "construct"}, {"op": "construct"}],
        [{"op": "touch", "rel": "older", "mode": "rel"}, {"op": "construct"}, {"op": "respell"}, {"op": "construct"},
         {"op": "construct"}, {"op": "respell"}, {"op": "construct", "hook": "install"}],
        [{"op": "touch", "rel": "older"}, {"op": "construct"}, {"op": "replace", "magic": 10, "rel": "fresh", "other": True},
         {"op": "construct"}, {"op": "construct"}, {"op": "replace", "magic": 10, "rel": "equal", "other": True},
         {"op": "construct", "hook": "install"}, {"op": "replace", "magic": 9, "rel": "fresh", "other": True},
         {"op": "construct", "fault": [2, 1, "s"]}, {"op": "construct"}],
        [{"op": "touch", "rel": "older"}, {"op": "construct"}, {"op": "replace", "magic": 9, "rel": "fresh"},
         {"op": "touch", "rel": "older"}, {"op": "construct"}, {"op": "construct"}],
        [{"op": "touch", "rel": "older"}, {"op": "replace", "magic": 11, "rel": "equal"}, {"op": "touch", "rel": "equal"},
         {"op": "construct", "hook": "install"}, {"op": "construct"}],
        [{"op": "touch", "rel": "older"}, {"op": "construct"}, {"op": "replace", "magic": 9, "rel": "fresh"},
         {"op": "construct", "fault": [2, 3, "r"]}, {"op": "construct", "hook": "noop"}, {"op": "construct", "hook": "install"}],
    ] + [[{"op": "touch", "rel": "older"}, {"op": "construct", "fault": [1, j, "r"]}, {"op": "construct"}] for j in range(4)]
    hists = fixed + [gen_history(ctx.rng, ctx.quick) for _ in range(n)]
    seen_known = set()
    runs = [real_history(ctx, hist, root) for hist in hists]
    answers = ask_many(ctx, ["modfile hist 0 " + " ".join(t for t in r[0] if t != "X") for r in runs])
    for hi, hist in enumerate(hists):
        st["cases"] += 1
        mtoks, reals, complaints = runs[hi]
        diffs = diff_history(mtoks, reals, answers[hi])
        toks = hist_tokens(hist)
        kinds = {t.split(":")[0] for t in toks}
        for r in reals:
            so["cases"] += 1
            ctx.branch("construct:%s:groups=%d%s%s" % (r["res"], r["groups"], ":fault=" + r["fault"][2] if r["fault"] else "",
                                                       ":hook=" + r["hook"] if r["hook"] else ""))
            if r["res"] == "failed":
                ctx.branch("exc:" + r["exc"])
        rewrites = sum(1 for r in reals if r["groups"] > 0)
        reuses = sum(1 for r in reals if r["groups"] == 0 and r["res"] == "served")
        if rewrites and reuses:
            ctx.nontriv(tuple(toks))
        if hi < 3:
            ctx.sample({"stream": "corr.history", "history": toks, "constructs": [(r["res"], r["groups"]) for r in reals]})
        if diffs:
            def fails(sub):
                try:
                    return bool(one_history(ctx, sub, root)[0]) and any(o["op"] == "construct" for o in sub)
                except Exception:
                    return False
            small = hist[:1] + ddmin(hist[1:], lambda sub: fails(hist[:1] + sub), 60)
            d2 = one_history(ctx, small, root)[0] or diffs
            ctx.disagree("corr.history", {"kind": "history", "history": small, "tokens": hist_tokens(small)},
                         [d for x in d2 for d in x["diffs"]][:4], "see diffs: (what, model, real)")
            if st["disagreements"] > 5:
                break
        for c in complaints:
            if c["site"] in seen_known:
                continue
            seen_known.add(c["site"])

            def ofails(sub, site=c["site"]):
                try:
                    return any(x["site"] == site for x in one_history(ctx, sub, root)[1])
                except Exception:
                    return False
            small = hist[:1] + ddmin(hist[1:], lambda sub: ofails(hist[:1] + sub), 60)
            ctx.violation(c["site"], {"kind": "history", "history": small, "input": " ".join(hist_tokens(small))},
                          c["detail"], "oracle.inproc")


def corr_verify_directory(ctx, root):
    import mako.util as U
    st = ctx.stream("corr.verify_directory", exhaustive=True)
    drv = ctx.driver()
    cases = [(e, f) for e in (0, 1) for f in range(0, 10)]
    outs = ask_many(ctx, ["modfile vdir %d %d" % c for c in cases])
    for (e, f), o in zip(cases, outs):
        st["cases"] += 1
        base = tempfile.mkdtemp(dir=root)
        d = os.path.join(base, "a", "b")
        if e:
            os.makedirs(d)
        rec = Recorder()
        rec.makedirs_failures = f
        rec.install()
        raised = False
        try:
            try:
                U.verify_directory(d)
            except OSError:
                raised = True
        finally:
            rec.uninstall()
        calls = sum(1 for o_ in rec.ops if o_[0] == "makedirs")
        got = "%d %d" % (calls, 1 if raised else 0)
        ctx.branch("verify_directory:%s" % ("raised" if raised else "ok"))
        if got != o:
            ctx.disagree("corr.verify_directory", {"kind": "vdir", "exists": e, "failures": f}, o, got)
        shutil.rmtree(base, ignore_errors=True)


# --------------------------------------------------------------------------- workers (subprocess side)

def worker_main():
    """stdin: JSON {"mode": …}.  Runs inside a fresh /venv/bin/python with VERIF and the repo on sys.path."""
    job = json.load(sys.stdin)
    mode = job["mode"]
    if mode == "construct":
        out = []
        for sc in job["scenarios"]:
            out.append(worker_construct(sc))
            sys.stdout.write(json.dumps(out[-1]) + "\n")
            sys.stdout.flush()
    elif mode == "inspect":
        for sc in job["scenarios"]:
            sys.stdout.write(json.dumps(worker_inspect(sc)) + "\n")
            sys.stdout.flush()
    elif mode == "race":
        worker_race(job)
    elif mode == "pyc":
        worker_pyc(job)


def worker_construct(sc):
    from mako.template import Template
    fault = sc.get("fault")
    rec = Recorder(FaultPlan({(fault[0], fault[1]): fault[2]} if fault else None), clock=sc.get("clock"))
    rec.install()
    rec.begin_construct()
    try:
        try:
            t = Template(filename=sc["src"], module_directory=sc["moddir"])
            out = t.render()
            return {"res": "served", "ver": version_of(out), "groups": rec.groups_begun}
        except Exception as e:  # noqa
            return {"res": "failed", "exc": type(e).__name__, "groups": rec.groups_begun}
    finally:
        rec.uninstall()


def worker_inspect(sc):
    from mako.template import Template
    mp = module_path(sc["moddir"], sc["src"])
    d = os.path.dirname(mp)
    listing = sorted(os.listdir(d)) if os.path.isdir(d) else None
    at_path = inspect_module(mp, sc["src"])
    try:
        t = Template(filename=sc["src"], module_directory=sc["moddir"])
        fresh = {"res": "served", "ver": version_of(t.render())}
    except Exception as e:  # noqa
        fresh = {"res": "failed", "exc": type(e).__name__, "msg": str(e)[:120]}
    return {"listing": listing, "at_path": at_path, "fresh": fresh, "after_fresh": inspect_module(mp, sc["src"])}


def worker_race(job):
    from mako.template import Template
    rec = None
    if job.get("fault"):
        f = job["fault"]
        rec = Recorder(FaultPlan({(f[0], f[1]): f[2]}))          # this process dies at that call of its write group
        rec.install()
        rec.begin_construct()
    while time.time() < job["start_at"]:
        pass
    res = []
    for i in range(job["rounds"]):
        try:
            t = Template(filename=job["src"], module_directory=job["moddir"])
            res.append({"res": "served", "ver": version_of(t.render())})
        except Exception as e:  # noqa
            res.append({"res": "failed", "exc": type(e).__name__, "msg": str(e)[:120]})
        if job.get("delete_between") and i % 2 == job["id"] % 2:
            try:
                os.unlink(module_path(job["moddir"], job["src"]))
            except OSError:
                pass
    sys.stdout.write(json.dumps(res) + "\n")


def worker_pyc(job):
    """rewrite within one mtime second, same size, bytecode caching on (CPython validates cached bytecode by that key)"""
    from mako.template import Template
    sys.dont_write_bytecode = False
    out = {"dont_write_bytecode": sys.dont_write_bytecode, "attempts": [], "hook": bool(job.get("hook"))}
    writer = None
    if job.get("hook"):
        def writer(source, path):
            # a user-supplied module_writer: atomic install; the file gets the time stamp of its "build" (fixed here,
            # which forces the whole-second coincidence the default writer only meets by chance)
            fd, name = tempfile.mkstemp(dir=os.path.dirname(path))
            os.write(fd, source)
            os.close(fd)
            os.utime(name, (1500, 1500))
            os.replace(name, path)
    for a in range(job["attempts"]):
        base = tempfile.mkdtemp(dir=job["root"])
        src = os.path.join(base, "t.html")
        md = os.path.join(base, "mods")
        mp = module_path(md, src)
        while not job.get("hook") and time.time() % 1 > 0.15:           # start early in a second
            time.sleep(0.005)
        open(src, "w").write(src_text(1))
        os.utime(src, (1000, 1000))
        t1 = Template(filename=src, module_directory=md, module_writer=writer)
        r1 = version_of(t1.render())
        s1 = os.stat(mp)
        os.unlink(mp)                            # history: delete module, modify source (equal mtime), construct
        open(src, "w").write(src_text(2))
        os.utime(src, (1000, 1000))
        t2 = Template(filename=src, module_directory=md, module_writer=writer)
        r2 = version_of(t2.render())
        s2 = os.stat(mp)
        on_disk = inspect_module(mp, src)
        att = {"same_second": int(s1.st_mtime) == int(s2.st_mtime), "same_size": s1.st_size == s2.st_size,
               "first": r1, "second": r2, "on_disk": on_disk, "pycache": os.path.isdir(os.path.join(os.path.dirname(mp), "__pycache__"))}
        out["attempts"].append(att)
        if att["same_second"] and att["same_size"]:
            out["decisive"] = att
            break
    sys.stdout.write(json.dumps(out) + "\n")


def spawn(job, env_extra=None, bytecode=False):
    env = dict(os.environ)
    env["PYTHONPATH"] = REPO
    if bytecode:
        env.pop("PYTHONDONTWRITEBYTECODE", None)
    else:
        env["PYTHONDONTWRITEBYTECODE"] = "1"
    env["C15_VERIF"] = VERIF
    env["C15_REPO"] = REPO
    code = ("import sys,os; sys.path[:0]=[os.environ['C15_REPO'], os.environ['C15_VERIF']]; "
            "from harness.props import C15; C15.worker_main()")
    p = subprocess.Popen([PY, "-c", code], stdin=subprocess.PIPE, stdout=subprocess.PIPE, stderr=subprocess.PIPE, env=env)
    p.stdin.write(json.dumps(job).encode())
    p.stdin.close()
    return p


def finish(p, timeout=120):
    try:
        out = p.stdout.read()
        err = p.stderr.read()
        rc = p.wait(timeout=timeout)
    except subprocess.TimeoutExpired:
        p.kill()
        return None, "", "timeout"
    lines = [json.loads(l) for l in out.decode().splitlines() if l.strip()]
    return rc, lines, err.decode()[-600:]


# --------------------------------------------------------------------------- (b) fault enumeration

START_STATES = ["none", "stale", "magic", "stale-nodir", "otherfile"]


def prepare_state(base, state):
    """returns scenario dict; the module that exists (if any) is of version 1, the current source is version 2 (or 1)"""
    from mako.template import Template
    sb = Sandbox(base)
    sb.write_src(1000)
    old = None
    if state in ("stale", "stale-nodir"):
        Template(filename=sb.src, module_directory=sb.moddir)
        os.utime(sb.mp, ns=(mod_ns(1001), mod_ns(1001)))
        old = 1
        sb.write_src(1005)                      # version 2, newer than the module
        if state == "stale-nodir":
            # the module directory itself vanished (old module too)
            shutil.rmtree(sb.moddir)
            old = None
    elif state == "magic":
        sb.replace_mod(9, 1003)                 # fresh mtime, other generator version
        old = 1
    elif state == "otherfile":
        sb.replace_mod(10, 1003, other=True)    # fresh mtime, right generator version, but generated from another file
        old = 1001
    elif state == "fresh":
        Template(filename=sb.src, module_directory=sb.moddir)   # up to date: to be reused
        os.utime(sb.mp, ns=(mod_ns(1003), mod_ns(1003)))
        old = 1
    return {"src": sb.src, "moddir": sb.moddir, "cur": sb.ver, "old": old, "state": state, "clock": 1010,
            "group": 2 if state in ("magic", "otherfile") else 1}


def fault_points(quick):
    pts = []
    for j, name in enumerate(GROUP_CALLS):
        pts.append((j, "kb"))
        pts.append((j, "ka"))
        pts.append((j, "r"))
        if name == "write":
            pts.append((j, "km"))
            pts.append((j, "s"))
    return pts


def judge_fault(sc, fault, insp, ctx, stream):
    """the property text, directly: returns list of (site, detail)"""
    bad = []
    kind = fault[2] if fault else None
    at = insp["at_path"]
    short = kind == "s"
    if at[0] == "broken":
        bad.append(("short-write-truncated-module" if short else "partial-module-after-%s" % {"r": "raise"}.get(kind, "kill"),
                    "after fault %r in state %s the module path holds a broken file (%s); listing %r"
                    % (fault, sc["state"], at[1], insp["listing"])))
    elif at[0] == "complete":
        if at[1] not in (sc["old"], sc["cur"]):
            bad.append(("module-neither-old-nor-new", "module path holds version %r" % (at[1],)))
    fr = insp["fresh"]
    if fr["res"] != "served" or fr["ver"] != sc["cur"]:
        bad.append(("short-write-truncated-module" if short else "later-template-wrong-after-%s" % {"r": "raise", "s": "short"}.get(kind, "kill"),
                    "after fault %r in state %s a fresh Template in a fresh process gives %r, current source is version %d"
                    % (fault, sc["state"], fr, sc["cur"])))
    af = insp["after_fresh"]
    if fr["res"] == "served" and (af[0] != "complete" or af[1] != sc["cur"]) and not short:
        bad.append(("module-not-current-after-later-construct", "module path after the later construct: %r" % (af,)))
    return bad


def model_post_state(ctx, sc, fault):
    """the model's module-path state after the faulty construct, for the same start state"""
    return parse_record(ask(ctx, model_post_request(sc, fault)).split(";")[-1])


def model_post_request(sc, fault):
    toks = ["S1000"]
    if sc["state"] == "stale":
        toks += ["K1001", "C-/-/n/1/1", "S1005"]
    elif sc["state"] == "stale-nodir":
        toks += ["S1005"]
    elif sc["state"] == "magic":
        toks += ["R1.9.1003.1.0"]
    elif sc["state"] == "otherfile":
        toks += ["R1001.10.1003.1.99"]
    g, j, kind = fault
    fates = ["-", "-"]
    crash = "n"
    if kind in ("r", "s"):
        fates[g - 1] = "o" * j + kind
    else:
        n = sum(ACTS_OF[GROUP_CALLS[i]] for i in range(j))
        if kind == "ka":
            n += ACTS_OF[GROUP_CALLS[j]]
        elif kind == "km":
            n += 1
        crash = str(n)
    toks += ["K1010", "C%s/%s/%s/1/1" % (fates[0], fates[1], crash)]
    return "modfile hist 0 " + " ".join(toks)


def oracle_faults(ctx, root):
    st = ctx.stream("oracle.fault_enumeration", "oracle", exhaustive=True)
    sc_corr = ctx.stream("corr.fault_post_state")
    pts = fault_points(ctx.quick)
    states = START_STATES if not ctx.quick else START_STATES
    jobs = []
    for state in states:
        for (j, kind) in pts:
            base = tempfile.mkdtemp(dir=root)
            sc = prepare_state(base, state)
            fault = [sc["group"], j, kind]
            jobs.append((sc, fault))
    # kills: one process each (run in parallel); raise / short: one worker for all of them
    kills = [(sc, f) for sc, f in jobs if f[2] in ("kb", "ka", "km")]
    soft = [(sc, f) for sc, f in jobs if f[2] in ("r", "s")]
    procs = []
    width = 12
    for i in range(0, len(kills), width):
        batch = [(sc, f, spawn({"mode": "construct", "scenarios": [dict(sc, fault=f)]})) for sc, f in kills[i:i + width]]
        for sc, f, p in batch:
            rc, lines, err = finish(p)
            ctx.branch("fault:%s:rc=%s" % (f[2], rc))
            if rc != 9:
                ctx.broke("oracle.fault_enumeration:kill-not-reached",
                          "state %s fault %r: worker exited %r (the %d-th call of the write group was never made?) %s %s"
                          % (sc["state"], f, rc, f[1], lines, err))
    p = spawn({"mode": "construct", "scenarios": [dict(sc, fault=f) for sc, f in soft]})
    rc, lines, err = finish(p)
    if rc != 0 or len(lines) != len(soft):
        ctx.broke("oracle.fault_enumeration:worker", "rc=%r %s" % (rc, err))
    else:
        for (sc, f), l in zip(soft, lines):
            ctx.branch("fault:%s:%s" % (f[2], l["res"] + (":" + l.get("exc", "") if l["res"] == "failed" else "")))
    # inspection in one fresh process
    p = spawn({"mode": "inspect", "scenarios": [sc for sc, f in jobs]})
    rc, lines, err = finish(p)
    if rc != 0 or len(lines) != len(jobs):
        ctx.broke("oracle.fault_enumeration:inspector", "rc=%r %s" % (rc, err))
        return
    reported = set()
    models = [parse_record(a.split(";")[-1]) for a in ask_many(ctx, [model_post_request(sc, f) for sc, f in jobs])]
    for ((sc, f), insp), m in zip(zip(jobs, lines), models):
        st["cases"] += 1
        ctx.branch("post:%s:%s" % (f[2], insp["at_path"][0] + ("-old" if insp["at_path"][0] == "complete" and insp["at_path"][1] == sc["old"] and sc["old"] != sc["cur"] else "")))
        ctx.nontriv((sc["state"], tuple(f)))
        for site, detail in judge_fault(sc, f, insp, ctx, st):
            if site in reported:
                continue
            reported.add(site)
            ctx.violation(site, {"kind": "fault", "state": sc["state"], "fault": f,
                                 "input": "state=%s fault=group%d.call%d(%s).%s" % (sc["state"], f[0], f[1], GROUP_CALLS[f[1]], f[2])},
                          detail, "oracle.fault_enumeration")
        # compared with the model's post-state
        sc_corr["cases"] += 1
        ra = insp["at_path"]
        ma = m["after"]
        if ra[0] != ma[0] or (ra[0] == "complete" and ra[1] != ma[1]):
            ctx.disagree("corr.fault_post_state", {"kind": "fault", "state": sc["state"], "fault": f}, ma, ra)
        ntemps = len([x for x in (insp["listing"] or []) if x != os.path.basename(module_path(sc["moddir"], sc["src"])) and x != "__pycache__"])
        if ntemps != len(m["temps"]):
            ctx.disagree("corr.fault_post_state", {"kind": "fault", "state": sc["state"], "fault": f, "what": "temp files"},
                         len(m["temps"]), insp["listing"])
    ctx.sample({"stream": "oracle.fault_enumeration", "state": jobs[0][0]["state"], "fault": jobs[0][1], "observed": lines[0]})


# --------------------------------------------------------------------------- (c) concurrent constructs

def oracle_concurrent(ctx, root):
    st = ctx.stream("oracle.concurrent", "oracle")
    configs = []
    ns = [2, 4, 8] if ctx.quick else [2, 3, 4, 5, 6, 7, 8]
    reps = 1 if ctx.quick else 6
    for n in ns:
        for state in ("none", "stale", "magic", "otherfile", "fresh", "future-src"):
            for _ in range(reps):
                configs.append((n, state))
    reported = set()
    observed = []
    for n, state in configs:
        base = tempfile.mkdtemp(dir=root)
        from mako.template import Template
        sb = Sandbox(base)
        if state.startswith("future-src"):
            sb.write_src(int(time.time()) + 10000)       # the module is always older: every construct rewrites
        else:
            sc = prepare_state(base, state)
            sb.ver = sc["cur"]
        rounds = 12 if state.startswith("future-src") else 3
        start_at = time.time() + 0.35
        procs = [spawn({"mode": "race", "src": sb.src, "moddir": sb.moddir, "start_at": start_at, "rounds": rounds,
                        "id": i, "delete_between": state.endswith("delete")}) for i in range(n)]
        # one more process that is killed at some call of its write group (before / after / midway)
        group = 2 if state in ("magic", "otherfile") else 1
        j, kind = ctx.rng.choice([(j_, k_) for j_ in range(4) for k_ in ("kb", "ka")] + [(1, "km")])
        dying = spawn({"mode": "race", "src": sb.src, "moddir": sb.moddir, "start_at": start_at, "rounds": 1, "id": n,
                       "fault": [group, j, kind]})
        obs = []
        for i, p in enumerate(procs):
            rc, lines, err = finish(p)
            st["cases"] += 1
            obs.extend((r["res"], r.get("ver")) for r in (lines[0] if lines else [("crashed", None)]) if isinstance(r, dict))
            ok = rc == 0 and lines and all(r["res"] == "served" and r["ver"] == sb.ver for r in lines[0])
            ctx.branch("concurrent:n=%d:%s:%s" % (n, state, "ok" if ok else "FAILED"))
            if not ok and "concurrent" not in reported:
                reported.add("concurrent")
                ctx.violation("concurrent-construct-failed", {"kind": "conc", "n": n, "state": state,
                                                              "input": "n=%d state=%s" % (n, state)},
                              "process %d of %d: rc=%r results=%r %s" % (i, n, rc, lines, err[-300:]), "oracle.concurrent")
        drc, dlines, derr = finish(dying)
        ctx.branch("concurrent:dying:%s:rc=%s" % (kind, drc))
        if drc not in (0, 9):
            ctx.broke("oracle.concurrent:dying-worker", "rc=%r %s" % (drc, derr[-300:]))
        fin = inspect_module(sb.mp, sb.src)
        if fin[0] != "complete" or fin[1] != sb.ver:
            if "concurrent-final" not in reported:
                reported.add("concurrent-final")
                ctx.violation("concurrent-final-module-wrong", {"kind": "conc", "n": n, "state": state,
                                                                "input": "n=%d state=%s" % (n, state)},
                              "module path after the race: %r" % (fin,), "oracle.concurrent")
        ctx.nontriv(("conc", n, state))
        observed.append((n, state, sb.ver, sorted(set(obs), key=str), fin, (group, j, kind, drc)))
        shutil.rmtree(base, ignore_errors=True)
    corr_concurrent(ctx, observed)


MODEL_CONC_INIT = {            # state -> (initial module, source version, source mtime, clock) as prepare_state builds them
    "none": ("none", 1, 1000, 1010),
    "stale": ("1.10.1001.0", 2, 1005, 1010),
    "magic": ("1.9.1003.0", 1, 1000, 1010),
    "otherfile": ("1001.10.1003.99", 1, 1000, 1010),
    "fresh": ("1.10.1003.0", 1, 1000, 1010),
    "future-src": ("none", 1, 5000, 1010),
}


def corr_concurrent(ctx, observed):
    """(c) against the model: the outcomes the model reaches for the same start state under random complete
    schedules of n interleaved constructs (per-process served version; final module) must contain what the real
    processes did"""
    st = ctx.stream("corr.concurrent_outcomes")
    nsched = 40 if ctx.quick else 200
    reqs, owner = [], []
    keys = sorted({(n, state, d[:3]) for n, state, _, _, _, d in observed})
    for n, state, (group, j, kind) in keys:
        init, v, sm, ck = MODEL_CONC_INIT[state]
        # steps the dying process (pid n) gets: up to its write group, then the actions before the kill
        acts = sum(ACTS_OF[GROUP_CALLS[i]] for i in range(j)) + (ACTS_OF[GROUP_CALLS[j]] if kind == "ka" else 1 if kind == "km" else 0)
        dsteps = (3 if group == 1 else 4) + acts
        for k in range(nsched):
            sched = [p for p in range(n) for _ in range(26)] + [n] * dsteps
            ctx.rng.shuffle(sched)
            if k == 0:
                sched = [n] * dsteps + [p for p in range(n) for _ in range(26)]      # the dying one first, then sequential
            elif k == 1:
                sched = [p for _ in range(26) for p in range(n + 1)]
                # lock step; the dying process stops after its steps
                seen, out_ = 0, []
                for p in sched:
                    if p == n:
                        seen += 1
                        if seen > dsteps:
                            continue
                    out_.append(p)
                sched = out_
            reqs.append("modfile conc %s %d %d %d %d %s" % (init, v, sm, ck, n, " ".join(map(str, sched))))
            owner.append((n, state, (group, j, kind)))
    outs = ask_many(ctx, reqs)
    reach = {}
    for key, o in zip(owner, outs):
        procs, fin = o.split("|")
        r = reach.setdefault(key, {"procs": set(), "final": set()})
        for pr in procs.split(";"):
            if pr.startswith("served:"):
                r["procs"].add(("served", int(pr[7:].split(":")[0])))
            else:
                r["procs"].add((pr, None))
        if fin == "none":
            r["final"].add(("absent",))
        else:
            src, magic, comp, stamp, fil = fin.split("@")[0].split(":")
            r["final"].add(("complete" if comp == "1" else "broken", int(src), int(magic), fil == "0"))
    for n, state, cur, obs, fin, d in observed:
        st["cases"] += 1
        r = reach[(n, state, d[:3])]
        ctx.branch("conc-model:dying=%s.%d%s" % (d[0], d[1], d[2]))
        ctx.branch("conc-model:%s:outcomes=%d/finals=%d" % (state, len(r["procs"]), len(r["final"])))
        bad = [o for o in obs if tuple(o) not in r["procs"]]
        f = tuple(fin[:4]) if fin[0] == "complete" else (fin[0],)
        if bad or f not in r["final"]:
            ctx.disagree("corr.concurrent_outcomes", {"kind": "conc", "n": n, "state": state, "dying": list(d)},
                         {"procs": sorted(r["procs"], key=str), "final": sorted(r["final"], key=str)},
                         {"procs": obs, "final": fin})


# --------------------------------------------------------------------------- (d) same-second rewrite, bytecode on

def oracle_pyc(ctx, root):
    st = ctx.stream("oracle.same_second_bytecode", "oracle")
    procs = [(hook, spawn({"mode": "pyc", "root": root, "attempts": 40, "hook": hook}, bytecode=True)) for hook in (False, True)]
    for hook, p in procs:
        who = "module_writer" if hook else "default writer"
        rc, lines, err = finish(p, timeout=200)
        st["cases"] += 1
        if rc != 0 or not lines:
            ctx.broke("oracle.same_second_bytecode:worker", "rc=%r %s" % (rc, err))
            continue
        out = lines[0]
        dec = out.get("decisive")
        ctx.branch("pyc:%s:attempts" % who, len(out["attempts"]))
        if out.get("dont_write_bytecode"):
            ctx.broke("oracle.same_second_bytecode:bytecode-off", "the probe could not enable bytecode writing")
        if dec is None:
            ctx.notes.append("same-second probe (%s): no attempt out of %d had equal second and equal size; not decisive"
                             % (who, len(out["attempts"])))
            ctx.branch("pyc:%s:not-decisive" % who)
            continue
        ctx.branch("pyc:%s:decisive:second-render=v%s" % (who, dec["second"]))
        ctx.sample({"stream": "oracle.same_second_bytecode", "writer": who, "observed": dec})
        if dec["second"] != 2:
            ctx.violation("same-second-rewrite-stale-pyc",
                          {"kind": "pyc", "writer": who,
                           "input": "construct; delete module; modify source (equal mtime, same length); construct - within one "
                                    "second, bytecode caching on, module written by the %s" % who},
                          "the module file was rewritten from source version 2 (on disk: %r) but the Template renders version %r "
                          "(stale __pycache__ entry: same mtime second and size)" % (dec["on_disk"], dec["second"]),
                          "oracle.same_second_bytecode")


# --------------------------------------------------------------------------- entry points

def run(ctx):
    root = tempfile.mkdtemp(prefix="c15_")
    old_dwb = sys.dont_write_bytecode
    sys.dont_write_bytecode = True
    try:
        try:
            corr_verify_directory(ctx, root)
            corr_histories(ctx, root)
        finally:
            try:
                oracle_faults(ctx, root)
            finally:
                try:
                    oracle_concurrent(ctx, root)
                finally:
                    oracle_pyc(ctx, root)
    finally:
        sys.dont_write_bytecode = old_dwb
        shutil.rmtree(root, ignore_errors=True)


def replay(ctx, data):
    case = data.get("case") or (data.get("first_disagreements") or [{}])[0].get("case")
    print("replaying", json.dumps(case)[:600])
    if not isinstance(case, dict):
        return False
    root = tempfile.mkdtemp(prefix="c15r_")
    old_dwb = sys.dont_write_bytecode
    sys.dont_write_bytecode = True
    try:
        kind = case.get("kind")
        if kind == "history":
            diffs, complaints, reals = one_history(ctx, case["history"], root)
            for r in reals:
                print("real construct:", r["res"], r.get("ver", r.get("exc")), "groups", r["groups"], "module path", r["after"],
                      "ops", [o[0] for o in r["ops"]])
            print("model/real differences:", diffs)
            print("oracle complaints:", complaints)
            return not diffs and not complaints
        if kind == "fault":
            base = tempfile.mkdtemp(dir=root)
            sc = prepare_state(base, case["state"])
            p = spawn({"mode": "construct", "scenarios": [dict(sc, fault=case["fault"])]})
            print("faulty construct:", finish(p)[:2])
            rc, lines, err = finish(spawn({"mode": "inspect", "scenarios": [sc]}))
            print("inspection:", lines, err)
            bad = judge_fault(sc, case["fault"], lines[0], ctx, None)
            print("model post-state:", model_post_state(ctx, sc, case["fault"]))
            print("judgement:", bad)
            return not bad
        if kind == "conc":
            c = type(ctx)(ctx.pid, "quick", data.get("seed", 0))
            oracle_concurrent(c, root)
            print(c.violations)
            return not c.violations
        if kind == "pyc":
            c = type(ctx)(ctx.pid, "quick", data.get("seed", 0))
            oracle_pyc(c, root)
            print(c.violations, c.notes)
            return not c.violations
        if kind == "vdir":
            c = type(ctx)(ctx.pid, "quick", data.get("seed", 0))
            corr_verify_directory(c, root)
            print(c.disagreements)
            return not c.disagreements
        return False
    finally:
        sys.dont_write_bytecode = old_dwb
        shutil.rmtree(root, ignore_errors=True)


DRIVER_OPS = ["modfile"]   # per-area driver executable(s) this check talks to (built before any worker is forked)
