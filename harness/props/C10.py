"""C10 - escaping filters neutralise markup for every input and are invertible.

corr  : Lean models (Filters/Model.lean, Filters/Sites.lean) vs the real mako code in-process, through the per-area
        driver `makodrv_filt`:
        xml_escape / markupsafe.escape / url_escape / html_entities_escape / html_entities_unescape /
        XMLEntityEscaper.escape / trim / UTF-8 encode on every code point, every short string over the
        markup-significant tokens, reference-syntax strings, long dense strings (runs of 1..2000 markup characters) and
        random mixed strings; the htmlentityreplace handler under ascii / latin-1 / cp1251 / shift_jis / utf-8;
        `decode.<enc>` on single values and on HISTORIES of lookups and calls (closure-per-lookup model; the argument
        also an object whose str() changes between calls); `filter=` on <%def> / nested <%def> / <%block> x buffered= x
        cached= (first render + cache hit, buffer_filters [] and ['x']) against the site model; default_filters x page
        expression_filter x own filters of `${v ...}` against `Sites.writeExpression` (values typed plain str / Markup:
        `h` on a Markup is a no-op).  The Spec-side decoders
        (unquote_plus, strict UTF-8, single character reference) are compared with CPython's.
oracle: no Lean, run in a forked child in parallel, every call into mako guarded (an escaping exception is a violation
        `<site>-raises:<Class>`): markup scan of the outputs of `x`/`h`, html.unescape / urllib.parse.unquote_plus /
        html_entities_unescape as inverses, `entity` against html.entities, `trim` against str.isspace; `decode` on
        str/bytes/objects, on non-str/bytes values in a row (equal-but-differently-printing, unhashable, buffer types, a
        mutable __str__) by call / `| decode.utf8` / `| n, decode.utf8` / default_filters, closures of different
        charsets held at once (both orders, nested renders, two threads) against bytes.decode; per-character
        faithfulness of encode(..., 'htmlentityreplace') at byte level; each filter's guarantee at every application
        site (${e|n,f}, ${e|f}, default_filters, <%page expression_filter>, <%text filter>, filter= on <%def>, nested
        <%def>, <%block>, <%call>, <%self:def>) x {plain, buffered, cached, cached+buffered} rendered twice with an
        in-memory CacheImpl; the escaping guarantee for every CONFIGURATION default_filters {None, [], ['str'], ['h'],
        ['trim'], ['str','trim']} x <%page expression_filter> {absent, h, x, 'n,h'} x the expression's own filters whenever h/x is in the
        effective chain of the documented rule (top level, inside a def, inside a block); the handler through every
        bytes-producing ENTRY (Template.render, get_def(..).render, DefTemplate.get_def, lookup templates incl. include /
        inherit / file-based, render_context into a FastEncodingBuffer) x 5 output encodings; and the filters /
        output_encoding + encoding_errors through real templates.
"""
from __future__ import annotations

import html
import html.entities
import itertools
import json
import os
import re
import urllib.parse

import traceback

from harness.common import shrink_str, LEAN


def enc(s):
    """wire format of a string (same as harness.common.enc, faster)"""
    return ",".join(map(str, map(ord, s))) if s else "-"


def dec(f):
    return "" if f == "-" else "".join(map(chr, map(int, f.split(","))))

RULE = ("single code points: every scalar value U+0000..U+10FFFF (thorough) / all of planes 0-1 + every 251st of the rest "
        "+ range boundaries (quick), through x, h, u, entity, XMLEntityEscaper.escape, trim, unescape (bare and inside "
        "&#c; &#xc; &c;), UTF-8 encode, and the handler under 5 charsets (text 'a'+c+c+'<'); short strings: every string "
        "of <= 3 tokens (thorough 4) over 20 markup-significant tokens / entity fragments, and of <= 4 (thorough 5) over 17 "
        "reference-syntax tokens for unescape; random strings of 0-24 tokens mixing those with arbitrary Unicode "
        "(BMP, astral, whitespace set, C1); long dense strings: runs of 1..2000 markup-significant characters (quick: 84 lengths; "
        "thorough: every length up to 300, every 7th beyond) pure and mixed with text / whitespace / non-ASCII / entity fragments, for every filter and "
        "the handler; decode.<enc>: histories of (lookup decode.<enc_i> | call closure j on str/bytes/object) - all ordered "
        "pairs of charsets with both call orders and interleaved lookups + random histories of 2-9 operations, vs the "
        "closure-per-lookup model (utf8/latin1/ascii) and vs bytes.decode (8 charsets), the argument also a non-str/bytes value "
        "(True/1/1.0, False/0/0.0, Decimal, unhashable containers, bytearray, None ...) or one object whose str() changes "
        "between calls (str(x) is taken at call time), plus nested renders, a deterministic two-thread interleaving and "
        "object runs through `| decode.utf8`, `| n, decode.utf8`, default_filters; application sites: each filter at ${e|n,f}, "
        "${e|f}, default_filters, <%page expression_filter> (also cached page), <%text filter>, and filter= on <%def>, nested "
        "<%def>, <%block>, <%call>, <%self:def> x {plain, buffered, cached, cached+buffered}, rendered twice (fill + hit) with an "
        "in-memory CacheImpl, on all strings of <= 2 atoms + random + long ones; configurations: 6 default_filters x 4 page "
        "expression_filter x 12 own-filter lists x {top level, in a def, in a block}, asserted where h/x is in the effective "
        "chain, and all of them against the expression model; entries: 10 bytes-producing entries x 5 output encodings on "
        "unencodable characters and random strings; a case is non-trivial when the filter changes the text (or the decoder "
        "finds a reference); distinct = distinct (filter, input) pairs")
ASSUMPTIONS = [
    "strings with lone surrogates are outside the domain (Lean's Char is the Unicode scalar values); the one place "
    "they can appear - html_entities_unescape('&#55296;') - is modelled as the outcome `surrogate`",
    "the codec is abstracted as an encodability predicate containing ASCII plus the way it reports errors "
    "(maximal run: ascii/latin-1/charmap codecs; single character: multibyte codecs); CPython's codecs are compared, not verified",
    "markupsafe.escape is modelled from a probe of the running markupsafe (regen); its C speedups are compared on every code point, not verified",
    "html.entities of the running interpreter is the entity table (regenerated)",
    "decode.<enc> on invalid bytes / unknown encodings raises (UnicodeDecodeError/LookupError); the property is read as: whatever is returned is a str",
    "the effective filter chain of an expression is computed in the oracle from the documented rule (own `n` disables page and "
    "default filters, page `n` disables the defaults; order defaults, page, own); that rule itself is C02's subject",
    "h applied to the result of h is a no-op (markupsafe.escape leaves a Markup unchanged): modelled (PyText.markup) and counted as one escaping step",
    "decode.<enc> on an object that is neither str nor bytes is str(x) evaluated at the time of the call, on every call",
    "application sites: the cache backend is an in-memory CacheImpl registered by the harness (get_or_create runs the creation "
    "function once per key); buffer_filters is [] (or ['x'] in corr.sites); Beaker/dogpile back ends are not exercised here",
]
TRUSTED_EXTRA = [
    "C10: tools/regen_filters.py (xml_escapes, regex classes, DEFAULT_ESCAPES, bindings from mako/filters.py by ast; "
    "html.entities, markupsafe probe, str.isspace, \\w, \\d from the interpreter)",
    "C10: urllib.parse.quote_plus, str.encode('utf8'), str.translate, re, the codecs: modelled and compared, not verified",
    "C10: regen also reads DefTemplate.__init__ (copied attributes), runtime._render (FastEncodingBuffer arguments) and the condition "
    "of codegen.visitExpression (inspected filter sources), and probes markupsafe's Markup kind behaviour",
    "C10: Filters/Sites.lean is a transcription of the decision logic of codegen.write_def_finish / write_cache_decorator, "
    "tied to the rendered output by corr.sites (not to the generated source text)",
]
REGEN = ["Filters"]

CHARSETS = ["ascii", "latin-1", "cp1251", "shift_jis", "utf-8"]
# how the codec reports unencodable characters to the error handler: a maximal run, or one at a time
GROUPED = {"ascii": True, "latin-1": True, "cp1251": True, "shift_jis": False, "utf-8": True}
# the model of __characterrefs was transcribed against this pattern+flags (sha1 prefix, see Generated/Filters.lean)
CHARACTERREFS_FP = "ffb9f63143c7b564"

TOKENS = ["&", "<", ">", '"', "'", ";", "#", "x", "a", "1", "%", "+", " ", "\u00e9", "\u20ac", "amp", "&amp;", "&#39;",
          "&lt", "\n"]
REF_TOKENS = ["&", "#", "x", ";", "a", "f", "A", "1", "0", ":", "-", "_", "\u0663", "\u00e9", "amp", "zz", "1114112"]
RANDOM_POOL = TOKENS + ["&#x", "&#", "&quot;", "&euro;", "&#55296;", "&#99999999999;", "%41", "%zz", "b'", "\\", "\t",
                        "\u00a0", "\u2028", "\u3000", "\x85", "\x1f", "\x00", "\u4e16", "\U0001f600", "\ufffe", "\x80",
                        "~", "-", ".", "_", "/", "?", "=", "A", "Z", "z", "0", "9", "\u00a5", "\u203e", "\u0416"]

REF_RE = re.compile(r"&(?:#([0-9]+)|#[xX]([0-9A-Fa-f]+)|([A-Za-z][A-Za-z0-9]*));")
REF_RE_B = re.compile(rb"&(?:#([0-9]+)|#[xX]([0-9A-Fa-f]+)|([A-Za-z][A-Za-z0-9]*));")
MARKUP_RE = re.compile(r"[&<>\"']")
URL_RE = re.compile(r"(?:[A-Za-z0-9_.~-]|\+|%[0-9A-Fa-f]{2})*")


def is_scalar(c):
    return not (0xD800 <= c <= 0xDFFF)


def codepoints(ctx):
    if not ctx.quick:
        return [c for c in range(0x110000) if is_scalar(c)]
    s = set(range(0, 0x20000))
    s.update(range(0x20000, 0x110000, 251))
    for b in (0x20000, 0x2FFFF, 0x30000, 0xE0000, 0xE01EF, 0xF0000, 0xFFFFD, 0xFFFFF, 0x100000, 0x10FFFD, 0x10FFFE, 0x10FFFF):
        s.update((b - 1, b, b + 1))
    return sorted(c for c in s if 0 <= c < 0x110000 and is_scalar(c))


def random_string(rng):
    n = rng.randint(0, 24)
    out = []
    for _ in range(n):
        r = rng.random()
        if r < 0.55:
            out.append(rng.choice(RANDOM_POOL))
        elif r < 0.7:
            out.append(chr(rng.randint(0, 0x7F)))
        elif r < 0.85:
            c = rng.randint(0x80, 0xFFFF)
            out.append(chr(c) if is_scalar(c) else "\ud7ff")
        elif r < 0.93:
            out.append(chr(rng.randint(0x10000, 0x10FFFF)))
        else:
            out.append(rng.choice("0123456789abcdefABCDEFxX#;&"))
    return "".join(out)


DENSE_LENS_QUICK = list(range(1, 71)) + [96, 100, 127, 128, 129, 200, 255, 256, 257, 500, 512, 1000, 1024, 2000]


def dense_strings(ctx):
    """long dense strings, ascending in length: runs of 1..2000 markup-significant characters, pure and mixed with
    text, whitespace, non-ASCII and entity fragments - so that count-limited, length-dependent or chunking
    behaviour shows with a concrete (and, coming first, already short) input"""
    lens = DENSE_LENS_QUICK if ctx.quick else sorted(set(DENSE_LENS_QUICK) | set(range(1, 301)) | set(range(301, 2001, 7)))
    sel = set(DENSE_LENS_QUICK)
    out = []
    for n in lens:
        out.append("<" * n)
        out.append("&" * n)
        if n not in sel:
            continue              # thorough: every length for the two pure runs, the patterns at the selected lengths
        for c in ">\"'":
            out.append(c * n)
        out.append(("&<>\"'" * n)[:n])
        out.append(("a<" * n)[:2 * n])
        out.append("x" + "&" * n + "y")
        out.append((" \t\n\u00a0" * n)[:n] + "a" + ("<b " * n)[:n] + ("\u3000 \x1f" * n)[:n])
        out.append("\u00e9" * n)
        out.append(("\u20ac\u4e16<" * n)[:n])
        out.append("&amp;" * n)
        out.append("&#38;&#x26;&zz;" * ((n + 2) // 3))
        out.append(("% +/" * n)[:n])
    rng = ctx.rng
    pool = ["&", "<", ">", '"', "'", "&amp;", "&#39;", ";", "a", " ", "\u00e9", "\u20ac", "%", "+", "\n", "\U0001f600"]
    for _ in range(60 if ctx.quick else 400):
        out.append("".join(rng.choice(pool) for _ in range(rng.randint(100, 3000))))
    return out


# decode.<enc>: histories of lookups and calls -------------------------------------------------------------------
# an op is ["L", label, enc] (d_label = decode.<enc>) or ["C", label, kind, payload] (d_label(x));
# kind: "str" | "other" (an object whose str() is the payload) | "bytes" (payload = hex)
MODEL_ENCS = ["utf8", "latin1", "ascii"]                     # the codecs the Lean driver implements
ORACLE_ENCS = ["utf8", "latin1", "ascii", "utf_16", "cp1251", "shift_jis", "iso8859_15", "utf_8"]
DECODE_BYTES = ["c3a9", "616263", "e282ac", "ff", "a4", "8140", "fffe6100", "", "c3a9e4b896", "80"]


class StrObj:
    def __init__(self, s):
        self.s = s

    def __str__(self):
        return self.s


class MutObj:
    """a hashable object (by identity) whose str() is whatever was last assigned: str(x) must be taken at call time"""

    def __init__(self):
        self.s = ""

    def __str__(self):
        return self.s


def make_value(name):
    """a fresh non-str, non-bytes Python value by name (equal-but-differently-printing, unhashable, buffer types)"""
    import decimal
    import fractions
    return {
        "True": lambda: True, "1": lambda: 1, "1.0": lambda: 1.0, "False": lambda: False, "0": lambda: 0, "0.0": lambda: 0.0,
        "Decimal1": lambda: decimal.Decimal("1"), "Decimal1.0": lambda: decimal.Decimal("1.0"),
        "Fraction1": lambda: fractions.Fraction(1), "1j0": lambda: complex(1, 0), "-0.0": lambda: -0.0,
        "None": lambda: None, "list": lambda: [1, "a"], "dict": lambda: {"a": 1}, "set": lambda: {1},
        "tuple": lambda: ("x",), "tuple1": lambda: (1,), "tuple1.0": lambda: (1.0,), "bytearray": lambda: bytearray(b"ab\xc3\xa9"),
        "big": lambda: 10 ** 30, "1.5": lambda: 1.5, "frozenset": lambda: frozenset([1]), "listlist": lambda: [[1], {"k": [2]}],
        "range": lambda: range(3), "ellipsis": lambda: Ellipsis,
    }[name]()


VALUE_NAMES = ["True", "1", "1.0", "False", "0", "0.0", "Decimal1", "Decimal1.0", "Fraction1", "1j0", "-0.0", "None", "list", "dict",
               "set", "tuple", "tuple1", "tuple1.0", "bytearray", "big", "1.5", "frozenset", "listlist", "range", "ellipsis"]
VALUE_RUNS = [["True", "1", "1.0"], ["1.0", "1", "True"], ["False", "0", "0.0"], ["0.0", "False"], ["1", "1.0", "Decimal1"],
              ["Decimal1", "Decimal1.0", "Fraction1", "1j0", "1"], ["0.0", "-0.0"], ["tuple1", "tuple1.0"], ["list"], ["dict"], ["set"],
              ["bytearray"], ["listlist"], ["None", "None"], ["big", "1.5", "frozenset", "range", "ellipsis", "tuple"]]


def decode_families(encs):
    """two closures for different charsets held at once and called in both orders; interleaved lookups; one closure
    called on equal-but-differently-printing values, on unhashable values, on an object whose str() changes"""
    fams = []
    for e1 in encs:
        for e2 in encs:
            for hx in DECODE_BYTES[:4]:
                x = ["bytes", hx]
                fams.append([["L", 0, e1], ["L", 1, e2], ["C", 0] + x, ["C", 1] + x])
                fams.append([["L", 0, e1], ["L", 1, e2], ["C", 1] + x, ["C", 0] + x])
                fams.append([["L", 0, e1], ["C", 0] + x, ["L", 1, e2], ["C", 0] + x, ["C", 1] + x, ["C", 0] + x])
            fams.append([["L", 0, e1], ["L", 1, e2], ["C", 0, "str", "\u00e9"], ["C", 0, "other", "o\u00e9"],
                         ["C", 0, "bytes", "c3a9"]])
        for run in VALUE_RUNS:
            fams.append([["L", 0, e1]] + [["C", 0, "val", v] for v in run])
            fams.append([["L", 0, e1], ["L", 1, e1]] + [["C", i % 2, "val", v] for i, v in enumerate(run + run)])
        fams.append([["L", 0, e1], ["C", 0, "obj", 0, "first"], ["C", 0, "obj", 0, "second"], ["C", 0, "obj", 1, "third"],
                     ["C", 0, "obj", 0, "first"]])
    return fams


def random_decode_ops(rng, encs):
    ops = []
    n = 0
    for _ in range(rng.randint(2, 9)):
        if n == 0 or rng.random() < 0.35:
            ops.append(["L", n, rng.choice(encs)])
            n += 1
        else:
            kind = rng.choice(["bytes", "bytes", "bytes", "str", "other", "val", "val", "obj"])
            if kind == "bytes":
                ops.append(["C", rng.randrange(n), kind, rng.choice(DECODE_BYTES)])
            elif kind == "val":
                ops.append(["C", rng.randrange(n), kind, rng.choice(VALUE_NAMES)])
            elif kind == "obj":
                ops.append(["C", rng.randrange(n), kind, rng.randrange(2), rng.choice(["a", "b", "\u00e9", ""])])
            else:
                ops.append(["C", rng.randrange(n), kind, rng.choice(["", "a", "\u00e9<", "\u4e16"])])
    return ops


def op_value(op, objs):
    """the Python argument of a call op; `objs`: the mutable objects of this history by id"""
    kind = op[2]
    if kind == "bytes":
        return bytes.fromhex(op[3])
    if kind == "str":
        return op[3]
    if kind == "other":
        return StrObj(op[3])
    if kind == "val":
        return make_value(op[3])
    o = objs.setdefault(op[3], MutObj())          # "obj": the same object again, printing differently now
    o.s = op[4]
    return o


def op_text(op):
    """what str(x) is for the argument of a non-bytes call op, at the time of the call"""
    kind = op[2]
    if kind == "val":
        return str(make_value(op[3]))
    if kind == "obj":
        return op[4]
    return op[3]


class fresh_decode:
    """`filters.decode` replaced by a new `Decode()` for the duration of one check (generated code reaches it as
    `filters.decode.<enc>` at call time), so that a verdict on a history does not depend on what earlier checks of this
    process left behind in the implementation - and a recorded case replays from a fresh process"""

    def __init__(self, F):
        self.F = F

    def __enter__(self):
        self.old = self.F.decode
        try:
            self.F.decode = self.F.Decode()
        except Exception:
            pass
        return self

    def __exit__(self, *a):
        self.F.decode = self.old
        return False


def reproduces_fresh(case):
    """does the recorded case fail when replayed in a fresh interpreter? (implementation side only)"""
    import subprocess
    import sys
    import tempfile
    d = tempfile.mkdtemp(prefix="c10case_")
    try:
        f = os.path.join(d, "case.json")
        with open(f, "w") as fh:
            json.dump({"property": "C10", "case": case}, fh)
        env = dict(os.environ, C10_REPLAY_NO_MODEL="1")
        p = subprocess.run([sys.executable, os.path.join(os.path.dirname(os.path.dirname(os.path.abspath(__file__))), "run.py"),
                            "C10", "--replay", f], env=env, stdout=subprocess.PIPE, stderr=subprocess.STDOUT, timeout=120)
        return p.returncode == 1
    except Exception:
        return True         # cannot tell: keep the case
    finally:
        import shutil
        shutil.rmtree(d, ignore_errors=True)


def run_ops_impl(F, ops):
    with fresh_decode(F):
        return run_ops_impl_(F, ops)


def run_ops_impl_(F, ops):
    """execute a history on the real `filters.decode`; one entry per call: the str returned, or 'raises <Class>'"""
    held = {}
    objs = {}
    res = []
    for op in ops:
        if op[0] == "L":
            try:
                held[op[1]] = getattr(F.decode, op[2])
            except Exception as e:
                held[op[1]] = e
        else:
            d = held.get(op[1])
            if d is None:
                res.append("badindex")
                continue
            if isinstance(d, Exception):
                res.append("raises " + type(d).__name__ + " (at lookup)")
                continue
            try:
                r = d(op_value(op, objs))
                res.append(str(r) if isinstance(r, str) else "not-a-str %r" % (r,))
            except Exception as e:
                res.append("raises " + type(e).__name__)
    return res


def run_ops_ref(ops):
    """independent reference: the closure of lookup `label` decodes with the charset of *that* lookup; any other
    object gives str(x) as it is at the time of the call"""
    encs = {}
    res = []
    for op in ops:
        if op[0] == "L":
            encs[op[1]] = op[2]
        else:
            e = encs.get(op[1])
            if e is None:
                res.append("badindex")
            elif op[2] == "bytes":
                try:
                    res.append(bytes.fromhex(op[3]).decode(e))
                except UnicodeDecodeError:
                    res.append("raises UnicodeDecodeError")
            else:
                res.append(op_text(op))
    return res


def ops_request(ops):
    """the wire request for the Lean model (closure index = order of lookups)"""
    idx = {}
    f = ["filt", "decodeseq"]
    for op in ops:
        if op[0] == "L":
            idx[op[1]] = len(idx)
            f += ["L", enc(op[2])]
        else:
            payload = bytes.fromhex(op[3]).decode("latin-1") if op[2] == "bytes" else op_text(op)
            kind = op[2] if op[2] in ("bytes", "str") else "other"      # the model sees str(x) as of this call
            f += ["C", str(idx.get(op[1], 999)), kind, enc(payload)]
    return " ".join(f)


def shrink_ops(ops, fails):
    from harness.common import ddmin
    return ddmin(ops, lambda sub: bool(sub) and fails(sub), 300)


# --------------------------------------------------------------------------- implementation side

class Impl:
    def __init__(self):
        import markupsafe
        from mako import filters
        self.filters = filters
        self.markupsafe = markupsafe
        self.x = filters.xml_escape
        self.h = lambda s: str(filters.html_escape(s))
        self.u = filters.url_escape
        self.entity = filters.html_entities_escape
        self.trim = filters.trim
        self.xee = lambda s: filters._html_entities_escaper.escape(s).decode("ascii")
        self.outcomes = {}

    def unescape(self, s):
        try:
            r = self.filters.html_entities_unescape(s)
        except ValueError:
            return "ValueError"
        except OverflowError:
            return "OverflowError"
        if any(0xD800 <= ord(c) <= 0xDFFF for c in r):
            return "surrogate"
        return "ok " + enc(r)

    def unescape_counted(self, s):
        """`unescape` + histogram of outcomes (ok-unchanged / ok-decoded / ValueError / OverflowError / surrogate)"""
        r = self.unescape(s)
        k = r if not r.startswith("ok ") else ("ok-unchanged" if r[3:] == enc(s) else "ok-decoded")
        self.outcomes[k] = self.outcomes.get(k, 0) + 1
        return r

    def handler(self, s, cs):
        """bytes, or None when the encode raises UnicodeEncodeError"""
        try:
            return s.encode(cs, "htmlentityreplace")
        except UnicodeEncodeError:
            return None


def encodable(c, cs, _cache={}):
    k = (c, cs)
    r = _cache.get(k)
    if r is None:
        try:
            c.encode(cs)
            r = True
        except UnicodeEncodeError:
            r = False
        if len(_cache) < 3_000_000:
            _cache[k] = r
    return r


def my_decode_ref(r):
    """the character a single reference stands for (XML/HTML4 reading; independent of the Lean model)"""
    m = REF_RE.fullmatch(r)
    if not m:
        return None
    try:
        if m.group(1):
            return chr(int(m.group(1)))
        if m.group(2):
            return chr(int(m.group(2), 16))
    except (ValueError, OverflowError):
        return None
    cp = html.entities.name2codepoint.get(m.group(3))
    return None if cp is None else chr(cp)


# HTML5 error recovery of html.unescape deviates from plain reference decoding exactly here
def html5_quirk(c):
    o = ord(c)
    return (o < 0x20 and o not in (0x9, 0xA, 0xC)) or 0x7F <= o <= 0x9F or 0xFDD0 <= o <= 0xFDEF or (o & 0xFFFE) == 0xFFFE


# --------------------------------------------------------------------------- correspondence

def corr_batch(ctx, stream, op, inputs, expected_fn, nontriv=True, exhaustive=None, label=None):
    """send `filt <op> <enc(input)>` for every input and compare with expected_fn(input) (a wire string)"""
    st = ctx.stream(stream, "corr", exhaustive)
    drv = ctx.driver()
    B = 200000
    changed = 0
    for i in range(0, len(inputs), B):
        chunk = inputs[i:i + B]
        outs = drv.ask_many(["filt %s %s" % (op, enc(s)) for s in chunk])
        for s, o in zip(chunk, outs):
            try:
                want = expected_fn(s)
            except Exception as e:       # the models are total: an exception here is a disagreement, not a crash
                want = "raises " + type(e).__name__
            if o != want:
                ctx.disagree(stream, {"input": s, "op": op}, o, want)
            elif nontriv and want != enc(s):
                changed += 1
                ctx.nontriv((op, s))
        st["cases"] += len(chunk)
    ctx.log("%s: %d cases" % (stream, len(inputs)))
    if nontriv:
        ctx.branch("%s:changed" % (label or stream), changed)
        ctx.branch("%s:unchanged" % (label or stream), len(inputs) - changed)


def short_strings(tokens, k):
    for n in range(0, k + 1):
        for t in itertools.product(tokens, repeat=n):
            yield "".join(t)


def fingerprint_changed(ctx):
    try:
        txt = open(os.path.join(LEAN, "MakoModel", "Generated", "Filters.lean"), encoding="utf-8").read()
        m = re.search(r"characterrefs-fingerprint: (\w+)", txt)
        fp = m.group(1) if m else None
    except OSError:
        fp = None
    if fp != CHARACTERREFS_FP:
        ctx.log("XMLEntityEscaper.__characterrefs changed (fingerprint %s): unescape streams run at thorough size" % fp)
        ctx.branch("fingerprint:characterrefs:changed")
        return True
    ctx.branch("fingerprint:characterrefs:same")
    return False


def corr(ctx, impl, cps, shorts, rnd, dense):
    chars = [chr(c) for c in cps]
    full = not ctx.quick
    # (1) every code point through each filter ---------------------------------------------------------------
    for name, f in (("x", impl.x), ("h", impl.h), ("u", impl.u), ("entity", impl.entity), ("xee", impl.xee)):
        corr_batch(ctx, "corr.codepoint." + name, name, chars, lambda s, f=f: enc(f(s)), exhaustive=full)
    corr_batch(ctx, "corr.codepoint.trim", "trim", [c + "a" + c + " " + c for c in chars],
               lambda s: enc(impl.trim(s)), exhaustive=full)
    corr_batch(ctx, "corr.codepoint.utf8enc", "utf8enc", chars, lambda s: enc(s.encode("utf8").decode("latin-1")),
               nontriv=False, exhaustive=full)
    # unescape: the character as a decimal digit, a hex digit, a name character, a name start, and bare
    wraps = ("&#%s1;", "&#x%sf;", "&a%s;", "&%sa;", "%s&amp;")
    if full:
        for tag, wrap in zip(("dec", "hex", "name", "start", "bare"), wraps):
            corr_batch(ctx, "corr.codepoint.unescape." + tag, "unescape", [wrap % c for c in chars], impl.unescape_counted,
                       nontriv=False, exhaustive=True)
    else:
        # quick: one request per code point carrying all five positions; the BMP completely, the rest every 4th
        sub = [ch for ch in chars if ord(ch) < 0x10000] + [ch for ch in chars if ord(ch) >= 0x10000][:: 4]
        corr_batch(ctx, "corr.codepoint.unescape", "unescape", ["".join(w % c for w in wraps) for c in sub],
                   impl.unescape_counted, nontriv=False, exhaustive=False)
    # (2) short strings -------------------------------------------------------------------------------------
    for name, f in (("x", impl.x), ("h", impl.h), ("u", impl.u), ("entity", impl.entity), ("xee", impl.xee),
                    ("trim", impl.trim)):
        corr_batch(ctx, "corr.short." + name, name, shorts, lambda s, f=f: enc(f(s)), exhaustive=True)
    corr_batch(ctx, "corr.short.unescape", "unescape", shorts, impl.unescape_counted, nontriv=False, exhaustive=True)
    corr_batch(ctx, "corr.short.unescape_of_entity", "unescape", [impl.entity(s) for s in shorts], impl.unescape_counted,
               nontriv=False, exhaustive=True)
    corr_batch(ctx, "corr.short.unescape_of_x", "unescape", [impl.x(s) for s in shorts], impl.unescape_counted,
               nontriv=False, exhaustive=True)
    kref = 4 if (ctx.quick and not fingerprint_changed(ctx)) else 5
    refs = list(short_strings(REF_TOKENS, kref))
    corr_batch(ctx, "corr.refsyntax.unescape", "unescape", refs, impl.unescape_counted, nontriv=False, exhaustive=True)
    big = ["&#" + "9" * n + ";" for n in (7, 8, 9, 10, 11, 4299, 4300, 4301, 5000)] + \
          ["&#" + "0" * n + "65;" for n in (1, 4297, 4298, 4299)] + \
          ["&#x" + "f" * n + ";" for n in (5, 6, 7, 8, 9, 20, 5000)] + \
          ["&#2147483647;", "&#2147483648;", "&#1114111;", "&#1114112;", "&#x10ffff;", "&#x110000;", "&#x7fffffff;",
           "&#x80000000;", "&#55295;", "&#55296;", "&#57343;", "&#57344;", "&#55296;&#99999999;", "&#99999999;&#55296;",
           "&#xd800;x&#x110000;", "&#\u0663\u0664;", "&#x\u0663a;", "&#x\U0001d7d8;", "&#\U0001d7ce\U0001d7d9;"]
    corr_batch(ctx, "corr.refsyntax.limits", "unescape", big, impl.unescape_counted, nontriv=False)
    # (3) random mixed strings -------------------------------------------------------------------------------
    for name, f in (("x", impl.x), ("h", impl.h), ("u", impl.u), ("entity", impl.entity), ("xee", impl.xee),
                    ("trim", impl.trim)):
        corr_batch(ctx, "corr.random." + name, name, rnd, lambda s, f=f: enc(f(s)))
    corr_batch(ctx, "corr.random.unescape", "unescape", rnd, impl.unescape_counted, nontriv=False)
    corr_batch(ctx, "corr.random.unescape_of_entity", "unescape", [impl.entity(s) for s in rnd], impl.unescape_counted,
               nontriv=False)
    for k, v in sorted(impl.outcomes.items()):
        ctx.branch("unescape:outcome:" + k, v)
    # (3b) long dense strings ---------------------------------------------------------------------------------
    for name, f in (("x", impl.x), ("h", impl.h), ("u", impl.u), ("entity", impl.entity), ("xee", impl.xee),
                    ("trim", impl.trim)):
        corr_batch(ctx, "corr.dense." + name, name, dense, lambda s, f=f: enc(f(s)))
    corr_batch(ctx, "corr.dense.unescape", "unescape", dense, impl.unescape_counted, nontriv=False)
    corr_batch(ctx, "corr.dense.unescape_of_entity", "unescape", [impl.entity(s) for s in dense[:: 3]],
               impl.unescape_counted, nontriv=False)
    # (3c) decode.<enc>: histories of lookups and calls against the closure-per-lookup model ------------------
    st = ctx.stream("corr.decode.sequences")
    seqs = decode_families(MODEL_ENCS) + [random_decode_ops(ctx.rng, MODEL_ENCS) for _ in range(20000 if ctx.quick else 100000)]
    outs = ctx.driver().ask_many([ops_request(o) for o in seqs])
    for ops, o in zip(seqs, outs):
        st["cases"] += 1
        got = run_ops_impl(impl.filters, ops)
        want = " ".join(("none" if r == "raises UnicodeDecodeError" else r if r.startswith(("raises", "not-a-str", "badindex")) else enc(r))
                        for r in got) if got else "[]"
        if o != want:
            ctx.disagree("corr.decode.sequences", {"ops": ops, "filter": "decode"}, o, want)
        if sum(1 for op in ops if op[0] == "L") > 1:
            ctx.nontriv(("decodeseq", json.dumps(ops)))
    ctx.branch("decode:sequences-with-several-closures", sum(1 for ops in seqs if sum(1 for op in ops if op[0] == "L") > 1))
    # (4) Decode ------------------------------------------------------------------------------------------------
    dec_f = impl.filters.decode.utf8
    st = ctx.stream("corr.decode")
    drv = ctx.driver()
    sub = rnd[:4000] + shorts[:2000]

    class Obj:
        def __init__(self, s):
            self.s = s

        def __str__(self):
            return self.s
    reqs, wants = [], []
    for s in sub:
        reqs.append("filt decode str " + enc(s)); wants.append(enc(dec_f(s)))
        reqs.append("filt decode other " + enc(s)); wants.append(enc(dec_f(Obj(s))))
        reqs.append("filt decode bytes " + enc(s.encode("utf8").decode("latin-1"))); wants.append(enc(dec_f(s.encode("utf8"))))
    # invalid UTF-8: both sides refuse
    for _ in range(3000):
        b = bytes(ctx.rng.choice([0x41, 0x80, 0xBF, 0xC0, 0xC2, 0xE0, 0xED, 0xA0, 0x9F, 0xF0, 0xF4, 0x90, 0x8F, 0xF5, 0xFF, 0xE2, 0x82, 0xAC])
                  for _ in range(ctx.rng.randint(1, 5)))
        reqs.append("filt decode bytes " + enc(b.decode("latin-1")))
        try:
            wants.append(enc(dec_f(b)))
        except UnicodeDecodeError:
            wants.append("none")
    outs = drv.ask_many(reqs)
    for r, o, w in zip(reqs, outs, wants):
        st["cases"] += 1
        if o != w:
            ctx.disagree("corr.decode", {"request": r}, o, w)
    ctx.branch("decode:bytes-rejected", sum(1 for w in wants if w == "none"))


def corr_spec(ctx, impl, shorts, rnd):
    """the Spec-side decoders the theorems are stated against vs CPython's"""
    drv = ctx.driver()
    rng = ctx.rng
    # unquote_plus (to bytes)
    st = ctx.stream("corr.spec.unquote_plus")
    pool = ["%", "+", "4", "1", "a", "F", "g", " ", "%41", "%e9", "%C3%A9", "%2", "%%", "z", "~", "\u00e9", "\u4e16"]
    cases = [impl.u(s) for s in rnd[:5000]] + ["".join(rng.choice(pool) for _ in range(rng.randint(0, 8))) for _ in range(15000)]
    outs = drv.ask_many(["filt unquote " + enc(s) for s in cases])
    for s, o in zip(cases, outs):
        st["cases"] += 1
        want = urllib.parse.unquote_to_bytes(s.replace("+", " "))
        if o != enc(want.decode("latin-1")):
            ctx.disagree("corr.spec.unquote_plus", s, o, enc(want.decode("latin-1")))
    # strict UTF-8
    st = ctx.stream("corr.spec.utf8_decode")
    bs = [s.encode("utf8") for s in rnd[:3000]]
    alphabet = [0x00, 0x41, 0x7F, 0x80, 0x8F, 0x90, 0x9F, 0xA0, 0xBF, 0xC0, 0xC1, 0xC2, 0xDF, 0xE0, 0xE1, 0xEC, 0xED, 0xEE, 0xEF,
                0xF0, 0xF1, 0xF3, 0xF4, 0xF5, 0xF7, 0xF8, 0xFF]
    for n in (1, 2, 3):
        bs.extend(bytes(t) for t in itertools.product(alphabet, repeat=n))
    for _ in range(20000 if ctx.quick else 200000):
        bs.append(bytes(rng.choice(alphabet) for _ in range(rng.randint(4, 6))))
    outs = drv.ask_many(["filt utf8dec " + enc(b.decode("latin-1")) for b in bs])
    okc = 0
    for b, o in zip(bs, outs):
        st["cases"] += 1
        try:
            want = enc(b.decode("utf-8"))
            okc += 1
        except UnicodeDecodeError:
            want = "none"
        if o != want:
            ctx.disagree("corr.spec.utf8_decode", {"bytes": b.hex()}, o, want)
    ctx.branch("utf8_decode:accepted", okc)
    ctx.branch("utf8_decode:rejected", len(bs) - okc)
    # one character reference
    st = ctx.stream("corr.spec.decode_ref")
    refs = ["&%s;" % n for n in html.entities.name2codepoint] + ["&#%d;" % c for c in range(0, 0x110000, 97)] + \
           ["&#x%X;" % c for c in range(0, 0x110000, 89)] + ["&#x%x;" % c for c in range(0, 0x110000, 101)] + \
           ["&#X%x;" % c for c in range(0, 0x110000, 1009)] + ["&#1114112;", "&#x110000;", "&#xD800;", "&#55296;", "&#;", "&#x;",
                                                               "&;", "&amp", "amp;", "&zz;", "&#12a;", "&#xg;", "&#-1;", "&# 1;"]
    outs = drv.ask_many(["filt decoderef " + enc(r) for r in refs])
    for r, o in zip(refs, outs):
        st["cases"] += 1
        c = my_decode_ref(r)
        if c is not None and not is_scalar(ord(c)):
            c = None
        want = "none" if c is None else str(ord(c))
        if o != want:
            ctx.disagree("corr.spec.decode_ref", r, o, want)
        m5 = REF_RE.fullmatch(r)
        html4_only = bool(m5 and m5.group(3) and html.entities.html5.get(m5.group(3) + ";") != c)   # e.g. &lang; &rang;
        if c is not None and not html5_quirk(c) and not html4_only and html.unescape(r) != c:
            ctx.disagree("corr.spec.decode_ref", {"input": r, "what": "html.unescape differs"}, o, html.unescape(r))


def corr_sites(ctx, impl, inputs):
    """`<%def>` / `<%block>` with every combination of filter= / buffered= / cached=, under buffer_filters [] and ['x']:
    the region rendered first and on the cache hit vs `Sites.renderTwice` (write_def_finish + cache decorator model)"""
    st = ctx.stream("corr.sites")
    drv = ctx.driver()
    reqs, cases = [], []
    sub = inputs[:: 3] if ctx.quick else inputs[:: 2]
    for form in ("def", "block", "nested-def"):
        for b in (False, True):
            for c in (False, True):
                mode = {(False, False): "plain", (True, False): "buffered", (False, True): "cached", (True, True): "cached+buffered"}[b, c]
                for filtered in (True, False):
                    for f in ("x", "h", "u", "entity", "trim"):
                        if not filtered and f != "x":
                            continue
                        for buf in ((), ("x",)):
                            for v in sub:
                                reqs.append("filt site %d %d %d %s %s %s" % (b, filtered, c, f, "x" if buf else "id", enc(v)))
                                cases.append((form, mode, f, v, buf, filtered))
    outs = drv.ask_many(reqs)
    for (form, mode, f, v, buf, filtered), o in zip(cases, outs):
        st["cases"] += 1
        try:
            got = site_render_twice(form, mode, f, v, buf, filtered)
            want = enc(got[0]) + " " + enc(got[1])
        except Exception as e:
            want = "raises " + type(e).__name__
        if o != want:
            ctx.disagree("corr.sites", {"input": v, "filter": f, "form": form, "mode": mode, "buffer_filters": list(buf),
                                        "filtered": filtered}, o, want)
        elif filtered:
            ctx.nontriv(("site", form, mode, f, v, buf))
    ctx.branch("sites:corr-cases", len(cases))


def corr_exprconfig(ctx, impl, inputs):
    """default_filters x <%page expression_filter> x the expression's own filters: the text written for `${v ...}` vs
    `Sites.writeExpression` (visitExpression + create_filter_callable model, with the regenerated source checks)"""
    st = ctx.stream("corr.exprconfig")
    drv = ctx.driver()
    sub = inputs[:: 12] if ctx.quick else inputs[:: 3]
    known = {"x", "h", "u", "entity", "trim", "str", "n"}

    def wire(names):
        return "+".join(names) if names else "-"
    reqs, cases = [], []
    for dkey, dval in CFG_DEFAULTS.items():
        for page in CFG_PAGE:
            for own in CFG_OWN:
                o_, p_ = [x for x in own.split(",") if x], [x for x in page.split(",") if x]
                d_ = ["str"] if dval is None else dval
                if not set(o_ + p_ + d_) <= known:
                    continue
                for v in sub:
                    reqs.append("filt exprcfg %s %s %s %s" % (wire(o_), wire(p_), wire(d_), enc(v)))
                    cases.append((dkey, page, own, v))
    outs = drv.ask_many(reqs)
    for (dkey, page, own, v), o in zip(cases, outs):
        st["cases"] += 1
        try:
            want = enc(cfg_render("top", dkey, page, own, v))
        except Exception as e:
            want = "raises " + type(e).__name__
        if o != want:
            ctx.disagree("corr.exprconfig", {"input": v, "default_filters": dkey, "page": page, "own": own}, o, want)
        elif want != enc(v):
            ctx.nontriv(("exprcfg", dkey, page, own, v))
    ctx.branch("exprconfig:corr-cases", len(cases))


def handler_cases(ctx, cps, rnd):
    """(text, charset) pairs for the error handler"""
    for cs in CHARSETS:
        sub = cps
        if ctx.quick:
            # quick tier: ascii (every non-ASCII character is replaced; run-wise) and shift_jis (scattered encodable
            # set; character-wise) see every code point; the reference computed does not depend on the charset, so
            # shift_jis samples the astral planes (it encodes BMP characters only), latin-1 / cp1251 see everything below
            # U+2200 + every 32nd, utf-8 (handler never runs) every 32nd
            if cs in ("latin-1", "cp1251"):
                sub = [c for c in cps if c < 0x2200] + cps[:: 32]
            elif cs == "shift_jis":
                sub = [c for c in cps if c < 0x10000] + [c for c in cps if c >= 0x10000][:: 8]
            elif cs == "utf-8":
                sub = cps[:: 32]
        for c in sub:
            ch = chr(c)
            yield "a" + ch + ch + "<", cs
    for cs in CHARSETS:
        for n in DENSE_LENS_QUICK:
            yield "\u00e9" * n, cs
            yield ("\u20aca" * n)[:n], cs
            yield ("\u4e16\U0001f600<" * n)[:n], cs
    extra = ["\u20ac", "The cost was \u20ac12.", "\u20ac\u4e16\u20ac", "\\~\u00a5\u203e", "", "plain", "\u00e9\u00e8<\u4e16>&\"'"]
    for cs in CHARSETS:
        for s in extra + rnd[: (2000 if ctx.quick else 20000)]:
            yield s, cs


def corr_handler(ctx, impl, cases):
    st = ctx.stream("corr.handler", "corr", exhaustive=False)
    drv = ctx.driver()
    B = 200000
    buf = []

    def flush():
        outs = drv.ask_many([r for r, _, _ in buf])
        for (r, s, cs), o in zip(buf, outs):
            got = impl.handler(s, cs)
            if o == "none":
                want = None
            else:
                try:
                    want = dec(o).encode(cs)
                except UnicodeEncodeError:
                    want = b"<model output not encodable>"
            if got != want:
                ctx.disagree("corr.handler", {"input": s, "charset": cs}, {"text": o, "bytes": want}, got)
            st["cases"] += 1
        buf.clear()
    nbad = {}
    for s, cs in cases:
        bad = "".join(sorted({c for c in s if not encodable(c, cs)}))
        if bad:
            nbad[cs] = nbad.get(cs, 0) + 1
            ctx.nontriv(("handler", cs, s))
        buf.append(("filt handler %d %s %s" % (1 if GROUPED[cs] else 0, enc(bad), enc(s)), s, cs))
        if len(buf) >= B:
            flush()
    flush()
    for cs in CHARSETS:
        ctx.branch("handler:%s:texts-with-unencodable" % cs, nbad.get(cs, 0))


# --------------------------------------------------------------------------- oracles (no Lean)

class Reporter:
    """keeps the first (smallest) witnesses per site; counts the rest"""

    def __init__(self, ctx):
        self.ctx = ctx
        self.seen = {}

    def report(self, site, case, detail, stream, shrink=None):
        n = self.seen.get(site, 0)
        self.seen[site] = n + 1
        if n >= 2:
            return
        if shrink is not None and isinstance(case.get("input"), str) and len(case["input"]) > 1:
            case = dict(case, input=shrink_str(case["input"], shrink, 400))
        self.ctx.violation(site, case, detail, stream)

    def finish(self):
        for site, n in sorted(self.seen.items()):
            self.ctx.branch("oracle:violations:" + site, n)


def check_markup(out, s):
    """None if `out` is a faithful markup-free escape of s, else a reason"""
    if out == s and not MARKUP_RE.search(s):
        return None          # nothing significant in the text, nothing changed: all three conditions hold trivially
    for ch in "<>\"'":
        if ch in out:
            return "output contains %r" % ch
    i = out.find("&")
    while i >= 0:
        if not REF_RE.match(out, i):
            return "'&' at %d does not start an entity" % i
        i = out.find("&", i + 1)
    if html.unescape(out) != s:
        return "html.unescape(output) != input"
    return None


def check_url(out, s):
    if not URL_RE.fullmatch(out):
        return "output has characters outside [A-Za-z0-9_.~-], '+', %XX"
    try:
        back = urllib.parse.unquote_plus(out, encoding="utf-8", errors="strict")
    except UnicodeDecodeError as e:
        return "percent-decoded bytes are not UTF-8: %s" % e
    if back != s:
        return "unquote_plus(output) != input"
    return None


def check_entity(out, s, unescape):
    c2n = html.entities.codepoint2name
    want = "".join("&%s;" % c2n[ord(c)] if ord(c) in c2n else c for c in s)
    if out != want:
        return "not exactly the characters with a named entity were replaced"
    try:
        back = unescape(out)
    except Exception as e:
        return "html_entities_unescape raised %s" % type(e).__name__
    if back != s:
        return "html_entities_unescape(output) != input"
    return None


def check_trim(out, s):
    i = s.find(out) if out else None
    if out == "":
        return None if all(c.isspace() for c in s) else "returned '' for a text with non-whitespace"
    if out[0].isspace() or out[-1].isspace():
        return "result still starts/ends with whitespace"
    # the unique decomposition: strip leading whitespace of s, then the result must be a prefix, rest whitespace
    j = 0
    while j < len(s) and s[j].isspace():
        j += 1
    if s[j:j + len(out)] != out or not all(c.isspace() for c in s[j + len(out):]):
        return "removed something other than leading/trailing whitespace"
    return None


def walk_handler(s, out, cs):
    """does `out` spell `s` with each unencodable character replaced by a reference that decodes back to it?
    -> 'ok' | 'wrapped' (yes, but runs of references arrive inside b'...') | 'bad'"""
    pos = 0
    i = 0
    n = len(s)
    status = "ok"
    while i < n:
        c = s[i]
        if encodable(c, cs):
            b = c.encode(cs)
            if out[pos:pos + len(b)] != b:
                return "bad"
            pos += len(b)
            i += 1
            continue
        wrapped = out[pos:pos + 2] == b"b'"     # a reference starts with '&', so this is never a legitimate start
        if wrapped:
            pos += 2
            status = "wrapped"
        while True:
            m = REF_RE_B.match(out, pos)
            if not m or my_decode_ref(m.group().decode("ascii")) != s[i]:
                return "bad"
            pos = m.end()
            i += 1
            if not wrapped or i >= n or encodable(s[i], cs) or out[pos:pos + 1] == b"'":
                break
        if wrapped:
            if out[pos:pos + 1] != b"'":
                return "bad"
            pos += 1
    return status if pos == len(out) else "bad"


def check_handler(s, cs, encode):
    """(site, detail) or None"""
    try:
        out = encode(s, cs)
    except UnicodeError as e:
        return "htmlentityreplace-raises", "%s: %s" % (type(e).__name__, e)
    except Exception as e:
        return "htmlentityreplace-raises:" + type(e).__name__, "%s: %s" % (type(e).__name__, e)
    if not isinstance(out, bytes):
        return "htmlentityreplace-unfaithful", "result is %s" % type(out).__name__
    try:
        if out == s.encode(cs):
            return None      # everything encodable and encoded as the codec does
    except UnicodeEncodeError:
        pass
    r = walk_handler(s, out, cs)
    if r == "ok":
        return None
    if r == "wrapped":
        return "htmlentityreplace-bytes-repr", "output %r: the references arrive wrapped in b'...' (str() of a bytes object)" % out[:60]
    return "htmlentityreplace-unfaithful", "output %r is not the text with each unencodable character replaced by a reference to it" % out[:60]


def check_decode_ops(F, ops):
    got = run_ops_impl(F, ops)
    want = run_ops_ref(ops)
    if got != want:
        k = next(i for i, (a, b) in enumerate(zip(got, want)) if a != b)
        return "call #%d returned %r; its own charset and its argument as of that call give %r" % (k, got[k], want[k])
    return None


def check_decode_nested(e1, e2, hx1, hx2):
    """`${fragment()}` under default_filters=['decode.<e1>'] while fragment() renders a template using decode.<e2>"""
    from mako import filters as F_
    with fresh_decode(F_):
        return check_decode_nested_(e1, e2, hx1, hx2)


def check_decode_nested_(e1, e2, hx1, hx2):
    from mako.template import Template
    b1, b2 = bytes.fromhex(hx1), bytes.fromhex(hx2)
    try:
        want1, want2 = b1.decode(e1), b2.decode(e2)
    except UnicodeDecodeError:
        return None
    try:
        inner = Template("${v | n,decode.%s}" % e2)
        outer = Template("[${fragment()}]", default_filters=["decode." + e1])
    except Exception as e:
        return "compiling the templates raised %s: %s" % (type(e).__name__, e)
    seen = []

    def fragment():
        seen.append(inner.render(v=b2))
        return b1
    try:
        out = outer.render(fragment=fragment)
    except Exception as e:
        return "nested render raised %s: %s" % (type(e).__name__, e)
    if seen != [want2]:
        return "inner template (decode.%s) rendered %r, expected %r" % (e2, seen, want2)
    if out != "[" + want1 + "]":
        return "outer template (decode.%s around a fragment that used decode.%s) rendered %r, expected %r" % (e1, e2, out, "[" + want1 + "]")
    return None


def check_decode_threads(F, e1, e2, hx):
    """thread 1 looks decode.<e1> up, thread 2 looks up and calls decode.<e2>, then thread 1 calls its closure"""
    with fresh_decode(F):
        return check_decode_threads_(F, e1, e2, hx)


def check_decode_threads_(F, e1, e2, hx):
    import threading
    b = bytes.fromhex(hx)
    ev1, ev2 = threading.Event(), threading.Event()
    res = {}

    def call(d):
        try:
            return d(b)
        except Exception as e:
            return "raises " + type(e).__name__

    def t1():
        try:
            d = getattr(F.decode, e1)
        except Exception as e:
            res[1] = "raises %s (at lookup)" % type(e).__name__
            ev1.set()
            return
        ev1.set()
        ev2.wait(10)
        res[1] = call(d)

    def t2():
        ev1.wait(10)
        try:
            res[2] = call(getattr(F.decode, e2))
        except Exception as e:
            res[2] = "raises %s (at lookup)" % type(e).__name__
        ev2.set()
    a, c = threading.Thread(target=t1), threading.Thread(target=t2)
    a.start(); c.start(); a.join(20); c.join(20)
    want = run_ops_ref([["L", 1, e1], ["L", 2, e2], ["C", 1, "bytes", hx], ["C", 2, "bytes", hx]])
    if [res.get(1), res.get(2)] != want:
        return "thread 1 (decode.%s) got %r, thread 2 (decode.%s) got %r; expected %r" % (e1, res.get(1), e2, res.get(2), want)
    return None


def oracle_decode_state(ctx, rep, F):
    """decode.<enc> depends only on <enc> and the argument: closures held at once, both orders, interleaved lookups,
    nested renders, two threads - against bytes.decode(enc)"""
    st = ctx.stream("oracle.decode.sequences", "oracle")
    seqs = decode_families(ORACLE_ENCS) + [random_decode_ops(ctx.rng, ORACLE_ENCS) for _ in range(5000 if ctx.quick else 60000)]
    for ops in seqs:
        st["cases"] += 1
        bad = check_decode_ops(F, ops)
        if bad:
            if rep.seen.get("decode-history", 0) >= 2:
                rep.seen["decode-history"] += 1
                continue
            small = shrink_ops(ops, lambda sub: check_decode_ops(F, sub) is not None)
            case = {"input": json.dumps(small), "ops": small, "filter": "decode", "via": "sequence"}
            if not reproduces_fresh(case):
                small = ops
                case = {"input": json.dumps(ops), "ops": ops, "filter": "decode", "via": "sequence"}
            rep.report("decode-history", case, check_decode_ops(F, small) or bad, "oracle.decode.sequences")
    st = ctx.stream("oracle.decode.nested_render", "oracle")
    pairs = [(e1, e2) for e1 in ORACLE_ENCS[:6] for e2 in ORACLE_ENCS[:6]]
    for e1, e2 in pairs:
        for hx1, hx2 in (("c3a9", "e9"), ("616263", "c3a9"), ("e282ac", "a4")):
            st["cases"] += 1
            bad = check_decode_nested(e1, e2, hx1, hx2)
            if bad:
                rep.report("decode-history", {"input": "%s/%s" % (e1, e2), "filter": "decode", "via": "nested-render",
                                                          "e1": e1, "e2": e2, "bytes1": hx1, "bytes2": hx2}, bad,
                           "oracle.decode.nested_render")
    st = ctx.stream("oracle.decode.threads", "oracle")
    for e1, e2 in pairs:
        st["cases"] += 1
        bad = check_decode_threads(F, e1, e2, "c3a9")
        if bad:
            rep.report("decode-history", {"input": "%s/%s" % (e1, e2), "filter": "decode", "via": "threads",
                                                      "e1": e1, "e2": e2, "bytes1": "c3a9"}, bad, "oracle.decode.threads")


# --------------------------------------------------------------------------- application sites of a filter

SITE_L, SITE_R = "\u27e6", "\u27e7"
SITE_MODES = {"plain": "", "buffered": ' buffered="True"', "cached": ' cached="True"',
              "cached+buffered": ' cached="True" buffered="True"'}
SITE_FILTERS = ["h", "x", "u", "entity", "trim", "decode.utf8"]
# form -> (source with %(f)s / %(attr)s, has modes, what the body text is for the input v)
SITE_FORMS = {
    "expr-n": (SITE_L + "${v | n,%(f)s}" + SITE_R, False, lambda v: v),
    "expr": (SITE_L + "${v | %(f)s}" + SITE_R, False, lambda v: v),
    "default_filters": (SITE_L + "${v}" + SITE_R, False, lambda v: v),
    "page-expression_filter": ('<%%page expression_filter="%(f)s"/>' + SITE_L + "${v}" + SITE_R, False, lambda v: v),
    "page-cached": ('<%%page expression_filter="%(f)s" cached="True"/>' + SITE_L + "${v}" + SITE_R, False, lambda v: v),
    "def": ('<%%def name="d(v)" filter="%(f)s"%(attr)s>${v | n}</%%def>' + SITE_L + "${d(v) | n}" + SITE_R, True, lambda v: v),
    "nested-def": ('<%%def name="outer(v)"><%%def name="d(v)" filter="%(f)s"%(attr)s>${v | n}</%%def>${d(v) | n}</%%def>'
                   + SITE_L + "${outer(v) | n}" + SITE_R, True, lambda v: v),
    "block": (SITE_L + '<%%block name="b" filter="%(f)s"%(attr)s>${v | n}</%%block>' + SITE_R, True, lambda v: v),
    "call": ('<%%def name="d(v)" filter="%(f)s"%(attr)s>${v | n}${caller.body()}</%%def>' + SITE_L
             + '<%%call expr="d(v)">B</%%call>' + SITE_R, True, lambda v: v + "B"),
    "ns-def": ('<%%def name="d(v)" filter="%(f)s"%(attr)s>${v | n}${caller.body()}</%%def>' + SITE_L
               + '<%%self:d v="${v}">B</%%self:d>' + SITE_R, True, lambda v: v + "B"),
}
_site_cache = {}


def ensure_cache_plugin():
    """a small in-memory CacheImpl registered as `c10_dict` (no Beaker needed); returns its store"""
    import sys
    import types
    mod = sys.modules.get("c10_dictcache")
    if mod is None:
        from mako.cache import CacheImpl, register_plugin
        mod = types.ModuleType("c10_dictcache")
        mod.STORE = {}
        mod.CREATED = [0]

        class DictCache(CacheImpl):
            def get_or_create(self, key, creation_function, **kw):
                k = (self.cache.id, key)
                if k not in mod.STORE:
                    mod.CREATED[0] += 1
                    mod.STORE[k] = creation_function()
                return mod.STORE[k]

            def set(self, key, value, **kw):
                mod.STORE[(self.cache.id, key)] = value

            def get(self, key, **kw):
                return mod.STORE.get((self.cache.id, key))

            def invalidate(self, key, **kw):
                mod.STORE.pop((self.cache.id, key), None)
        mod.DictCache = DictCache
        sys.modules["c10_dictcache"] = mod
        register_plugin("c10_dict", "c10_dictcache", "DictCache")
    return mod


def site_template(form, mode, f, buffer_filters=(), filtered=True):
    from mako.template import Template
    key = (form, mode, f, tuple(buffer_filters), filtered)
    t = _site_cache.get(key)
    if t is None:
        ensure_cache_plugin()
        src = SITE_FORMS[form][0] % {"f": f, "attr": SITE_MODES.get(mode, "")}
        if not filtered:
            src = src.replace(' filter="%s"' % f, "")
        kw = {"cache_impl": "c10_dict", "buffer_filters": list(buffer_filters)}
        if form == "default_filters":
            kw["default_filters"] = [f]
        t = _site_cache[key] = Template(src, **kw)
    return t


def site_render_twice(form, mode, f, v, buffer_filters=(), filtered=True):
    """the filtered region on a first render (cache empty) and on a second one (cache hit where cached)"""
    t = site_template(form, mode, f, buffer_filters, filtered)
    ensure_cache_plugin().STORE.clear()
    res = []
    for _ in range(2):
        out = t.render_unicode(v=v)
        res.append(out[out.index(SITE_L) + 1: out.rindex(SITE_R)])
    return res


def site_text_filter(f, body):
    """`<%text filter="f">body</%text>` (the body is literal template text)"""
    from mako.template import Template
    out = Template(SITE_L + '<%%text filter="%s">' % f + body + "</%text>" + SITE_R).render_unicode()
    return out[out.index(SITE_L) + 1: out.rindex(SITE_R)]


def site_checks(F):
    """filter name -> (base site name, guarantee check(out, body), the filter function itself)"""
    return {
        "h": ("h-markup", check_markup, lambda s: str(F.html_escape(s))),
        "x": ("x-markup", check_markup, F.xml_escape),
        "u": ("u-url", check_url, F.url_escape),
        "entity": ("entity-exact", lambda o, s: check_entity(o, s, F.html_entities_unescape), F.html_entities_escape),
        "trim": ("trim-edges", check_trim, F.trim),
        "decode.utf8": ("decode-str", lambda o, s: None if o == s else "decode.utf8 changed a str", lambda s: s),
    }


def check_site(F, form, mode, f, v):
    """the filter's guarantee at this application site, first render and hit -> None | (site, detail)"""
    base, check, direct = site_checks(F)[f]
    where = "%s@%s[%s]" % (base, form, mode)
    try:
        if form == "text":
            if "</%text>" in v or "<%text" in v:
                return None
            outs = [site_text_filter(f, v)]
            body = v
        else:
            outs = site_render_twice(form, mode, f, v)
            body = SITE_FORMS[form][2](v)
    except Exception as e:
        return where + "-raises:" + type(e).__name__, "%s: %s" % (type(e).__name__, e)
    for which, out in zip(("first render", "cache hit / second render"), outs):
        bad = check(out, body)
        if bad:
            return where, "%s: %s (filter %s on %r gave %r)" % (which, bad, f, body, out)
        try:
            want = direct(body)
        except Exception:
            want = out
        if out != want:
            return where, "%s: rendered %r, the filter function gives %r" % (which, out, want)
    return None


def site_inputs(ctx):
    atoms = ["<", ">", '"', "'", "&", "&amp;", "&#39;", "&lt", ";", " ", "a", "\u00e9", "\n"]
    ins = [""] + ["".join(p) for n in (1, 2) for p in itertools.product(atoms, repeat=n)]
    pool = atoms + ["\u20ac", "\u4e2d", "\U0001f600", "\t", "%", "+", "/", "\u00a0", "${", "<%", "##", "\\"]
    for _ in range(120 if ctx.quick else 1500):
        ins.append("".join(ctx.rng.choice(pool) for _ in range(ctx.rng.randint(3, 9))))
    ins += ["<" * 40, ("&<>\"'" * 50), " " * 5 + "<b>" * 700 + "\n"]
    return ins


def oracle_sites(ctx, rep, F, inputs):
    """the guarantee of each filter at every application site x {plain, buffered, cached (fill + hit)}"""
    st = ctx.stream("oracle.sites", "oracle")
    created0 = ensure_cache_plugin().CREATED[0]
    combos = []
    for form, (_, has_modes, _) in SITE_FORMS.items():
        for mode in (SITE_MODES if has_modes else ["-"]):
            combos.append((form, mode))
    for f in SITE_FILTERS:
        for form, mode in combos:
            for v in inputs:
                st["cases"] += 2
                bad = check_site(F, form, mode, f, v)
                if bad:
                    site, detail = bad
                    rep.report(site, {"input": v, "filter": f, "via": "site", "form": form, "mode": mode}, detail, "oracle.sites",
                               lambda t_, form=form, mode=mode, f=f, site=site: (check_site(F, form, mode, f, t_) or ("",))[0] == site)
            ctx.branch("sites:%s[%s]" % (form, mode), len(inputs))
        for v in inputs[:: 4]:
            st["cases"] += 1
            bad = check_site(F, "text", "-", f, v)
            if bad:
                site, detail = bad
                rep.report(site, {"input": v, "filter": f, "via": "site", "form": "text", "mode": "-"}, detail, "oracle.sites",
                           lambda t_, f=f, site=site: (check_site(F, "text", "-", f, t_) or ("",))[0] == site)
    used = ensure_cache_plugin().CREATED[0] - created0
    ctx.branch("sites:cache-fills", used)
    if used == 0:
        ctx.broke("oracle.sites:cache-not-exercised", "the cached forms never went through the cache backend")


# --------------------------------------------------------------------------- configurations of an expression

CFG_DEFAULTS = {"None": None, "[]": [], "str": ["str"], "h": ["h"], "trim": ["trim"], "str+trim": ["str", "trim"]}
CFG_PAGE = ["", "h", "x", "n,h"]
CFG_OWN = ["", "h", "x", "n", "n,h", "n,x", "trim", "trim,h", "h,trim", "u", "u,h", "entity"]
CFG_FORMS = {
    "top": "%(page)s" + SITE_L + "${v%(own)s}" + SITE_R,
    "in-def": '%(page)s<%%def name="d()">${v%(own)s}</%%def>' + SITE_L + "${d() | n}" + SITE_R,
    "in-block": "%(page)s" + SITE_L + "<%%block>${v%(own)s}</%%block>" + SITE_R,
}
_cfg_cache = {}


def effective_chain(own, page, defaults):
    """the documented rule (filtering.rst): `n` among the expression's own filters disables the <%page> filters and the
    default filters; otherwise the page filters come before the expression's own, and default_filters before both
    unless `n` is among them; `n` itself is no filter"""
    own = [x for x in own.split(",") if x]
    page = [x for x in page.split(",") if x]
    defaults = ["str"] if defaults is None else list(defaults)
    if "n" in own:
        chain = own
    else:
        chain = page + own
        if defaults and "n" not in chain:
            chain = defaults + chain
    return [x for x in chain if x != "n"]


def cfg_render(form, dkey, page, own, v):
    from mako.template import Template
    key = (form, dkey, page, own)
    t = _cfg_cache.get(key)
    if t is None:
        src = CFG_FORMS[form] % {"page": '<%%page expression_filter="%s"/>' % page if page else "", "own": " | " + own if own else ""}
        t = _cfg_cache[key] = Template(src, default_filters=CFG_DEFAULTS[dkey])
    out = t.render_unicode(v=v)
    return out[out.index(SITE_L) + 1: out.rindex(SITE_R)]


def check_exprconfig(F, form, dkey, page, own, v):
    """whenever h or x is in the effective chain of the expression, the output carries no markup and decodes back
    -> None | (site, detail)"""
    chain = effective_chain(own, page, CFG_DEFAULTS[dkey])
    esc = [x for x in chain if x in ("h", "x")]
    if not esc:
        return None
    where = "%s-markup@config[%s]" % (esc[0], form)
    try:
        out = cfg_render(form, dkey, page, own, v)
    except Exception as e:
        return where + "-raises:" + type(e).__name__, "%s: %s" % (type(e).__name__, e)
    last = max(i for i, x in enumerate(chain) if x in ("h", "x"))
    after = chain[last + 1:]
    if all(x in ("trim", "str", "u") for x in after):
        for ch in "<>\"'":
            if ch in out:
                return where, "effective chain %s, output %r contains %r" % (chain, out, ch)
        i = out.find("&")
        while i >= 0:
            if not REF_RE.match(out, i):
                return where, "effective chain %s, output %r: '&' at %d does not start an entity" % (chain, out, i)
            i = out.find("&", i + 1)
    if all(x in ("h", "x", "trim", "str") for x in chain):
        # decode back: every escaping step that really escaped is undone by one html.unescape.  `h` (markupsafe.escape)
        # returns a Markup and leaves a Markup unchanged; `trim` keeps the kind, `x` and `str` give a plain str
        want, steps, markup = v, 0, False
        for x in chain:
            if x == "trim":
                want = F.trim(want)
            elif x == "h":
                if not markup:
                    steps += 1
                markup = True
            elif x == "x":
                steps += 1
                markup = False
            else:
                markup = False
        back = out
        for _ in range(steps):
            back = html.unescape(back)
        if back != want:
            return where, "effective chain %s, output %r decodes (%d steps) to %r, expected %r" % (chain, out, steps, back, want)
    return None


def oracle_exprconfig(ctx, rep, F, inputs):
    st = ctx.stream("oracle.exprconfig", "oracle")
    sub = inputs[:: 4] if ctx.quick else inputs
    n_esc = 0
    for form in CFG_FORMS:
        for dkey in CFG_DEFAULTS:
            for page in CFG_PAGE:
                for own in CFG_OWN:
                    chain = effective_chain(own, page, CFG_DEFAULTS[dkey])
                    if not any(x in ("h", "x") for x in chain):
                        ctx.branch("exprconfig:no-escaper-in-chain")
                        continue
                    n_esc += 1
                    for v in sub:
                        st["cases"] += 1
                        bad = check_exprconfig(F, form, dkey, page, own, v)
                        if bad:
                            site, detail = bad
                            rep.report(site, {"input": v, "filter": chain and [x for x in chain if x in ("h", "x")][0], "via": "exprconfig",
                                              "form": form, "default_filters": dkey, "page": page, "own": own}, detail, "oracle.exprconfig",
                                       lambda t_, a=(form, dkey, page, own), site=site: (check_exprconfig(F, *a, t_) or ("",))[0] == site)
    ctx.branch("exprconfig:configurations-with-escaper", n_esc)


# --------------------------------------------------------------------------- entries that produce bytes

ENTRY_SRC = '<%def name="d(v)">${v}</%def><%def name="e(v)">[${v}]</%def>${v}'


def entry_renderers(cs, tmpdir):
    """name -> (render(s) -> bytes, what the bytes spell for s): every way mako produces encoded output for a template
    configured with output_encoding=cs, encoding_errors='htmlentityreplace'"""
    from mako.lookup import TemplateLookup
    from mako.runtime import Context
    from mako.template import Template
    from mako.util import FastEncodingBuffer
    kw = {"output_encoding": cs, "encoding_errors": "htmlentityreplace"}
    t = Template(ENTRY_SRC, **kw)
    lk = TemplateLookup(**kw)
    lk.put_string("a.html", ENTRY_SRC)
    lk.put_string("inc.html", '<%include file="a.html" args="v=v"/>')
    lk.put_string("base.html", "${self.body()}")
    lk.put_string("child.html", '<%inherit file="base.html"/>${v}')
    with open(os.path.join(tmpdir, "f.html"), "w", encoding="utf-8") as fh:
        fh.write(ENTRY_SRC)
    flk = TemplateLookup(directories=[tmpdir], input_encoding="utf-8", **kw)

    def via_context(s):
        buf = FastEncodingBuffer(encoding=t.output_encoding, errors=t.encoding_errors)
        t.render_context(Context(buf, v=s))
        return buf.getvalue()
    ident = lambda s: s
    return {
        "Template.render": (lambda s: t.render(v=s), ident),
        "get_def.render": (lambda s: t.get_def("d").render(v=s), ident),
        "get_def.get_def.render": (lambda s: t.get_def("d").get_def("e").render(v=s), lambda s: "[" + s + "]"),
        "lookup.render": (lambda s: lk.get_template("a.html").render(v=s), ident),
        "lookup.get_def.render": (lambda s: lk.get_template("a.html").get_def("e").render(v=s), lambda s: "[" + s + "]"),
        "lookup.include": (lambda s: lk.get_template("inc.html").render(v=s), ident),
        "lookup.inherit": (lambda s: lk.get_template("child.html").render(v=s), ident),
        "file-lookup.render": (lambda s: flk.get_template("f.html").render(v=s), ident),
        "file-lookup.get_def.render": (lambda s: flk.get_template("f.html").get_def("d").render(v=s), ident),
        "render_context+FastEncodingBuffer": (via_context, ident),
    }


def check_entry(cs, entry, s, tmpdir, _cache={}):
    key = (cs, tmpdir)
    if key not in _cache:
        _cache[key] = entry_renderers(cs, tmpdir)
    render, spell = _cache[key][entry]
    bad = check_handler(spell(s), cs, lambda s_, cs_: render(s))
    if bad:
        return bad[0] + "@" + entry, bad[1]
    return None


def oracle_entries(ctx, rep, cps, rnd):
    """encoding_errors='htmlentityreplace' through every bytes-producing entry x output encodings"""
    import shutil
    import tempfile
    st = ctx.stream("oracle.handler.entries", "oracle")
    tmpdir = tempfile.mkdtemp(prefix="c10entries_")
    try:
        texts = ["\u20ac", "\u017f", "a\u20ac\u20ac<", "\u4e16\U0001f600"] + [chr(c) for c in cps[:: max(1, len(cps) // (300 if ctx.quick else 3000))] if c >= 0x80] \
            + [s for s in rnd[:200] if "${" not in s]
        names = None
        for cs in CHARSETS:
            try:
                names = list(entry_renderers(cs, tmpdir))
            except Exception as e:
                rep.report("htmlentityreplace-raises:%s@setup" % type(e).__name__, {"input": cs, "charset": cs, "filter": "htmlentityreplace",
                                                                                    "via": "entry", "entry": "setup"}, str(e), "oracle.handler.entries")
                continue
            for entry in names:
                for s in texts:
                    st["cases"] += 1
                    bad = check_entry(cs, entry, s, tmpdir)
                    if bad:
                        site, detail = bad
                        rep.report(site, {"input": s, "charset": cs, "filter": "htmlentityreplace", "via": "entry", "entry": entry}, detail,
                                   "oracle.handler.entries",
                                   lambda t_, cs=cs, entry=entry, site=site: (check_entry(cs, entry, t_, tmpdir) or ("",))[0] == site)
                ctx.branch("entries:%s" % entry, len(texts))
    finally:
        shutil.rmtree(tmpdir, ignore_errors=True)


DECODE_WAYS = ["call", "filter", "filter-n", "default_filters"]


def decode_way(F, way):
    """x -> text, through one of the ways generated code reaches decode.utf8"""
    from mako.template import Template
    if way == "call":
        return lambda x: F.decode.utf8(x)
    src, kw = {"filter": ("${x | decode.utf8}", {}), "filter-n": ("${x | n, decode.utf8}", {}),
               "default_filters": ("${x}", {"default_filters": ["decode.utf8"]})}[way]
    t = Template(src, **kw)
    return lambda x: t.render(x=x)


def check_decode_objects(F, way, seq):
    """`seq`: value names, or ["mut", text] = the one mutable object of this run printing `text` now.  Each must come
    out as str(x) taken at the time of the call.  -> None | (site, detail)"""
    with fresh_decode(F):
        return check_decode_objects_(F, way, seq)


def check_decode_objects_(F, way, seq):
    try:
        f = decode_way(F, way)
    except Exception as e:
        return "decode-object-raises:" + type(e).__name__, "setting up %s raised %s: %s" % (way, type(e).__name__, e)
    mut = MutObj()
    for i, item in enumerate(seq):
        if isinstance(item, str):
            x = make_value(item)
        else:
            x = mut
            mut.s = item[1]
        want = str(x)
        try:
            got = f(x)
        except Exception as e:
            return ("decode-object-raises:" + type(e).__name__,
                    "decode.utf8 via %s raised %s: %s on item #%d = %r" % (way, type(e).__name__, e, i, item))
        if not isinstance(got, str) or str(got) != want:
            return "decode-object", "decode.utf8 via %s returned %r for item #%d = %r, str(x) at that time is %r" % (way, got, i, item, want)
    return None


def oracle_decode_objects(ctx, rep, F):
    """non-str, non-bytes arguments: unhashable containers, buffer types, equal-but-differently-printing values in a row,
    an object whose str() changes between calls - explicit call, `| decode.utf8`, `| n, decode.utf8`, default_filters"""
    from harness.common import ddmin
    st = ctx.stream("oracle.decode.objects", "oracle")
    seqs = [list(r) for r in VALUE_RUNS] + [[v] for v in VALUE_NAMES] + [[v, v] for v in VALUE_NAMES]
    seqs += [[["mut", "first"], ["mut", "second"]], [["mut", "a"], "1", ["mut", "b"], ["mut", "a"]],
             ["True", ["mut", "x"], "1.0", ["mut", "y"]]]
    for _ in range(300 if ctx.quick else 3000):
        seqs.append([ctx.rng.choice(VALUE_NAMES) if ctx.rng.random() < 0.8 else ["mut", ctx.rng.choice("abc")]
                     for _ in range(ctx.rng.randint(2, 6))])
    for way in DECODE_WAYS:
        for seq in seqs:
            st["cases"] += 1
            bad = check_decode_objects(F, way, seq)
            if bad:
                site = bad[0]
                small = ddmin(seq, lambda sub: bool(sub) and (check_decode_objects(F, way, sub) or ("", ""))[0] == site, 200)
                b2 = check_decode_objects(F, way, small) or bad
                if rep.seen.get(b2[0], 0) < 2:
                    case = {"input": json.dumps(small), "values": small, "way": way, "filter": "decode", "via": "objects"}
                    if not reproduces_fresh(case):      # the verdict depended on state outside this run of calls
                        case = {"input": json.dumps(seq), "values": seq, "way": way, "filter": "decode", "via": "objects"}
                    rep.report(b2[0], case, b2[1], "oracle.decode.objects")
                else:
                    rep.seen[b2[0]] += 1
            ctx.branch("decode:objects:" + way)
    # buffer objects whose str() carries an address: compared on the same object
    for way in DECODE_WAYS:
        st["cases"] += 1
        try:
            x = memoryview(b"ab")
            got = decode_way(F, way)(x)
            if got != str(x):
                rep.report("decode-object", {"input": "memoryview(b'ab')", "way": way, "filter": "decode", "via": "memoryview"},
                           "returned %r, str(x) is %r" % (got, str(x)), "oracle.decode.objects")
        except Exception as e:
            rep.report("decode-object-raises:" + type(e).__name__, {"input": "memoryview(b'ab')", "way": way, "filter": "decode",
                                                                    "via": "memoryview"}, "%s: %s" % (type(e).__name__, e),
                       "oracle.decode.objects")


def oracle(ctx, impl, cps, shorts, rnd, dense, sites_in):
    """Every call into the implementation is guarded: an exception escaping from mako is a finding
    (site `<site>-raises:<Class>`, shrunk input), never a crash of the oracle.  Sections are independent: a defect of
    the harness itself in one section is recorded as a broken tie and the other sections still run."""
    rep = Reporter(ctx)
    F = impl.filters
    texts = [chr(c) for c in cps] + shorts + dense + rnd
    single = len(cps)
    full = not ctx.quick
    ctx.log("oracle: %d texts (%d single code points, %d short, %d dense up to %d chars, %d random)"
            % (len(texts), single, len(shorts), len(dense), max(map(len, dense)), len(rnd)))

    def guarded(f, check, s):
        """-> None | (site suffix, detail)"""
        try:
            out = f(s)
        except Exception as e:
            return "-raises:" + type(e).__name__, "raised %s: %s" % (type(e).__name__, e)
        bad = check(out, s)
        return ("", bad) if bad else None

    def run_one(stream, site, f, check, s, case_extra=None, shrink=True):
        r = guarded(f, check, s)
        if r:
            suffix, detail = r

            def still(t):
                r2 = guarded(f, check, t)
                return r2 is not None and r2[0] == suffix
            case = {"input": s, "filter": stream.split(".")[-1]}
            case.update(case_extra or {})
            rep.report(site + suffix, case, detail, stream, still if shrink else None)

    def sweep(stream, site, f, check, exhaustive):
        st = ctx.stream(stream, "oracle", exhaustive)
        for s in texts:
            run_one(stream, site, f, check, s)
        st["cases"] += len(texts)

    def sec_filters():
        sweep("oracle.markup.x", "x-markup", F.xml_escape, check_markup, full)
        sweep("oracle.markup.h", "h-markup", lambda s: str(F.html_escape(s)), check_markup, full)
        sweep("oracle.url.u", "u-url", F.url_escape, check_url, full)
        sweep("oracle.entity", "entity-exact", F.html_entities_escape,
              lambda out, s: check_entity(out, s, F.html_entities_unescape), full)
        sweep("oracle.trim", "trim-edges", F.trim, check_trim, full)
        st = ctx.stream("oracle.trim.edges", "oracle", full)      # the character at the edges
        for c in cps:
            ch = chr(c)
            run_one("oracle.trim.edges", "trim-edges", F.trim, check_trim, ch + "a" + ch + " b" + ch, {"filter": "trim"})
        st["cases"] += len(cps)

    def sec_decode_values():
        st = ctx.stream("oracle.decode", "oracle")
        for s in (shorts[:3000] + rnd[:3000]):
            for encname in ("utf8", "utf_16", "latin1"):
                name = "decode." + encname

                def dcall(x, encname=encname):
                    return getattr(F.decode, encname)(x)
                run_one("oracle.decode", "decode-str", dcall,
                        lambda out, s_: None if (type(out) is str and out == s_) else "decode(str) is not the str", s, {"filter": name})
                try:
                    b = s.encode(encname)
                except UnicodeEncodeError:
                    b = None
                if b is not None:
                    run_one("oracle.decode", "decode-bytes", lambda s_, b=b: dcall(b),
                            lambda out, s_: None if (type(out) is str and out == s_) else "decode(bytes) is not the decoded text", s,
                            {"filter": name}, shrink=False)
                for mk in (StrObj, impl.markupsafe.Markup):
                    run_one("oracle.decode", "decode-object", lambda s_, mk=mk: dcall(mk(s_)),
                            lambda out, s_: None if (isinstance(out, str) and str(out) == s_) else "decode(object) is not str(object)", s,
                            {"filter": name})
                st["cases"] += 4

    def sec_handler():
        st = ctx.stream("oracle.handler", "oracle", full)
        enc_f = lambda s, cs: s.encode(cs, "htmlentityreplace")
        doc = ("The cost was \u20ac12.", "latin1")        # the documented example first
        for s, cs in [doc, ("\u20ac", "latin-1")] + list(handler_cases(ctx, cps, rnd)):
            st["cases"] += 1
            bad = check_handler(s, cs, enc_f)
            if bad:
                site, detail = bad
                if len(s) == 4 and s[0] == "a" and s[3] == "<" and s[1] == s[2]:
                    s = s[1]     # the per-code-point text 'a'+c+c+'<': the single character is the minimal input
                    if check_handler(s, cs, enc_f) is None:
                        s = s + s
                rep.report(site, {"input": s, "charset": cs, "filter": "htmlentityreplace"}, detail, "oracle.handler",
                           lambda t, cs=cs: check_handler(t, cs, enc_f) is not None)
        named = sum(1 for c in cps if c >= 128 and c in html.entities.codepoint2name)
        ctx.branch("handler:codepoints-with-named-entity", named)
        ctx.branch("handler:codepoints-numeric-reference", sum(1 for c in cps if c >= 128) - named)

    def sec_render():
        # through real templates (DEFAULT_ESCAPES names, FastEncodingBuffer)
        from mako.template import Template
        st = ctx.stream("oracle.render", "oracle")
        specs = {
            "x": ("${v | x}", check_markup, "x-markup"),
            "h": ("${v | h}", check_markup, "h-markup"),
            "u": ("${v | u}", check_url, "u-url"),
            "entity": ("${v | entity}", lambda out, s: check_entity(out, s, F.html_entities_unescape), "entity-exact"),
            "trim": ("${v | trim}", check_trim, "trim-edges"),
            "decode": ("${v | n,decode.utf8}", lambda out, s: None if out == s else "decode.utf8 changed a str", "decode-str"),
        }
        sub = [chr(c) for c in cps[:: max(1, len(cps) // 3000)]] + shorts[:: 5] + rnd[:2000] + dense[:: 9]
        for name, (src, check, site) in specs.items():
            try:
                t = Template(src)
            except Exception as e:
                rep.report(site + "-raises:" + type(e).__name__, {"input": src, "filter": name, "via": "template"},
                           "compiling %r raised %s: %s" % (src, type(e).__name__, e), "oracle.render")
                continue
            for s in sub:
                st["cases"] += 1
                run_one("oracle.render", site, lambda s_, t=t: t.render(v=s_), check, s, {"filter": name, "via": "template"})
        for cs in CHARSETS:
            try:
                t = Template("${v}", output_encoding=cs, encoding_errors="htmlentityreplace")
            except Exception as e:
                rep.report("htmlentityreplace-raises:" + type(e).__name__, {"input": cs, "charset": cs, "filter": "htmlentityreplace",
                                                                            "via": "template"}, str(e), "oracle.render")
                continue
            render = lambda s, cs_, t=t: t.render(v=s)
            for s in sub[:: 2]:
                st["cases"] += 1
                bad = check_handler(s, cs, render)
                if bad:
                    site, detail = bad
                    rep.report(site, {"input": s, "charset": cs, "filter": "htmlentityreplace", "via": "template"}, detail,
                               "oracle.render", lambda t_, cs=cs, render=render: check_handler(t_, cs, render) is not None)

    def sec_samples():
        ctx.sample({"stream": "oracle.markup.x", "input": "<a href=\"x\">'&'</a>", "output": F.xml_escape("<a href=\"x\">'&'</a>")})
        ctx.sample({"stream": "oracle.url.u", "input": "a b/\u00e9", "output": F.url_escape("a b/\u00e9")})
        ctx.sample({"stream": "oracle.handler", "input": "\u20ac", "charset": "latin-1",
                    "output": repr("\u20ac".encode("latin-1", "htmlentityreplace"))})

    sections = [("filters", sec_filters), ("decode-values", sec_decode_values),
                ("decode-objects", lambda: oracle_decode_objects(ctx, rep, F)),
                ("decode-state", lambda: oracle_decode_state(ctx, rep, F)),
                ("sites", lambda: oracle_sites(ctx, rep, F, sites_in)),
                ("exprconfig", lambda: oracle_exprconfig(ctx, rep, F, sites_in)),
                ("entries", lambda: oracle_entries(ctx, rep, cps, rnd)),
                ("handler", sec_handler), ("render", sec_render), ("samples", sec_samples)]
    for name, sec in sections:
        try:
            sec()
        except Exception:
            ctx.broke("oracle:harness-exception:" + name, traceback.format_exc())
            ctx.log("oracle section %s crashed (recorded as a broken tie; the other sections still run)" % name)
    rep.finish()


def run(ctx):
    run_streams(ctx)


def start_oracle_child(ctx, cps, shorts, rnd, dense, sites_in):
    """run the oracle streams in a forked child while the correspondence streams talk to the Lean driver (the two
    are independent by construction: the oracle uses neither Lean nor ctx.rng).  Returns (process, pipe) or None."""
    try:
        import multiprocessing as mp
        mpx = mp.get_context("fork")
        rx, tx = mpx.Pipe(duplex=False)

        def child():
            c = type(ctx)(ctx.pid, ctx.tier, ctx.seed)
            c.t0 = ctx.t0
            err = None
            try:
                oracle(c, Impl(), cps, shorts, rnd, dense, sites_in)
            except BaseException:
                err = traceback.format_exc()
            tx.send({"err": err, "violations": c.violations, "streams": c.streams, "branches": c.branches,
                     "samples": c.samples, "logs": c.logs})
            tx.close()
        p = mpx.Process(target=child, daemon=True)
        p.start()
        tx.close()
        return p, rx
    except Exception as e:      # no fork available: the oracle runs in-process afterwards
        ctx.log("oracle child not started (%r); running in-process" % (e,))
        return None


def join_oracle_child(ctx, job):
    """merge the child's findings; False if it did not deliver (the caller then runs the oracle in-process)"""
    p, rx = job
    try:
        res = rx.recv() if rx.poll(3000) else None
    except (EOFError, OSError):
        res = None
    p.join(10)
    if res is None:
        ctx.log("oracle child died without a result; running the oracle in-process")
        return False
    ctx.logs.extend(res["logs"])
    ctx.violations.extend(res["violations"])
    for k, v in res["streams"].items():
        if k in ctx.streams:
            ctx.streams[k]["cases"] += v["cases"]
            ctx.streams[k]["disagreements"] += v["disagreements"]
        else:
            ctx.streams[k] = v
    for k, v in res["branches"].items():
        ctx.branch(k, v)
    for s in res["samples"]:
        ctx.sample(s)
    if res["err"]:
        ctx.broke("oracle:harness-exception", res["err"])
    return True


def run_streams(ctx):
    impl = Impl()
    cps = codepoints(ctx)
    shorts = list(short_strings(TOKENS, 3 if ctx.quick else 4))
    rnd = [random_string(ctx.rng) for _ in range(8000 if ctx.quick else 120000)]
    ctx.log("C10: %d code points, %d short strings, %d random strings" % (len(cps), len(shorts), len(rnd)))
    dense = dense_strings(ctx)
    sites_in = site_inputs(ctx)
    job = start_oracle_child(ctx, cps, shorts, rnd, dense, sites_in)
    try:
        corr(ctx, impl, cps, shorts, rnd, dense)
        corr_spec(ctx, impl, shorts, rnd)
        corr_handler(ctx, impl, handler_cases(ctx, cps, rnd))
        corr_sites(ctx, impl, sites_in)
        corr_exprconfig(ctx, impl, sites_in)
    finally:
        if job is None or not join_oracle_child(ctx, job):
            oracle(ctx, impl, cps, shorts, rnd, dense, sites_in)


# --------------------------------------------------------------------------- replay

def replay(ctx, data):
    """re-run the recorded case on the implementation (oracle) and on the model; True iff the property holds"""
    case = data.get("case")
    if case is None:
        dis = data.get("first_disagreements") or []
        case = dis[0]["case"] if dis else None
    print("replaying", case)
    if not isinstance(case, dict) or "input" not in case:
        print("nothing to replay (no input recorded); broken ties:", data.get("no_longer_checks"))
        return False
    impl = Impl()
    F = impl.filters
    s = case["input"]
    name = case.get("filter") or case.get("op") or "x"
    drv = None
    try:
        if os.environ.get("C10_REPLAY_NO_MODEL"):
            raise RuntimeError("skipped (C10_REPLAY_NO_MODEL)")
        drv = ctx.driver()
    except Exception as e:   # the model side is optional for a replay
        print("model not available:", e)
    def model(op, arg):
        if drv is None:
            return None
        return drv.ask("filt %s %s" % (op, arg))
    if case.get("via") == "entry":
        import shutil
        import tempfile
        d = tempfile.mkdtemp(prefix="c10entries_")
        try:
            r = check_entry(case["charset"], case["entry"], s, d)
            try:
                print("implementation: %s under %s on %r -> %r" % (case["entry"], case["charset"], s,
                                                                   entry_renderers(case["charset"], d)[case["entry"]][0](s)))
            except Exception as e:
                print("implementation: %s under %s on %r raised %s: %s" % (case["entry"], case["charset"], s, type(e).__name__, e))
        finally:
            shutil.rmtree(d, ignore_errors=True)
        print("oracle        :", r or "holds")
        return r is None
    if name == "htmlentityreplace" or "charset" in case:
        cs = case.get("charset", "ascii")
        try:
            out = s.encode(cs, "htmlentityreplace")
        except UnicodeError as e:
            out = e
        print("implementation: %r.encode(%r, 'htmlentityreplace') = %r" % (s, cs, out))
        bad = "".join(sorted({c for c in s if not encodable(c, cs)}))
        m = model("handler", "%d %s %s" % (1 if GROUPED.get(cs, True) else 0, enc(bad), enc(s)))
        if m is not None:
            print("model         : %r" % (dec(m) if m != "none" else None))
        r = check_handler(s, cs, lambda t, c: t.encode(c, "htmlentityreplace"))
        print("oracle        :", r or "holds")
        return r is None
    table = {
        "x": (F.xml_escape, check_markup, "x"), "h": (lambda t: str(F.html_escape(t)), check_markup, "h"),
        "u": (F.url_escape, check_url, "u"),
        "entity": (F.html_entities_escape, lambda o, t: check_entity(o, t, F.html_entities_unescape), "entity"),
        "trim": (F.trim, check_trim, "trim"),
        "xee": (impl.xee, lambda o, t: None, "xee"),
        "unescape": (impl.unescape, lambda o, t: None, "unescape"),
    }
    if name == "decode" and case.get("via") == "sequence":
        ops = case["ops"]
        print("implementation:", run_ops_impl(F, ops))
        print("reference     :", run_ops_ref(ops))
        m = None if drv is None else drv.ask(ops_request(ops))
        if m is not None:
            print("model         :", [x if x in ("none", "badindex") else dec(x) for x in m.split(" ")])
        r = check_decode_ops(F, ops)
        print("oracle        :", r or "holds")
        return r is None
    if case.get("via") == "exprconfig":
        a = (case["form"], case["default_filters"], case["page"], case["own"])
        r = check_exprconfig(F, *a, s)
        try:
            print("implementation: default_filters=%s, <%%page expression_filter=%r>, ${v%s} in %s on %r renders %r"
                  % (case["default_filters"], case["page"], " | " + case["own"] if case["own"] else "", case["form"], s, cfg_render(*a, s)))
        except Exception as e:
            print("implementation: raised", type(e).__name__, e)
        print("effective chain (documented rule):", effective_chain(case["own"], case["page"], CFG_DEFAULTS[case["default_filters"]]))
        print("oracle        :", r or "holds")
        return r is None
    if case.get("via") == "site":
        r = check_site(F, case["form"], case["mode"], name, s)
        try:
            print("implementation: filter %s at %s[%s] on %r renders %r" % (
                name, case["form"], case["mode"], s,
                [site_text_filter(name, s)] if case["form"] == "text" else site_render_twice(case["form"], case["mode"], name, s)))
        except Exception as e:
            print("implementation: raised", type(e).__name__, e)
        if drv is not None and case["form"] in ("def", "block", "nested-def", "call", "ns-def") and name in ("x", "h", "u", "entity", "trim"):
            m = case["mode"]
            body = SITE_FORMS[case["form"]][2](s)
            o = drv.ask("filt site %d 1 %d %s id %s" % ("buffered" in m, "cached" in m, name, enc(body)))
            print("model         : %r" % [dec(x) for x in o.split(" ")])
        print("oracle        :", r or "holds")
        return r is None
    if name == "decode" and case.get("via") == "objects":
        r = check_decode_objects(F, case["way"], case["values"])
        print("implementation: decode.utf8 via %s on %r" % (case["way"], case["values"]))
        print("oracle        :", r or "holds")
        return r is None
    if name == "decode" and case.get("via") == "memoryview":
        try:
            x = memoryview(b"ab")
            ok = decode_way(F, case["way"])(x) == str(x)
        except Exception as e:
            print("raised", type(e).__name__, e)
            ok = False
        return ok
    if name == "decode" and case.get("via") == "nested-render":
        r = check_decode_nested(case["e1"], case["e2"], case["bytes1"], case["bytes2"])
        print("oracle        :", r or "holds")
        return r is None
    if name == "decode" and case.get("via") == "threads":
        r = check_decode_threads(F, case["e1"], case["e2"], case["bytes1"])
        print("oracle        :", r or "holds")
        return r is None
    if name.startswith("decode"):
        r = F.decode.utf8(s)
        print("implementation: decode.utf8(%r) = %r" % (s, r))
        return type(r) is str and r == s
    f, check, op = table.get(name, table["x"])
    try:
        out = f(s)
        bad = check(out, s)
    except Exception as e:
        out, bad = e, "raised %s" % type(e).__name__
    print("implementation: %s(%r) = %r" % (name, s, out))
    m = model(op, enc(s))
    if m is not None:
        print("model         : %r" % (m if op == "unescape" else dec(m)))
    print("oracle        :", bad or "holds")
    return bad is None


DRIVER_OPS = ["filt"]   # per-area driver executable(s) this check talks to (built before any worker is forked)
