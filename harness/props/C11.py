"""C11 - compile-time errors name the template and the line of the fault.

corr  : every planted fault is compiled by the real mako (string path, probe lexer, recorded pyparser.parse calls) and
        predicted by the Lean model `ErrPos` on top of the lexer model (driver op `errpos`):
          * Python faults: the node is the i-th node of the lexer model (i = number of nodes the real lexer had appended),
            the constructor string comes from that token (expression / filter list / block / control line) or from the
            generator's raw attribute text; the model answers exception class, lineno, pos, the lineno_offset and the
            exact string handed to CPython's parser - all compared; the blamed line k is read from the real
            SyntaxError (`__cause__`) and fed to the model;
          * the model's *specification* `trueLine` must give the generator's ground-truth line (ties the Lean
            statement to the oracle);
          * lexer-level structural faults: kind, lineno, pos of `errpos struct`; the model's `faultStart` must be the
            generator's construct offset;
          * node-level structural faults (parsetree constructors, codegen._Identifiers): class + the token's coordinates;
          * faults that only the generated module's compilation finds: the model predicts no Mako-level error.
oracle: no Lean.  Ground truth from the generator (line of the offending Python line / line+column where the offending
        construct begins); exception class, lineno, pos, filename, source on four construction paths (string, file,
        fresh lookup, module directory) and three reload paths (a lookup that has already served a good version of the
        file re-compiles the edited file through _check -> _load: get_template, with a module directory, through a
        parent's <%include>), identical fields across paths; RichTraceback(error).lineno/source,
        text_error_template() and html_error_template() output, format_exceptions=True output; a faulty template B
        pulled in by a healthy A (<%include>, <%inherit>, <%namespace file>) through a lookup is displayed at B's line.

always-run witnesses (`witness_cases`, both tiers, before the generated streams; every witness goes through ALL seven
construction paths, the display oracle and a pulled-in scenario - nothing about them is sampled).  Every kind of oracle
assertion has at least one witness that exercises it, so that trimming the generated plan never removes a detector:
  ground-truth line/column, exception class ........ every witness (Python faults in expr / filter / block / control line /
                                                      attribute, 12 structural and node-level classes, module-level faults)
  filename, source per path, equality across paths . every witness x {string, file, lookup, moddir, reload, reload-moddir,
                                                      reload-include}
  RichTraceback.lineno/source, text_error_template,
  html_error_template (highlighted line + heading) .. every witness that raises a Mako exception, on the string path
                                                      (direct) and on the lookup path (pulled in); in particular the
                                                      LINE_LIKE witnesses: FF, VT, FS, GS, RS, NEL, U+2028, U+2029 and a
                                                      lone CR in the text above the fault, two fault classes each - the
                                                      displayed line must be the line the exception counts
  format_exceptions page, pulled-in fields ......... every such witness, cycling <%include> / <%inherit> / <%namespace file>
  recorded findings (F7, F8, F8b, F13) .............. their own witnesses (reported as KNOWN-FINDING)
"""
from __future__ import annotations

import html as _html
import os
import re
import shutil
import sys
import tempfile

from harness.common import enc, dec, ddmin
from harness import c11_gen as G

RULE = ("well-formed templates from a grammar-directed generator (text runs incl. Unicode and stray % # $ < \\, "
        "${} single/multi-line with leading/trailing blank lines and filter lists on the same or later lines - single-line, "
        "multi-line calls, several filters on several lines (column 1: the list is parsed as statements), short first "
        "filter line, closing brace after long indentation on its own line -, % control "
        "blocks if/elif/else, for/else, while, try/except, with - indented, with backslash continuations, trailing "
        "comments -, <% %>/<%! %> blocks inline and multi-line at any margin with leading blank lines, comments, "
        "triple-quoted strings and long trailing whitespace, def/block/call/page/include/namespace/inherit/text tags "
        "single- and multi-line with attribute values spanning lines, ## and <%doc> comments; LF or CRLF; leading blank "
        "lines) into which exactly ONE fault is planted at every candidate site: a Python syntax error at every binary "
        "operator of every code line of every construct (10 construct kinds), 30 structural fault classes (one or more per raise site of SyntaxException / CompileException in lexer, "
        "parsetree, codegen, pyparser, ast - the site table is regenerated and checked against the generator) and 6 classes of "
        "faults that only the compilation of the generated module finds, at every "
        "tag / control block / line gap; a case is distinct by (source text, fault); non-trivial = the fault is not on "
        "line 1 column 1")
ASSUMPTIONS = [
    "which line CPython's parser blames (exc.lineno = k) is an input of the model, read from the real SyntaxError; the "
    "planted Python fault `+ =` is blamed on the line it is on (checked on every case: k = ground-truth code line)",
    "a template line ends at '\\n' (mako's lexer counts '\\n'); a lone '\\r' inside embedded Python, which CPython's "
    "tokenizer treats as a line end, is not generated",
    "a control line construct (`% …`) begins at the start of its line (the lexer's regex includes the indentation), so "
    "its column is 1",
    "a template given as a string has no file name: filename None is accepted on the string path",
    "Python nested deeper than mako's identifier visitors can recurse (a `+` chain of 700 operands at the default "
    "recursion limit of 1000, which the check sets for its run) is reported where the construct begins - the "
    "SyntaxException of pyparser.visit carries the node's coordinates and no line of its own",
    "`from m import *` in a block is not a syntax error but an unsupported construct: its ground truth is where the "
    "block begins (the coordinates every constructor-level fault carries), not the line of the import statement",
    "reload paths: the edited file gets an mtime 60 s in the future (os.utime), so that the lookup's whole-second "
    "comparison `_modified_time >= mtime` certainly sees it as newer; the good first version is rendered once "
    "directly and once through the including parent before the edit",
    "a filter on a continuation line of a multi-line filter list starts in column 1 (ArgumentList parses the list "
    "as Python statements; an indented continuation outside brackets is not a well-formed template)",
]
TRUSTED_EXTRA = [
    "C11: tools/regen_errpos.py (handler types of TemplateLookup._check that convert into TemplateLookupException; "
    "whether the handler around Template(...) in _load ends with a bare raise) -> Generated/ErrPos.lean",
    "C11: the probe lexer (subclass of mako.lexer.Lexer counting append_node calls) and the recording wrapper around "
    "mako.pyparser.parse in harness/props/C11.py",
    "C11: harness/c11_gen.py (ground truth = offsets in the mutated text; line/column recomputed from the text)",
    "C11: pygments' HTML formatter output shape (class 'error syntax-highlighted', span.normal = line number) when "
    "pygments is installed",
]
REGEN = ["Unicode", "LexerCfg", "ErrPos"]   # ErrPos: handlers of TemplateLookup._check + every raise site of a compile-time exception
DRIVER_OPS = ["errpos"]

LEXER_CLASSES = {
    "unterminated-expr": "expected", "unterminated-filter": "expected", "unterminated-block": "expected",
    "unclosed-tag": "unclosed-tag", "unclosed-text-tag": "unclosed-tag",
    "closing-without-opening": "closing-without-opening", "closing-mismatch": "closing-mismatch",
    "invalid-control-line": "invalid-control-line", "no-starting-keyword": "no-starting-keyword",
    "keyword-mismatch": "keyword-mismatch", "illegal-ternary": "illegal-ternary",
    "unterminated-control": "unterminated-control",
}
CODEGEN_CLASSES = {"duplicate-block", "named-block-in-def", "named-block-in-call", "anon-block-in-namespace"}
# generator class -> the class name the model's raise-site table uses (several generator classes share one raise site)
SITE_GROUP = {"unterminated-expr": "unterminated-construct", "unterminated-filter": "unterminated-construct",
              "unterminated-block": "unterminated-construct", "named-block-in-def": "named-block-in-def-or-call",
              "named-block-in-call": "named-block-in-def-or-call"}
ATTR_LABELS = ("sigdef", "sigargs", "attrexpr", "callexpr", "dummyargs", "arglist")
SYNTAX_EXC_CLASSES = {"python", "unterminated-expr", "unterminated-filter", "unterminated-block", "unclosed-tag",
                      "unclosed-text-tag", "closing-without-opening", "closing-mismatch", "invalid-control-line",
                      "no-starting-keyword", "keyword-mismatch", "illegal-ternary", "unterminated-control", "deep-nesting"}
# (deep nesting in the default values of args="…" of block / page / call is not analysed by any identifier visitor; it
# reaches FunctionDecl.get_argument_expressions' re-emission during code generation, which converts the RecursionError
# itself since /repo ad93474 - so every label of the deep-nesting class is predicted alike)

# --------------------------------------------------------------------------------------------- the implementation


class Impl:
    def __init__(self):
        import mako.template
        import mako.lookup
        import mako.exceptions
        import mako.pyparser
        import mako.lexer
        import mako.filters
        self.filters = mako.filters
        self.template = mako.template
        self.lookup = mako.lookup
        self.exc = mako.exceptions
        self.pyparser = mako.pyparser
        self.calls = []
        impl = self

        class Probe(mako.lexer.Lexer):
            def append_node(self, nodecls, *args, **kwargs):
                impl.nodes += 1
                return super().append_node(nodecls, *args, **kwargs)
        self.Probe = Probe
        self.nodes = 0
        self.tmp = tempfile.mkdtemp(prefix="c11_")
        self.counter = 0

    def close(self):
        shutil.rmtree(self.tmp, ignore_errors=True)

    def is_mako_compile_error(self, e):
        return isinstance(e, (self.exc.SyntaxException, self.exc.CompileException))

    # -- string path with probes --------------------------------------------------------------
    def observe(self, src):
        """compile `src` from a string with the probe lexer and the recorded parser calls"""
        orig = self.pyparser.parse
        calls = []

        def rec(code, mode="exec", lineno_offset=0, **kw):
            calls.append((code, lineno_offset, kw.get("lineno")))
            return orig(code, mode, lineno_offset=lineno_offset, **kw)
        self.pyparser.parse = rec
        self.nodes = 0
        try:
            try:
                self.template.Template(src, lexer_cls=self.Probe)
                return {"outcome": "ok"}
            except Exception as e:
                return self.describe(e, calls, self.nodes)
        finally:
            self.pyparser.parse = orig

    def describe(self, e, calls=None, nodes=None):
        import traceback
        tb = traceback.extract_tb(e.__traceback__)
        inner = tb[-1].filename if tb else ""
        cause = e.__cause__
        d = {"outcome": "error", "cls": type(e).__module__.split(".")[-1] + "." + type(e).__name__, "exc": e,
             "mako": self.is_mako_compile_error(e),
             "lineno": getattr(e, "lineno", None), "pos": getattr(e, "pos", None),
             "filename": getattr(e, "filename", None), "source": getattr(e, "source", None), "msg": str(e),
             "raised_in": os.path.basename(inner), "raised_fn": tb[-1].name if tb else "", "k": getattr(cause, "lineno", None) if cause is not None else None,
             "cause": type(cause).__name__ if cause is not None else None,
             "last_call": calls[-1] if calls else None, "ncalls": len(calls) if calls is not None else None,
             "nodes": nodes}
        return d

    # -- the four construction paths -----------------------------------------------------------
    def write(self, src, sub=None):
        self.counter += 1
        d = os.path.join(self.tmp, "d%d" % self.counter)
        os.makedirs(d)
        path = os.path.join(d, "t.html")
        with open(path, "wb") as f:
            f.write(src.encode("utf-8"))
        return d, path

    def construct(self, path_kind, src):
        """-> (description dict, expected filename)"""
        try:
            if path_kind == "string":
                fn = None
                self.template.Template(src)
            elif path_kind == "file":
                d, fn = self.write(src)
                self.template.Template(filename=fn)
            elif path_kind == "lookup":
                d, fn = self.write(src)
                self.lookup.TemplateLookup(directories=[d]).get_template("t.html")
            elif path_kind == "moddir":
                d, fn = self.write(src)
                md = os.path.join(d, "modules")
                self.lookup.TemplateLookup(directories=[d], module_directory=md).get_template("/t.html")
            elif path_kind in ("reload", "reload-moddir", "reload-include"):
                return self.construct_reload(path_kind, src)
            else:
                raise ValueError(path_kind)
            return {"outcome": "ok"}, fn
        except Exception as e:
            return self.describe(e), fn


    GOOD = "good version ${1 + 1}\n"

    def construct_reload(self, path_kind, src):
        """a lookup (filesystem checks on) that has already served a good version of the file; the file is then
        replaced by the faulty text with a newer mtime; the next get_template (or the <%include> of a parent that
        has been rendered before) re-compiles it through TemplateLookup._check -> _load"""
        import time
        d, fn = self.write(self.GOOD)
        with open(os.path.join(d, "parent.html"), "wb") as f:
            f.write(b"parent\n<%include file='t.html'/>\nend\n")
        kw = {}
        if path_kind == "reload-moddir":
            kw["module_directory"] = os.path.join(d, "modules")
        lk = self.lookup.TemplateLookup(directories=[d], **kw)
        first = lk.get_template("t.html").render_unicode()
        parent = lk.get_template("parent.html")
        assert "good version 2" in first and "good version 2" in parent.render_unicode()
        with open(fn, "wb") as f:
            f.write(src.encode("utf-8"))
        later = int(time.time()) + 60
        os.utime(fn, (later, later))
        try:
            if path_kind == "reload-include":
                parent.render_unicode()
            else:
                lk.get_template("t.html")
            return {"outcome": "ok"}, fn
        except Exception as e:
            return self.describe(e), fn


# what str.splitlines() treats as a line boundary although mako's lexer (and CompileException.lineno) counts "\n" only
LINE_LIKE = ["\x0c", "\x0b", "\x1c", "\x1d", "\x1e", "\x85", "\u2028", "\u2029", "\r"]

PATHS = ["string", "file", "lookup", "moddir", "reload", "reload-moddir", "reload-include"]

# --------------------------------------------------------------------------------------------- ground truth helpers


def fault_key(f):
    return {k: v for k, v in f.items() if k not in ("src",)}


def case_of(f, **extra):
    """the JSON-able case stored in violations / replays (flat keys so that `where` matchers can see them)"""
    c = {"input": f["src"], "fault": f["cls"], "label": f.get("label"), "sub": f.get("sub"),
         "truth_line": f["line"], "truth_col": f["construct"]["col"], "construct_off": f["construct"]["off"],
         "code_on_first_line": f.get("code_on_first_line"), "raw_on_first_line": f.get("raw_on_first_line"),
         "code_start": f.get("code_start"), "code_len": f.get("code_len"), "code_line": f.get("code_line"),
         "tag": f.get("tag"), "keyword": f.get("keyword")}
    if "bar" in f:
        c["bar_line"], c["bar_col"] = f["bar"]["line"], f["bar"]["col"]
    c.update(extra)
    return c


def fault_of_case(c):
    f = {"cls": c["fault"], "label": c.get("label"), "sub": c.get("sub"), "src": c["input"], "line": c["truth_line"],
         "construct": {"col": c["truth_col"], "off": c["construct_off"], "line": G.line_of(c["input"], c["construct_off"])},
         "code_on_first_line": c.get("code_on_first_line"), "raw_on_first_line": c.get("raw_on_first_line"),
         "code_start": c.get("code_start"), "code_len": c.get("code_len"), "code_line": c.get("code_line"),
         "tag": c.get("tag"), "keyword": c.get("keyword")}
    if "bar_line" in c:
        f["bar"] = {"line": c["bar_line"], "col": c["bar_col"]}
    return f


def python_guard(f):
    """does the code string start on the node's first line (the condition under which the line arithmetic of the
    attribute / filter-list constructs is right)?  Always true for expressions, blocks and control lines."""
    lab = f["label"]
    if lab == "filter":
        return bool(f["code_on_first_line"])
    if lab in ATTR_LABELS:
        return bool(f["raw_on_first_line"])
    return True


def eof_pos(src):
    return G.line_of(src, len(src)), G.col_of(src, len(src))


# --------------------------------------------------------------------------------------------- oracle on one case

def check_fields(f, d, expected_filename, path_kind):
    """the property on one (fault, construction path): -> list of (site, detail, extra case fields)"""
    out = []
    src = f["src"]
    if d["outcome"] == "ok":
        return [("no-error-raised:" + f["cls"], "the faulty template compiled without error", {})]
    if not d["mako"]:
        if f["cls"] == "module-level" and d["cls"] == "builtins.SyntaxError":
            return [("module-compile-error-escapes-as-bare-syntaxerror",
                     "%s: %s (line %s of the generated module)" % (d["cls"], d["msg"][:120], d["lineno"]),
                     {"escaped": d["cls"]})]
        if f["cls"] == "deep-nesting" and f.get("label") == "sigargs" and d["cls"] == "builtins.RecursionError":
            return [("deep-nesting-in-args-default-escapes-as-bare-recursionerror",
                     "%s: %s" % (d["cls"], d["msg"][:120]), {"escaped": d["cls"]})]
        return [("foreign-exception:" + f["cls"], "%s: %s" % (d["cls"], d["msg"][:200]), {"escaped": d["cls"]})]
    want_cls = "exceptions.SyntaxException" if f["cls"] in SYNTAX_EXC_CLASSES else "exceptions.CompileException"
    tl, tc = f["line"], f["construct"]["col"]
    if d["filename"] != expected_filename:
        out.append(("filename:" + path_kind, "filename %r, expected %r" % (d["filename"], expected_filename), {}))
    if d["source"] != src:
        out.append(("source:" + path_kind, "exception.source is not the template text", {}))
    if (d["lineno"], d["pos"]) != (tl, tc):
        detail = "reported (%s,%s), fault at (%s,%s): %s" % (d["lineno"], d["pos"], tl, tc, d["msg"][:140])
        extra = {"reported_line": d["lineno"], "reported_col": d["pos"]}
        if f["cls"] == "python":
            lab = f["label"]
            # what the reported line would be if the code string started on the node's first line
            as_if = d["pos"] == tc and d["lineno"] < tl and not python_guard(f)
            extra["as_if_on_first_line"] = bool(as_if)
            if not python_guard(f) and lab == "filter":
                site = "filter-list-on-later-line-than-expression-start"
            elif not python_guard(f):
                site = "attribute-python-on-later-line-of-tag"
            else:
                site = "python-error-line:" + lab
        elif f["cls"] == "module-level" and d["lineno"] == tl and d["pos"] == 0:
            # (what a wrapper around the module compilation can know: the template line through the line map)
            site = "module-compile-error-column-unknown"
        elif f["cls"] == "unclosed-tag":
            at_eof = (d["lineno"], d["pos"]) == eof_pos(src)
            extra["reported_at_end_of_source"] = at_eof
            site = "unclosed-tag-reported-at-end-of-source" if at_eof else "structural-position:unclosed-tag"
        elif f["cls"] == "unterminated-filter":
            at_bar = "bar" in f and (d["lineno"], d["pos"]) == (f["bar"]["line"], f["bar"]["col"])
            extra["reported_at_bar"] = bool(at_bar)
            site = "unterminated-filter-list-reports-column-of-bar" if at_bar else "structural-position:unterminated-filter"
        else:
            site = "structural-position:" + f["cls"]
        out.append((site, detail, extra))
    if d["cls"] != want_cls and f["cls"] != "module-level":
        out.append(("exception-class:" + f["cls"], "%s, expected %s" % (d["cls"], want_cls), {}))
    return out


HTML_ERR = re.compile(r'<div class="error syntax-highlighted">.*?<span class="normal">\s*(\d+)</span>.*?<td class="code">'
                      r'<div><pre>(.*?)</pre>', re.S)


def strip_tags(x):
    return _html.unescape(re.sub(r"<[^>]*>", "", x))


def check_display(impl, e, tb, where):
    """RichTraceback and the two error templates show the line the exception carries.  -> [(site, detail)]"""
    out = []
    exc = impl.exc
    line = e.lineno
    src_lines = e.source.split("\n")
    want_text = src_lines[line - 1] if 1 <= line <= len(src_lines) else None
    rt = exc.RichTraceback(error=e, traceback=tb)
    if rt.lineno != line or rt.source != e.source:
        out.append(("richtraceback-line:" + where,
                    "RichTraceback.lineno=%r (exception: %r), source is the faulty template's: %r" % (
                        rt.lineno, line, rt.source == e.source)))
    txt = exc.text_error_template().render_unicode(error=e, traceback=tb)
    last = [l for l in txt.strip().split("\n") if l.strip()][-1] if txt.strip() else ""
    m = re.search(r"at line: (\d+) char: (\d+)\s*$", last)
    ok = bool(m) and int(m.group(1)) == line and int(m.group(2)) == e.pos
    if e.filename is not None:
        ok = ok and ("in file '%s'" % e.filename) in last
    if not ok:
        out.append(("text-error-template-line:" + where, "last line %r does not name line %r char %r of %r" % (
            last[-160:], line, e.pos, e.filename)))
    page = exc.html_error_template().render_unicode(error=e, traceback=tb)
    out += check_html(impl, page, e, want_text, where, "html-error-template-line:")
    return out


def check_html(impl, page, e, want_text, where, prefix):
    out = []
    line = e.lineno
    if impl.exc.pygments_html_formatter is not None:
        m = HTML_ERR.search(page)
        if not m:
            if want_text is not None:
                out.append((prefix + where, "no highlighted source line in the error page"))
        else:
            shown_no = int(m.group(1))
            # (pygments' Mako lexer drops blanks around `=` in tags: compare modulo whitespace)
            shown = re.sub(r"\s+", "", strip_tags(m.group(2)))
            if shown_no != line or (want_text is not None and shown != re.sub(r"\s+", "", want_text)):
                out.append((prefix + where, "highlighted line %d %r, the exception names line %d %r" % (
                    shown_no, shown[:80], line, (want_text or "")[:80])))
    else:
        if want_text is not None and want_text.strip() and _html.escape(want_text.strip(), quote=True) not in page \
                and impl.filters.html_escape(want_text.strip()) not in page:
            out.append((prefix + where, "the template line is not in the error page"))
    head = re.search(r"<h3>(.*?)</h3>", page, re.S)
    if not head or ("at line: %d char: %d" % (line, e.pos)) not in strip_tags(head.group(1)):
        out.append((prefix + where, "the heading does not name line %d char %d" % (line, e.pos)))
    return out


PULLS = {
    "include": "first line\nsecond ${1 + 1}\n  <%%include file='%s'/>\nlast line\n",
    "inherit": "## healthy child\n\n<%%inherit file='%s'/>\nchild body\n",
    "namespace": "one\n<%%namespace name='nsb' file='%s'/>\ntwo\n${nsb.anything()}\n",
}


def check_pulled_in(impl, f, how):
    """healthy A pulls in faulty B through a lookup: the error must be displayed at B's faulty line"""
    out = []
    d = tempfile.mkdtemp(prefix="pull_", dir=impl.tmp)
    bname = "b.html"
    with open(os.path.join(d, bname), "wb") as fh:
        fh.write(f["src"].encode("utf-8"))
    with open(os.path.join(d, "a.html"), "wb") as fh:
        fh.write((PULLS[how] % ("/" + bname)).encode("utf-8"))
    bpath = os.path.join(d, bname)
    lk = impl.lookup.TemplateLookup(directories=[d])
    a = lk.get_template("a.html")
    try:
        a.render_unicode()
        return [("pulled-in-no-error:" + how, "rendering A succeeded although B is faulty")]
    except Exception as e:
        tb = sys.exc_info()[2]
        if not impl.is_mako_compile_error(e):
            return [("pulled-in-foreign-exception:" + how, "%s: %s" % (type(e).__name__, str(e)[:120]))]
        if e.filename != bpath or e.source != f["src"]:
            out.append(("pulled-in-fields:" + how, "filename %r / source of B: %r" % (e.filename, e.source == f["src"])))
        out += check_display(impl, e, tb, "pulled-in-" + how)
        lineno, epos = e.lineno, e.pos
        del tb
    # format_exceptions=True: the error page is the render result
    lk2 = impl.lookup.TemplateLookup(directories=[d], format_exceptions=True)
    try:
        page = lk2.get_template("a.html").render_unicode()
    except Exception as e2:
        # (an <%inherit> target is looked up outside the part of the runtime that formats exceptions: the same
        # compile error escapes; it has been checked above)
        if not (impl.is_mako_compile_error(e2) and (e2.lineno, e2.pos, e2.filename) == (lineno, epos, bpath)):
            out.append(("format-exceptions-line:" + how, "render raised %s: %s" % (type(e2).__name__, str(e2)[:100])))
        return out
    src_lines = f["src"].split("\n")
    want_text = src_lines[lineno - 1] if 1 <= lineno <= len(src_lines) else None

    class _E:
        pass
    fake = _E()
    fake.lineno, fake.pos = lineno, epos
    out += check_html(impl, page, fake, want_text, "pulled-in-" + how, "format-exceptions-line:")
    return out


# --------------------------------------------------------------------------------------------- model requests

def model_requests(f, d):
    """requests for one observed fault.  -> list of (tag, request line)"""
    s = enc(f["src"])
    reqs = []
    cls = f["cls"]
    if cls == "python":
        lab = f["label"]
        k = d.get("k") or 0
        i = (d.get("nodes") or 1) - 1
        raw = f["src"][f["code_start"]: f["code_start"] + f["code_len"]] if lab in ATTR_LABELS else ""
        reqs.append(("node", "errpos node %s %d %s %d %s" % (s, i, lab, k, enc(raw))))
        reqs.append(("true", "errpos true %s %d %s %d %d" % (s, f["code_start"], lab, f["code_len"], k)))
        reqs.append(("tok", "errpos tok %s %d" % (s, i)))
    elif cls in LEXER_CLASSES:
        reqs.append(("struct", "errpos struct %s" % s))
    elif cls in CODEGEN_CLASSES or cls == "deep-nesting":
        reqs.append(("tokat", "errpos tokat %s %d" % (s, f["construct"]["off"])))
        reqs.append(("struct", "errpos struct %s" % s))
    elif cls == "module-level":
        reqs.append(("struct", "errpos struct %s" % s))
    else:   # raised by a node constructor
        i = (d.get("nodes") or 1) - 1
        reqs.append(("tok", "errpos tok %s %d" % (s, i)))
        if cls in ("fragment-not-partial", "unsupported-keyword"):
            reqs.append(("node", "errpos node %s %d ctl 1 -" % (s, i)))
    return reqs


_SITES = None


def raise_sites(ctx):
    """the regenerated raise sites with the class the model assigns: [(file, function, prefix, coords, class, regex)]"""
    global _SITES
    if _SITES is None:
        resp = ctx.driver().ask("errpos sites")
        out = []
        for item in resp.split(" "):
            f = [dec(x) for x in item.split(";")]
            # the message prefix is a %-format: turn it into a regex on the formatted message
            rx = ""
            i = 0
            pre = f[2]
            while i < len(pre):
                if pre[i] == "%" and i + 1 < len(pre):
                    rx += "%" if pre[i + 1] == "%" else ".*?"
                    i += 2
                elif pre[i] == "%":
                    i += 1
                else:
                    rx += re.escape(pre[i])
                    i += 1
            out.append((f[0], f[1], f[2], f[3], f[4], re.compile(rx, re.S)))
        _SITES = out
    return _SITES


def site_class_of(ctx, d):
    """the model's class for the raise site that fired (file + function of the innermost frame + message)"""
    hits = [s for s in raise_sites(ctx)
            if os.path.basename(s[0]) == d.get("raised_in") and s[1].split(".")[-1] == d.get("raised_fn")
            and s[5].match(d.get("msg", ""))]
    return sorted(set(s[4] for s in hits))


def check_site_table(ctx):
    """the model's table against the generator: every class it names is planted, every planted class has a site"""
    st = ctx.stream("raise-sites", "corr", exhaustive=True)
    sites = raise_sites(ctx)
    named = set()
    for s in sites:
        st["cases"] += 1
        ctx.branch("raise-site:" + s[4].split(":")[0])
        if s[4].startswith("outside:"):
            continue
        named.add(s[4])
        ok = s[4] == "python" or s[4] in G.STRUCTURAL_CLASSES or s[4] in SITE_GROUP.values()
        if s[4] == "?" or not ok:
            ctx.disagree("raise-sites", {"site": list(s[:4])}, s[4], "no such fault class in the generator")
        if s[3] not in ("self", "param", "self+override", "adjusted", "explicit"):
            ctx.disagree("raise-sites", {"site": list(s[:4])}, "coordinates of its own node", s[3])
    for c in G.STRUCTURAL_CLASSES:
        if SITE_GROUP.get(c, c) not in named:
            ctx.disagree("raise-sites", {"class": c}, "no raise site", "planted by the generator")


def err_kind(msg):
    from harness.lexmodel import err_kind as ek
    return ek(msg)


def compare_model(ctx, f, d, answers):
    """-> list of (stream, model, impl) disagreements"""
    out = []
    cls = f["cls"]
    impl_pos = (d.get("cls"), d.get("lineno"), d.get("pos"))
    if d.get("mako"):
        got = site_class_of(ctx, d)
        want = SITE_GROUP.get(cls, cls)
        if got != [want]:
            out.append(("raise-site-class", got, "%s (raised in %s:%s: %s)" % (want, d.get("raised_in"), d.get("raised_fn"),
                                                                         d.get("msg", "")[:60])))
    if cls == "python":
        node = answers["node"].split(" ")
        if node[0] != "ok" or node[1] != "S":
            out.append(("python-node", answers["node"], impl_pos))
        else:
            m_line, m_pos, m_off, m_code = int(node[2]), int(node[3]), int(node[4]), dec(node[5])
            lc = d.get("last_call")
            if not (d["cls"] == "exceptions.SyntaxException" and (d["lineno"], d["pos"]) == (m_line, m_pos)):
                out.append(("python-reported-line", (m_line, m_pos), impl_pos))
            if lc is None or lc[0] != m_code or lc[1] != m_off:
                out.append(("python-parser-call", (m_off, m_code[:80]), (lc[1], lc[0][:80]) if lc else None))
            ctx.branch("offset:%d" % m_off if -1 <= m_off <= 3 else "offset:>3")
        tr = answers["true"].split(" ")
        true_line, raw_line, lead, line_o = int(tr[0]), int(tr[1]), int(tr[2]), int(tr[3])
        if d.get("k") != f["code_line"] - (lead if f["label"] in ("expr", "filter", "block", "attrexpr", "callexpr") else 0) \
                + (1 if f["label"] == "ctl" and f.get("keyword") in ("elif", "else", "except") else 0):
            out.append(("cpython-blamed-line", "k=%r" % d.get("k"), "fault on code line %d (leading blank lines %d)" % (
                f["code_line"], lead)))
        elif true_line != f["line"]:
            out.append(("spec-vs-ground-truth", "trueLine=%d rawLine=%d" % (true_line, raw_line), "truth %d" % f["line"]))
        tok = answers["tok"].split(" ")
        if tok[0] == "none" or int(tok[1]) != f["construct"]["off"]:
            out.append(("node-index", answers["tok"], "construct at offset %d" % f["construct"]["off"]))
        elif (int(tok[5]), int(tok[6])) != (f["construct"]["line"], f["construct"]["col"]):
            out.append(("lineOf-colOf-vs-ground-truth", answers["tok"], (f["construct"]["line"], f["construct"]["col"])))
    elif cls in LEXER_CLASSES:
        a = answers["struct"].split(" ")
        if a[0] != "error":
            out.append(("lexer-error", answers["struct"], impl_pos + (d.get("msg", "")[:80],)))
        else:
            kind, l, c = a[1], int(a[2]), int(a[3])
            ik = err_kind(d.get("msg", ""))
            if not (d["cls"] == "exceptions.SyntaxException" and (d["lineno"], d["pos"]) == (l, c) and ik == kind):
                out.append(("lexer-error", (kind, l, c), impl_pos + (ik,)))
            if kind != LEXER_CLASSES[cls]:
                out.append(("lexer-error-kind-of-fault-class", kind, LEXER_CLASSES[cls]))
            if a[4] == "none" or int(a[4]) != f["construct"]["off"]:
                out.append(("faultStart-vs-ground-truth", a[4:], f["construct"]))
            elif (int(a[5]), int(a[6])) != (f["construct"]["line"], f["construct"]["col"]):
                out.append(("lineOf-colOf-vs-ground-truth", a[4:], f["construct"]))
            ctx.branch("model-lexer-kind:" + kind)
    elif cls in CODEGEN_CLASSES or cls == "deep-nesting":
        a = answers["tokat"].split(" ")
        want_cls = "exceptions.SyntaxException" if cls in SYNTAX_EXC_CLASSES else "exceptions.CompileException"
        if a[0] == "none":
            out.append(("codegen-node", "no token at offset %d" % f["construct"]["off"], impl_pos))
        elif not (d["cls"] == want_cls and (d["lineno"], d["pos"]) == (int(a[3]), int(a[4]))):
            out.append(("codegen-node", answers["tokat"], impl_pos))
        if answers["struct"] != "ok":
            out.append(("codegen-fault-lexes", answers["struct"], "ok"))
    elif cls == "module-level":
        if answers["struct"] != "ok":
            out.append(("module-level-fault-lexes", answers["struct"], "ok"))
        if d["outcome"] == "error" and d["mako"]:
            out.append(("module-level-fault-caught-by-mako", "no Mako-level error", impl_pos))
    else:
        a = answers["tok"].split(" ")
        if a[0] == "none":
            out.append(("ctor-node", "none", impl_pos))
        else:
            if not (d["cls"] == "exceptions.CompileException" and (d["lineno"], d["pos"]) == (int(a[3]), int(a[4]))):
                out.append(("ctor-node", answers["tok"], impl_pos))
            if int(a[1]) != f["construct"]["off"]:
                out.append(("node-index", answers["tok"], "construct at offset %d" % f["construct"]["off"]))
        if "node" in answers:
            want = "frag-notpartial" if cls == "fragment-not-partial" else "frag-unsupported"
            if not answers["node"].endswith(want):
                out.append(("fragment-class", answers["node"], want))
    return out


# --------------------------------------------------------------------------------------------- case production

def _one_per_label(fs, rng, cap):
    by = {}
    for f in fs:
        by.setdefault(f.get("label"), []).append(f)
    labels = sorted(by)
    rng.shuffle(labels)
    return [rng.choice(by[l]) for l in labels[:cap]]


def gen_cases(ctx, nbases, per_base, seed_base):
    """-> list of fault dicts (with 'base' index)"""
    import random
    out = []
    skipped = 0
    impl_t = sys.modules.get("mako.template")
    for bi in range(nbases):
        rng = random.Random("%d/%d/%d" % (ctx.seed, seed_base, bi))
        size = rng.choice([3, 4, 6, 8])
        base = G.gen_base(rng, size=size, depth=rng.choice([1, 2, 2]))
        try:
            impl_t.Template(base.src)
        except Exception as e:      # the generator promises well-formed templates
            skipped += 1
            ctx.branch("base-rejected:" + type(e).__name__)
            continue
        ctx.branch("base:nl=%s" % ("CRLF" if base.nl == "\r\n" else "LF"))
        ctx.branch("base:leading-blank-lines" if base.src.startswith(("\n", "\r\n", "  \n", "  \r\n")) else "base:no-leading-blank")
        groups = [G.python_faults(base), G.structural_faults(base, rng) + G.module_level_faults(base, rng),
                  _one_per_label(G.deep_nesting_faults(base, rng), rng, 5 if per_base else 6)]
        fs = []
        for grp in groups:
            if per_base and len(grp) > per_base:
                # keep every class represented: stratified sample
                by = {}
                for f in grp:
                    by.setdefault((f["cls"], f.get("label"), f.get("sub")), []).append(f)
                keep = []
                keys = sorted(by, key=str)
                while len(keep) < per_base and keys:
                    for k in list(keys):
                        lst = by[k]
                        keep.append(lst.pop(rng.randrange(len(lst))))
                        if not lst:
                            keys.remove(k)
                        if len(keep) >= per_base:
                            break
                grp = keep
            fs += grp
        for f in fs:
            f["base"] = bi
        out += fs
    if skipped:
        ctx.log("generator: %d of %d base templates rejected by mako" % (skipped, nbases))
    return out


def nontrivial(f):
    return not (f["line"] == 1 and f["construct"]["col"] == 1)


def class_name(f):
    return f["cls"] + (":" + (f.get("label") or f.get("sub")) if (f.get("label") or f.get("sub")) else "")


# --------------------------------------------------------------------------------------------- shrinking

def shrink_python_case(impl, f, site):
    """drop whole lines outside the construct while the same site still fails and the un-faulted text still compiles"""
    src = f["src"]
    a = src.rfind("\n", 0, f["construct"]["off"]) + 1
    endc = f["code_start"] + f["code_len"]
    b = src.find("\n", endc)
    b = len(src) if b < 0 else b + 1
    # also keep the rest of the construct (up to the end of its line + closing pieces): keep 3 more lines
    for _ in range(3):
        nb = src.find("\n", b)
        b = len(src) if nb < 0 else nb + 1
    head = src[:a].splitlines(True)
    tail = src[b:].splitlines(True)
    core = src[a:b]
    fault_rel = None

    def build(keep_head, keep_tail):
        h = "".join(keep_head)
        new = h + core + "".join(keep_tail)
        shift = len(h) - a
        g = dict(f)
        g["src"] = new
        g["construct"] = G._truth(new, f["construct"]["off"] + shift)
        g["code_start"] = f["code_start"] + shift
        g["line"] = f["line"] - src.count("\n", 0, a) + h.count("\n")
        if "bar" in f:
            g["bar"] = dict(f["bar"])
        return g

    def fails(g):
        d, fn = impl.construct("string", g["src"])
        if d["outcome"] != "error":
            return False
        if site not in [x[0] for x in check_fields(g, d, fn, "string")]:
            return False
        # the un-faulted text must still be a well-formed template
        try:
            impl.template.Template(g["src"].replace("+ =", "+", 1) if g["src"].count("+ =") == 1 else g["src"])
        except Exception:
            return g["src"].count("+ =") != 1
        return True

    try:
        kh = ddmin(head, lambda xs: fails(build(xs, tail)), 150)
        kt = ddmin(tail, lambda xs: fails(build(kh, xs)), 150)
        g = build(kh, kt)
        return g if fails(g) else f
    except Exception:
        return f


# --------------------------------------------------------------------------------------------- streams

def run_faults(ctx, impl, cases, stream_corr, stream_oracle, path_every, display_every, pulled_every):
    sc = ctx.stream(stream_corr, "corr")
    so = ctx.stream(stream_oracle, "oracle")
    drv = ctx.driver()
    # 1. observe on the string path
    obs = []
    for f in cases:
        obs.append(impl.observe(f["src"]))
    # 2. model
    reqs = []
    index = []
    for ci, (f, d) in enumerate(zip(cases, obs)):
        if d["outcome"] != "error":
            continue
        for tag, line in model_requests(f, d):
            index.append((ci, tag))
            reqs.append(line)
    answers = {}
    try:
        resp = drv.ask_many(reqs)
        for (ci, tag), r in zip(index, resp):
            answers.setdefault(ci, {})[tag] = r
        model_ok = True
    except Exception as e:       # the oracle must run even if the correspondence cannot
        ctx.broke("correspondence:driver", repr(e))
        model_ok = False
    worst = {}      # site -> smallest failing (f, detail, extra, path)
    for ci, (f, d) in enumerate(zip(cases, obs)):
        cn = class_name(f)
        ctx.branch("fault:" + cn)
        if d["outcome"] == "error":
            ctx.branch("raised:" + d["cls"])
            if d.get("k"):
                ctx.branch("blamed-line-k:%s" % (d["k"] if d["k"] <= 4 else ">4"))
        if nontrivial(f):
            ctx.nontriv((f["src"], cn))
        if len(ctx.samples) < 8 and ci % 997 == 0:
            ctx.sample({"fault": cn, "truth": [f["line"], f["construct"]["col"]], "source": f["src"][:400]})
        # correspondence
        if model_ok and d["outcome"] == "error":
            sc["cases"] += 1
            try:
                for stream, m, i in compare_model(ctx, f, d, answers.get(ci, {})):
                    ctx.disagree(stream_corr, {"input": f["src"], "fault": cn, "what": stream}, m, i)
            except Exception as e:
                ctx.disagree(stream_corr, {"input": f["src"], "fault": cn, "what": "compare raised"}, repr(e), answers.get(ci))
        elif model_ok and d["outcome"] == "ok":
            sc["cases"] += 1
            ctx.disagree(stream_corr, {"input": f["src"], "fault": cn, "what": "no error"}, "a fault was planted", "compiled")
        # oracle: string path always, the other paths for every `path_every`-th case
        so["cases"] += 1
        results = {"string": (d, None)}
        if path_every and ci % path_every == 0:
            for pk in PATHS[1:]:
                results[pk] = impl.construct(pk, f["src"])
                so["cases"] += 1
        for pk, (dd, fn) in results.items():
            ctx.branch("path:" + pk)
            for site, detail, extra in check_fields(f, dd, fn, pk):
                key = site
                if key not in worst or len(f["src"]) < len(worst[key][0]["src"]):
                    worst[key] = (f, detail, extra, pk)
                ctx.branch("violation:" + site)
        if len(results) > 1:
            sig = {pk: (dd.get("cls"), dd.get("lineno"), dd.get("pos"), dd.get("source"),
                        re.sub(r" in file '[^']*'", "", dd.get("msg", ""))) for pk, (dd, fn) in results.items()}
            if len(set(sig.values())) != 1:
                key = "path-dependent-fields"
                detail = "; ".join("%s: %s %s %s" % (pk, v[0], v[1], v[2]) for pk, v in sig.items())
                if key not in worst or len(f["src"]) < len(worst[key][0]["src"]):
                    worst[key] = (f, detail, {}, "all")
        # display
        if d["outcome"] == "error" and d["mako"] and display_every and ci % display_every == 0:
            so["cases"] += 1
            e = d["exc"]
            for site, detail in check_display(impl, e, e.__traceback__, "direct"):
                if site not in worst or len(f["src"]) < len(worst[site][0]["src"]):
                    worst[site] = (f, detail, {}, "string")
        if d["outcome"] == "error" and d["mako"] and pulled_every and ci % pulled_every == 0:
            how = ["include", "inherit", "namespace"][(ci // pulled_every) % 3]
            so["cases"] += 1
            ctx.branch("pulled-in:" + how)
            for site, detail in check_pulled_in(impl, f, how):
                if site not in worst or len(f["src"]) < len(worst[site][0]["src"]):
                    worst[site] = (f, detail, {"pulled_in_by": how}, "lookup")
        d.pop("exc", None)
    for site, (f, detail, extra, pk) in sorted(worst.items()):
        g = f
        if f["cls"] == "python" and pk == "string":
            g = shrink_python_case(impl, f, site)
            if g is not f:
                dd, fn = impl.construct("string", g["src"])
                for s2, det2, ex2 in check_fields(g, dd, fn, "string"):
                    if s2 == site:
                        detail, extra = det2, ex2
        ctx.violation(site, case_of(g, path=pk, **extra), detail, stream_oracle)


# hand-written witnesses of the recorded findings and of layouts on which an off-by-one of the line arithmetic shows
# (long trailing whitespace after short first code lines, multi-line filter lists, continuation lines, CRLF) - run
# first, every tier
def witness_cases():
    W = []

    def py(src, label, node_off, code_start, code_len, fault_off, **kw):
        raw = src[code_start: code_start + code_len]
        lead = len(raw) - len(raw.lstrip()) if label in ("expr", "filter", "block", "attrexpr", "callexpr") else 0
        f = {"cls": "python", "label": label, "src": src, "construct": G._truth(src, node_off),
             "line": G.line_of(src, fault_off), "code_start": code_start, "code_len": code_len,
             "code_on_first_line": src.count("\n", node_off, code_start + lead) == 0,
             "raw_on_first_line": src.count("\n", node_off, code_start) == 0,
             "code_line": 1 + src.count("\n", code_start, fault_off)}
        f.update(kw)
        W.append(f)

    s = "<%include\n file=\"${1 + = 2}\"/>"
    py(s, "attrexpr", 0, s.index("${") + 2, len("1 + = 2"), s.index("="))
    s = "a\n${x\n | fl(1 + = 2)}"
    py(s, "filter", 2, s.index("|") + 1, len(" fl(1 + = 2)"), s.index("= 2"))
    s = "a\n${x |\n fl(1 + = 2)}"
    py(s, "filter", 2, s.index("|") + 1, len("\n fl(1 + = 2)"), s.index("= 2"))
    # multi-line filter lists with a short first line and the closing brace on its own indented line
    s = "a\n${x | h,\nfl(1 + = 2)\n          }"
    py(s, "filter", 2, s.index("|") + 1, s.index("}") - s.index("|") - 1, s.index("= 2"))
    s = "${x | f(1 + = 2),\ntrim\n                  }"
    py(s, "filter", 0, s.index("|") + 1, s.index("}") - s.index("|") - 1, s.index("= 2"))
    s = "t\r\n${ (x +\r\n y)\r\n |\r\n  n,\r\nfl(a,\r\n     b + = c),\r\nh\r\n      \r\n            } tail"
    py(s, "filter", 3, s.index("|") + 1, s.index("}") - s.index("|") - 1, s.index("= c"))
    # indented multi-line block whose trailing whitespace is longer than its first code line
    s = "t\n<%\n    a = 1\n    b = 2 + = 3\n\n\n\n          %>\n"
    py(s, "block", 2, 4, s.index("%>") - 4, s.index("= 3"))
    s = "x\n${ (a +\n  b + = c)\n\n\n         }"
    py(s, "expr", 2, 4, s.index("}") - 4, s.index("= c"))
    s = "\n\n% if a and \\\n   b + = c:\n% endif\n"
    py(s, "ctl", 2, 4, s.index(":") + 1 - 4, s.index("= c"), keyword="if")
    s = "% if a:\r\n  % elif b + = c: # note\r\n% endif\r\n"
    py(s, "ctl", s.index("  %"), s.index("elif"), s.index("note") + 4 - s.index("elif"), s.index("= c"), keyword="elif")
    s = "abc\n<%def name='f()'>\nfoo\n\nbar"
    W.append({"cls": "unclosed-tag", "src": s, "construct": G._truth(s, 4), "line": 2, "tag": "def"})
    s = "abc\n ${x | h\nyy"
    W.append({"cls": "unterminated-filter", "src": s, "construct": G._truth(s, 5), "line": 2, "bar": G._truth(s, s.index("|"))})
    # every raise site at a position where the offending construct is not on the line of the enclosing construct
    s = "top\n<%namespace name='nsw'>\n  <%def name='dw()'>x</%def>\n\n     <%block>\nanon\n</%block>\n</%namespace>\n"
    W.append({"cls": "anon-block-in-namespace", "src": s, "construct": G._truth(s, s.index("<%block")),
              "line": G.line_of(s, s.index("<%block"))})
    s = "one\n  <%namespace name='nsv' file='/x.html'\n     module='os.path'/>\n"
    W.append({"cls": "namespace-file-and-module", "src": s, "construct": G._truth(s, s.index("<%namespace")), "line": 2})
    s = "one\ntwo\n   <%\n      v0 = 1\n      from os import *\n%>\n"
    W.append({"cls": "import-star", "src": s, "construct": G._truth(s, s.index("<%")), "line": 3})
    deep = "+ " + "a + " * G.DEEP_TERMS
    s = "one\n\n   ${ (x\n " + deep + "y) | h}\n"
    W.append({"cls": "deep-nesting", "label": "expr", "src": s, "construct": G._truth(s, s.index("${")), "line": 3})
    s = "one\n  <%block name='bw'\n     args=\"q, r=1 " + deep.replace("a", "2") + "3\">b</%block>\n"
    W.append({"cls": "deep-nesting", "label": "sigargs", "src": s, "construct": G._truth(s, s.index("<%block")), "line": 2})
    for sub, s, off in [("expr-trailing-comment", "t\n${x # c}", 2), ("block-break-outside-loop", "t\n  <% break %>", 4),
                        ("module-block-return", "<%! return %>", 0)]:
        W.append({"cls": "module-level", "sub": sub, "src": s, "construct": G._truth(s, off), "line": G.line_of(s, off)})
    # characters str.splitlines() breaks on but mako's lexer does not count as a line end, in the text ABOVE a fault:
    # whatever splits the source into lines for display must split it the way the line number was counted
    for ch in LINE_LIKE:
        s = "head a" + ch + "b" + ch + ch + "tail\nsecond " + ch + "line\n  ${ x + = y }\nlast\n"
        o = s.index("${")
        py(s, "expr", o, o + 2, s.index("}") - o - 2, s.index("= y"))
        s = "head a" + ch + "b tail\n" + ch + "second\n\n   <%include file='/x.html' bogus='1'/>\nlast " + ch + "\n"
        W.append({"cls": "illegal-attribute", "src": s, "construct": G._truth(s, s.index("<%include")),
                  "line": G.line_of(s, s.index("<%include")), "tag": "include"})
    return W


def run(ctx):
    # (the deep-nesting faults rely on the interpreter's recursion limit: run at the default, whatever the caller set)
    old_limit = sys.getrecursionlimit()
    sys.setrecursionlimit(1000)
    impl = Impl()
    try:
        ws = witness_cases()
        try:
            check_site_table(ctx)
        except Exception as e:
            ctx.broke("correspondence:raise-sites", repr(e))
        run_faults(ctx, impl, ws, "witnesses-model", "witnesses-oracle", 1, 1, 1)
        if ctx.quick:
            plan = [(70, 30, 1)]
            path_every, display_every, pulled_every = 11, 41, 53
        else:
            plan = [(40, 0, 1), (230, 40, 2)]
            path_every, display_every, pulled_every = 5, 17, 19
        for nbases, per_base, sb in plan:
            cases = gen_cases(ctx, nbases, per_base, sb)
            ctx.log("stream %d: %d faulty templates from %d bases" % (sb, len(cases), nbases))
            # batches keep the driver requests and the memory bounded
            for i in range(0, len(cases), 1500):
                run_faults(ctx, impl, cases[i:i + 1500], "faults-model", "faults-oracle", path_every, display_every,
                           pulled_every)
        hist = {k: v for k, v in ctx.branches.items() if k.startswith("fault:")}
        ctx.log("fault classes: " + ", ".join("%s=%d" % (k[6:], v) for k, v in sorted(hist.items())))
        ctx.log("violation sites: " + ", ".join("%s=%d" % (k[10:], v) for k, v in sorted(ctx.branches.items())
                                                if k.startswith("violation:")))
    finally:
        sys.setrecursionlimit(old_limit)
        impl.close()


def replay(ctx, data):
    """re-run the recorded case on the implementation (oracle) and the model (correspondence)"""
    impl = Impl()
    try:
        c = data["case"]
        f = fault_of_case(c)
        site = data["site"]
        pk = c.get("path", "string")
        found = []
        if site.split(":")[0] in ("richtraceback-line", "text-error-template-line", "html-error-template-line",
                                  "format-exceptions-line", "pulled-in-fields", "pulled-in-no-error",
                                  "pulled-in-foreign-exception"):
            if c.get("pulled_in_by"):
                found = check_pulled_in(impl, f, c["pulled_in_by"])
            else:
                d = impl.observe(f["src"])
                if d["outcome"] == "error" and d["mako"]:
                    found = check_display(impl, d["exc"], d["exc"].__traceback__, "direct")
        elif site == "path-dependent-fields":
            sigs = set()
            for p in PATHS:
                dd, fn = impl.construct(p, f["src"])
                sigs.add((dd.get("cls"), dd.get("lineno"), dd.get("pos"), dd.get("source")))
            found = [("path-dependent-fields", str(sigs))] if len(sigs) != 1 else []
        else:
            paths = PATHS if pk == "all" else [pk]
            for p in paths:
                dd, fn = impl.construct(p, f["src"])
                found += [(x[0], x[1]) for x in check_fields(f, dd, fn, p)]
        for s_, det in found:
            ctx.log("replay: %s: %s" % (s_, det))
        # the model side, for information
        try:
            d = impl.observe(f["src"])
            if d["outcome"] == "error":
                reqs = model_requests(f, d)
                resp = ctx.driver().ask_many([r for _, r in reqs])
                for (tag, _), r in zip(reqs, resp):
                    ctx.log("replay: model %s -> %s" % (tag, r[:160]))
                ctx.log("replay: implementation -> %s line %s pos %s" % (d["cls"], d["lineno"], d["pos"]))
        except Exception as e:
            ctx.log("replay: model side unavailable (%r)" % (e,))
        return not any(s_ == site for s_, _ in found)
    finally:
        impl.close()
