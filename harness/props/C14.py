"""C14 - lookup serves fresh, stable, correctly prioritised templates over time.

corr  : histories (<= 40 ops over {tick, write, delete, break (does not compile in Mako), break late (compiles, the
        generated module raises at import; 3 variants), get_template, has_template, put_string, put_template},
        1-3 directories, <= 8 URIs) are executed on the REAL TemplateLookup over a temp tree with a simulated
        whole-second clock (time.time as seen by mako.codegen, timeit.default_timer as seen by mako.util, os.utime on
        every written source and module file) and on the Lean model (driver op `lookup run`); per step the returned
        template identity (objects numbered in order of Template.__init__ entry), the rendered content, the exception
        kind (TopLevelLookupException / TemplateLookupException / Mako compile error / whatever the module import
        raises), the sorted collection keys and the construction count are compared;
        x filesystem_checks on/off, collection_size in {-1,1,2,4}, module_directory on/off.
        Streams: corpus (witnesses of the Lean counterexample / witness theorems and of repaired defects),
        exhaustive (all histories shorter than L over a 13-op alphabet x 16 configurations), exhaustive_sampled
        (all histories of length L x 3 rotating configurations), random (uniform and lifecycle-biased generators).
oracle: an independent reference of "what should be served", written from the property text (no Lean): freshness
        with whole seconds, stability (same object, no construction), frozen when checks are off, first directory
        wins, put entries stored and served, exception classes, usable after a failed compile or a failed import (no
        entry, mutex free, the corrected file loads), len(collection) <= 1.5 n, the evicted are the least recently
        fetched, eviction never changes the content a lookup returns (same history replayed with
        collection_size=-1).  Failing histories are shrunk with ddmin; a violation is filed under a site name, the
        recorded findings (known_findings.json, F-C14-2..6) are matched by site.
"""
from __future__ import annotations

import itertools
import os
import shutil
import sys
import tempfile

from harness.common import ddmin

REGEN = ["Lookup"]
RULE = ("histories over ops {t<n> tick, w<d>.<u>.<c> write, d<d>.<u> delete, b<d>.<u> break, l<d>.<u>.<v> break late (module raises at import, 3 variants), g<u> get_template, "
        "h<u> has_template, s<u>.<c> put_string, p<u>.<tid> put_template}; exhaustive: every history of length < L "
        "over a 13-op alphabet on 2 directories / 2 URIs x all 16 configurations (filesystem_checks x collection_size "
        "{-1,1,2,4} x module_directory), every history of length L (quick L=3, thorough L=4) x 3 rotating "
        "configurations; random: length 1..40, 1-3 directories, 1..8 URIs, every write a new content id, weights "
        "favouring get/write/tick, x the 16 configurations in turn; corpus: the witnesses of the Lean counterexample "
        "theorems.  A history is non-trivial when it contains a get/has after a disk change or put; distinct = distinct "
        "(configuration, history) pairs; the evidence lists how many steps took each path of the model")
ASSUMPTIONS = [
    "whole-second simulated clock: time.time (mako.codegen), os.utime of written source files and of module files "
    "written by _compile_module_file; sub-second timing (float _modified_time vs int ST_MTIME) is outside the quantifier",
    "timeit.default_timer (LRU stamps) is strictly increasing (modelled as a counter): no two stamps are equal",
    "sequential use only (concurrency is C16); the second-chance read in _load is therefore never taken",
    "two kinds of broken content: 'b' does not compile in Mako ('${'; nothing is written), 'l' compiles in Mako but the "
    "generated module raises when imported/executed (3 variants: `<% break %>` -> SyntaxError, `<%! import nonexistent %>` "
    "-> ModuleNotFoundError, `<%! raise RuntimeError %>`; with a module directory the module file is written and stays); "
    "unreadable files (permissions) are not exercised - the harness runs as root",
    "put_template is given templates constructed earlier in the same history (by this lookup or by put_string)",
    "sys.dont_write_bytecode is set while the histories run (no __pycache__ beside the module files; that cache is C15's subject)",
]
TRUSTED_EXTRA = [
    "C14: tools/regen_lookup.py - an AST recogniser of: the LRU threshold, _manage_size's loop condition / sort "
    "direction / slice, the _check comparison operator, the TemplateLookup defaults and the LRUCache(collection_size) "
    "call, whether _load hands a second-chance hit to _check, and in Template._compile_from_file the staleness test "
    "(exists / mtime < filemtime), its position before the first load_module, and the file-name re-check "
    "`module._template_filename != filename` - accepted bare or with the same one-argument normalisation on both "
    "names (e.g. os.path.normpath(...) != os.path.normpath(...)); that the model's (directory, uri) file names make "
    "'equal up to normpath' plain equality is an assumption of the recogniser, not a proved fact",
    "C14: the simulated clock shims in harness/props/C14.py",
]

BASE = 1_000_000
# contents that Mako compiles but whose generated module raises when imported / executed
LATE = ["<% break %>late", "<%! import nonexistent_module_c14 %>late", "<%! raise RuntimeError('c14') %>late"]
CONFIGS = [(ck, sz, md) for ck in (True, False) for sz in (-1, 1, 2, 4) for md in (False, True)]


# --------------------------------------------------------------------------- histories

def tok(op):
    return op[0] + ".".join(str(x) for x in op[1:])


def enc_hist(h):
    return ";".join(tok(o) for o in h) if h else "-"


def dec_hist(s):
    if s in ("", "-"):
        return []
    return [(t[0],) + tuple(int(x) for x in t[1:].split(".")) for t in s.split(";")]


def random_history(rng, ndirs, nuris, n):
    h = []
    made = 0
    c = 0
    for _ in range(n):
        r = rng.random()
        u = rng.randrange(nuris)
        d = rng.randrange(ndirs)
        if r < 0.30:
            h.append(("g", u)); made += 1
        elif r < 0.36:
            h.append(("h", u)); made += 1
        elif r < 0.56:
            c += 1; h.append(("w", d, u, c))
        elif r < 0.64:
            h.append(("d", d, u))
        elif r < 0.68:
            h.append(("b", d, u))
        elif r < 0.72:
            c += 1; h.append(("l", d, u, c))
        elif r < 0.86:
            h.append(("t", rng.choice([1, 1, 1, 2, 3, 0])))
        elif r < 0.94:
            c += 1; h.append(("s", u, c)); made += 1
        else:
            h.append(("p", u, rng.randrange(max(1, made))))
    return h


def lifecycle_history(rng, ndirs, nuris, n):
    """biased towards the interesting paths: files that were fetched get modified / broken / deleted (with and
    without a tick in between), fetched again, other URIs are fetched to force evictions"""
    h = []
    files = []          # (d, u) that exist
    fetched = []        # URIs fetched so far
    made = 0
    c = 0
    while len(h) < n:
        r = rng.random()
        if r < 0.34:
            u = rng.choice(fetched) if fetched and rng.random() < 0.7 else \
                (rng.choice(files)[1] if files and rng.random() < 0.8 else rng.randrange(nuris))
            h.append(("g" if rng.random() < 0.85 else "h", u)); made += 1
            if u not in fetched:
                fetched.append(u)
        elif r < 0.58:
            if files and rng.random() < 0.65:
                cand = [f for f in files if f[1] in fetched] or files
                d, u = rng.choice(cand)
            else:
                d, u = rng.randrange(ndirs), rng.randrange(nuris)
            c += 1; h.append(("w", d, u, c))
            if (d, u) not in files:
                files.append((d, u))
        elif r < 0.76:
            h.append(("t", rng.choice([1, 1, 2, 5])))
        elif r < 0.83 and files:
            d, u = rng.choice(files); h.append(("d", d, u)); files.remove((d, u))
        elif r < 0.86 and files:
            d, u = rng.choice(files); h.append(("b", d, u))
        elif r < 0.90 and files:
            d, u = rng.choice(files); c += 1; h.append(("l", d, u, c))
        elif r < 0.95:
            c += 1; h.append(("s", rng.randrange(nuris), c)); made += 1
        elif made:
            h.append(("p", rng.randrange(nuris), rng.randrange(max(1, made // 2 + 1))))
    return h


ALPHABET = [("t", 1), ("w", 0, 0, None), ("w", 1, 0, None), ("d", 0, 0), ("b", 0, 0), ("l", 0, 0, None), ("g", 0), ("g", 1), ("h", 0),
            ("w", 0, 1, None), ("s", 0, None), ("s", 1, None), ("p", 1, 0)]


def exhaustive_histories(L):
    for n in range(1, L + 1):
        for combo in itertools.product(ALPHABET, repeat=n):
            h = []
            for i, o in enumerate(combo):
                h.append(tuple((i + 1) if x is None else x for x in o))
            yield h


# witnesses of the Lean counterexample theorems / recorded findings: (ndirs, checks, size, moddir, history)
CORPUS = [
    (2, True, -1, True, "w1.0.1;t1;w0.0.2;g0;t1;d0.0;g0;g0;t5;g0"),          # repaired b4d0d5f: module of the URI outlived its source
    (1, True, -1, True, "w0.0.1;g0;t1;w0.0.3;t1;w0.1.4;g1;p1.0;g1"),          # repaired b4d0d5f: fresh_former_witness (alias via put_template)
    (1, True, -1, True, "w0.0.1;g0;t1;w0.0.2;g0;w0.0.3;p0.0;g0"),             # fresh_same_second_put_template_witness
    (1, True, 1, False, "s0.7;s1.8;g0"),                                      # LRU drops a put_string entry
    (2, True, 1, False, "w1.0.5;w0.1.9;g0;t1;w0.0.6;t1;g1;g0"),               # eviction un-shadows directory 0
    (1, True, 1, False, "w0.0.1;w0.1.9;g0;w0.0.2;g1;g0"),                     # eviction refreshes within the grace second
    (1, False, 1, False, "w0.0.1;w0.1.9;g0;t1;w0.0.2;t1;g1;g0"),              # checks off: eviction reloads
    (1, True, -1, True, "w0.0.1;g0;s1.2;t1;w0.0.3;g0;p0.0;t1;w0.1.4;g1"),
    (1, True, 2, False, "s0.1;s1.2;s0.3;s2.4;g0"),                            # replace does not re-stamp
    (1, True, -1, False, "w0.0.1;g0;t1;b0.0;g0;g0;w0.0.2;g0"),                # failed compile, corrected file loads
    (1, True, -1, False, "w0.0.1;g0;d0.0;h0;h0"),                             # has_template on a vanished file
    (1, True, 2, False, "w0.0.1;g0;s0.2;g0;s0.3;g0;p0.0;g0"),                 # stores onto an existing key (LRU)
    (2, True, -1, True, "w1.0.3;t1;l0.0.4;g0;d0.0;g0;t100;g0"),               # first_directory_wins_counterexample
    (1, True, -1, True, "l0.0.1;g0;w0.0.2;g0;t1;w0.0.3;g0"),                  # failed_import_same_second_witness
    (1, True, -1, False, "l0.0.2;g0;w0.0.2;g0"),
    (1, True, -1, True, "l0.0.0;g0;g0;t1;w0.0.2;g0;g0"),                      # late failure, tick, corrected file loads
    (1, True, 2, True, "w0.0.1;g0;t1;l0.0.1;g0;h0;t1;w0.0.2;h0;g0"),          # cached, then late-breaking, then corrected
    (1, False, -1, True, "l0.0.2;h0;t2;w0.0.5;g0"),
]


# --------------------------------------------------------------------------- the real TemplateLookup under a simulated clock

class Sim:
    clock = 0
    ts = 0
    count = 0
    base = None
    srcs = {}


class _FakeTime:
    @staticmethod
    def time():
        return float(BASE + Sim.clock)


class _FakeTimeit:
    @staticmethod
    def default_timer():
        Sim.ts += 1
        return float(Sim.ts)


class Real:
    """context manager installing the shims; `run(history, cfg)` executes one history on a fresh lookup"""

    def __enter__(self):
        import mako.codegen as MC
        import mako.lookup as ML
        import mako.template as MT
        import mako.util as MU
        from mako import exceptions as X
        self.MC, self.ML, self.MT, self.MU, self.X = MC, ML, MT, MU, X
        self.saved = (MC.time, MU.timeit, MT._compile_module_file, MT.Template.__init__)
        orig_cmf, orig_init = self.saved[2], self.saved[3]
        self.objs = []

        def cmf(template, text, filename, outputpath, module_writer):
            orig_cmf(template, text, filename, outputpath, module_writer)
            os.utime(outputpath, (BASE + Sim.clock, BASE + Sim.clock))

        objs = self.objs

        def init(self_, *a, **k):
            n = Sim.count
            Sim.count += 1
            orig_init(self_, *a, **k)
            self_._c14_id = n
            fn = self_.filename
            src = None
            if fn is not None and Sim.base and fn.startswith(Sim.base):
                a_, b_ = fn[len(Sim.base) + 1:].split(os.sep)          # d<i>/u<k>.html
                src = (int(a_[1:]), int(b_[1:-5]))
            Sim.srcs[n] = (src, int(self_.module._modified_time) - BASE)
            objs.append(self_)
        MC.time = _FakeTime
        MU.timeit = _FakeTimeit
        MT._compile_module_file = cmf
        MT.Template.__init__ = init
        self.base = tempfile.mkdtemp(prefix="c14_")
        self.work = os.path.join(self.base, "w")
        self.dirs = [os.path.join(self.work, "d%d" % i) for i in range(3)]
        self.mods = os.path.join(self.work, "mods")
        for d in self.dirs + [self.mods]:
            os.makedirs(d)
        # no __pycache__ next to the module files: every history starts at second 0 again, so a cache entry keyed by
        # (mtime, size) of an earlier history's module file could be picked up (C15 looks at that cache, not C14)
        self.saved_dwb = sys.dont_write_bytecode
        sys.dont_write_bytecode = True
        self.n = 0
        return self

    def __exit__(self, *exc):
        MC, MU, MT = self.MC, self.MU, self.MT
        MC.time, MU.timeit, MT._compile_module_file, MT.Template.__init__ = self.saved
        sys.dont_write_bytecode = self.saved_dwb
        shutil.rmtree(self.base, ignore_errors=True)
        # registry of module infos kept by mako: drop what this run added
        try:
            for k in [k for k in MT.ModuleInfo._modules if isinstance(k, str) and self.base in k]:
                del MT.ModuleInfo._modules[k]
        except Exception:
            pass
        return False

    def run(self, ndirs, checks, size, moddir, history):
        """-> list of step records: dict(out, keys, count, cached{u:id}, locked, ret(id, src, stamp) or None)"""
        X = self.X
        self.n += 1
        base = self.work
        for d in self.dirs + [self.mods]:
            for ent in os.scandir(d):
                if ent.is_dir(follow_symlinks=False):
                    shutil.rmtree(ent.path, ignore_errors=True)
                else:
                    os.unlink(ent.path)
        Sim.clock = 0
        Sim.ts = 0
        Sim.count = 0
        Sim.base = base
        Sim.srcs = srcs = {}
        del self.objs[:]
        dirs = self.dirs[:ndirs]
        md = self.mods if moddir else None
        lk = self.ML.TemplateLookup(directories=dirs, filesystem_checks=checks, collection_size=size,
                                    module_directory=md)
        steps = []

        def path(d, u):
            return os.path.join(base, "d%d" % d, "u%d.html" % u)

        try:
            for op in history:
                k = op[0]
                out = "-"
                ret = None
                exc = None
                if k == "t":
                    Sim.clock += op[1]
                elif k in "wbl":
                    p = path(op[1], op[2])
                    if op[1] < ndirs:
                        with open(p, "w") as f:
                            f.write("c%d" % op[3] if k == "w" else "${" if k == "b" else LATE[op[3] % len(LATE)])
                        os.utime(p, (BASE + Sim.clock, BASE + Sim.clock))
                elif k == "d":
                    try:
                        os.remove(path(op[1], op[2]))
                    except FileNotFoundError:
                        pass
                elif k in "gh":
                    try:
                        if k == "g":
                            t = lk.get_template("u%d.html" % op[1])
                            body = t.render()
                            out = "ok.%d.%s" % (t._c14_id, body[1:] if body[:1] == "c" and body[1:].isdigit() else "?" + body)
                            ret = (t._c14_id,) + srcs[t._c14_id]
                        else:
                            out = "has%d" % int(lk.has_template("u%d.html" % op[1]))
                    except X.TopLevelLookupException:
                        out = "top"
                    except X.TemplateLookupException:
                        out = "lookup"
                    except (X.CompileException, X.SyntaxException):
                        out = "compile"
                    except OSError:
                        out = "oserr"
                    except Exception as e:          # whatever the import / execution of the generated module raises
                        out = "late"
                        exc = type(e).__name__
                elif k == "s":
                    lk.put_string("u%d.html" % op[1], "c%d" % op[2])
                elif k == "p":
                    t = next((o for o in self.objs if o._c14_id == op[2]), None)
                    if t is not None:
                        lk.put_template("u%d.html" % op[1], t)
                coll = lk._collection
                cached = {}
                for key in dict.keys(coll):
                    v = dict.__getitem__(coll, key)
                    if size != -1:
                        v = v.value
                    cached[int(key[1:-5])] = v._c14_id
                steps.append({"out": out, "keys": sorted(cached), "count": Sim.count, "cached": cached,
                              "locked": lk._mutex.locked(), "ret": ret, "exc": exc,
                              "srcs": srcs})
        finally:
            pass
        return steps


def ask_many(ctx, lines):
    return ctx.driver().ask_many(lines)


def model_line(ndirs, checks, size, moddir, history):
    return "lookup run %d %d %d %d %s" % (ndirs, int(checks), size, int(moddir), enc_hist(history))


def parse_model(resp):
    """-> (steps [(out, branch, keys, count)], final keys, count) or None"""
    if resp.startswith("bad"):
        return None
    a, fk, cnt = resp.split("|")
    steps = []
    if a != "-":
        for s in a.split(";"):
            out, br, keys, c = s.split("/")
            steps.append((out, br, [] if keys == "-" else [int(x) for x in keys.split(",")], int(c)))
    return steps, ([] if fk == "-" else [int(x) for x in fk.split(",")]), int(cnt)


def real_view(steps):
    return [(s["out"], s["keys"], s["count"]) for s in steps]


def nontrivial(h):
    seen = False
    for o in h:
        if o[0] in "wdblsp":
            seen = True
        elif o[0] in "gh" and seen:
            return True
    return False


# --------------------------------------------------------------------------- the reference: what should be served

def content_of(out):
    """content-level view of a get/has result: the content, 'fail' (no template), 'compile'"""
    if out.startswith("ok."):
        return out.split(".")[2]
    if out in ("top", "lookup", "has0"):
        return "fail"
    if out == "has1":
        return "some"
    return out


def reference(ndirs, checks, size, moddir, history, steps):
    """Direct reading of the property on the observed run.  Yields (site, step index, detail)."""
    disk = {}                 # (d,u) -> (content or None if broken, mtime)
    kind = {}                 # (d,u) -> "ok" | "compile" (does not compile) | "late" (module raises at import)
    latemod = {}              # module_directory on: u -> (second in which a module file whose import raises was
                              # written, the source file it was generated from)

    def late_verdict(u, srcfile):
        """an import error that is not the source's own: 'grace' = the leftover module file was written in the very
        second of the source's mtime (allowance); 'othersrc' = it was generated from another source file and is not
        older than this one (recorded finding F-C14-6); 'bad' = anything else.
        'bad' gives the site `corrected-file-does-not-load`, which has no known_findings entry on purpose: it is a
        regression site.  On the code as it is it cannot occur (model: a module file of the *same* source that is
        younger than the source's mtime has the source's lateness, invariant `ModCur`; an older one is overwritten
        without being imported, obligation `stale_decided_before_import`); it fires when the module file is imported
        before its staleness is decided."""
        if not (moddir and u in latemod and srcfile in disk):
            return "bad"
        t, lsrc = latemod[u]
        if t == disk[srcfile][1]:
            return "grace"
        if lsrc != srcfile and t > disk[srcfile][1]:
            return "othersrc"
        return "bad"

    clock = 0
    put = {}                  # u -> id of the object put there and still expected
    last_get = {}             # u -> (step, id, count) of the last successful get while the disk was quiet
    frozen = {}               # checks off, unbounded: u -> id once loaded
    lastuse = {}              # u -> step of the last fetch (get/has that served or loaded it; insertion by put)
    prev = {"keys": [], "count": 0, "cached": {}, "srcs": {}}
    for i, (op, st) in enumerate(zip(history, steps)):
        k = op[0]
        out = st["out"]
        if st["locked"]:
            yield ("mutex-left-locked", i, "lookup mutex is held after the operation")
        if size != -1 and 2 * len(st["keys"]) > 3 * size:
            yield ("lru-bound", i, "len(collection)=%d > 1.5*%d" % (len(st["keys"]), size))
        if k == "t":
            clock += op[1]
        elif k in "wbl" and op[1] < ndirs:
            disk[(op[1], op[2])] = (str(op[3]) if k == "w" else None, clock)
            kind[(op[1], op[2])] = {"w": "ok", "b": "compile", "l": "late"}[k]
            last_get.clear()
        elif k == "d":
            disk.pop((op[1], op[2]), None)
            last_get.clear()
        elif k in "sp":
            u = op[1]
            last_get.pop(u, None)
            frozen.pop(u, None)
            if k == "s":
                put[u] = st["count"] - 1
            elif op[2] < prev["count"] and op[2] in st["srcs"]:
                if st["srcs"][op[2]][0] is None or not checks:
                    put[u] = op[2]
                else:
                    put.pop(u, None)
            if u in put and st["cached"].get(u) != put[u] and not (size != -1 and u not in st["keys"]):
                yield ("put-entry-not-stored", i, "object %d was put under u%d, the collection holds %r"
                       % (put[u], u, st["cached"].get(u)))
            if u not in prev["keys"]:
                lastuse[u] = i
            if size != -1:
                for v in list(last_get):
                    last_get[v] = (last_get[v][0], last_get[v][1], False)
        elif k in "gh":
            u = op[1]
            first = next(((d, u) for d in range(ndirs) if (d, u) in disk), None)
            cached_id = prev["cached"].get(u)
            constructed = st["count"] - prev["count"]
            if u in st["keys"]:
                lastuse[u] = i
            # ---- uncached URI: first directory / TopLevelLookupException / compile error
            # (with a module directory the module file is a cached version too: a result stamped in the very second
            #  of the source's mtime is within the one-second allowance)
            srcfile = first if cached_id is None else st["srcs"][cached_id][0]
            # a module file whose import raises is a cached version too: while the source's mtime is the very second
            # in which that module file was written, importing it again is within the one-second allowance
            lv = late_verdict(u, first) if (out == "late" and first is not None) else "bad"
            late_grace = lv == "grace"
            if cached_id is None:
                in_grace = moddir and first is not None and st["ret"] is not None and st["ret"][2] == disk[first][1]
                if first is None:
                    if out not in ("top", "has0"):
                        yield ("no-file-not-toplevel", i, "no file for the URI, got %s" % out)
                elif disk[first][0] is None:
                    if out == "late" and lv == "othersrc":
                        # the first directory's file does not compile either, but what is raised is the import error of
                        # a leftover module file generated from another source file: the recorded finding, not this site
                        yield ("late-module-of-other-source-blocks-import", i,
                               "file %r is %s-broken (mtime %d), got the import error of a leftover module file (%s, "
                               "module written at %r)" % (first, kind[first], disk[first][1], st["exc"], latemod.get(u)))
                    elif out != kind[first] and not in_grace and not late_grace and \
                            not (moddir and k == "h" and out == "has1"):
                        yield ("broken-file-no-compile-error", i, "file is %s-broken, got %s" % (kind[first], out))
                elif out == "late":
                    if not late_grace:
                        yield ("late-module-of-other-source-blocks-import" if lv == "othersrc"
                               else "corrected-file-does-not-load", i,
                               "file %r compiles (mtime %d), got the import error of a leftover module file (%s, module "
                               "written at %r)" % (first, disk[first][1], st["exc"], latemod.get(u)))
                elif k == "h":
                    if out != "has1":
                        yield ("first-directory", i, "has_template says %s" % out)
                else:
                    if not out.startswith("ok."):
                        yield ("first-directory", i, "file %r exists, got %s" % (first, out))
                    else:
                        rid, rsrc, rstamp = st["ret"]
                        if rsrc != first:
                            yield ("first-directory", i, "served from %r, first directory holding it is %r" % (rsrc, first))
                        elif content_of(out) != disk[first][0] and not moddir:
                            yield ("uncached-not-current", i, "file %r holds c%s (mtime %d), served c%s compiled at %d"
                                   % (first, disk[first][0], disk[first][1], content_of(out), rstamp))
            else:
                csrc, cstamp = st["srcs"][cached_id]
                if checks and csrc is not None and csrc not in disk:
                    # ---- vanished file
                    if k == "g" and out != "lookup":
                        yield ("vanished-not-lookup-exception", i, "got %s" % out)
                    if k == "h" and out != "has0":
                        yield ("vanished-has-template-not-false", i, "has_template gave %s" % out)
                    if u in st["keys"]:
                        yield ("vanished-not-evicted", i, "entry still cached")
            if cached_id is not None and checks and out == "late" and srcfile in disk and disk[srcfile][0] is not None \
                    and late_verdict(u, srcfile) != "grace":
                yield ("late-module-of-other-source-blocks-import" if late_verdict(u, srcfile) == "othersrc"
                       else "corrected-file-does-not-load", i, "source %r compiles (mtime %d), got the import error of "
                       "a leftover module file (%s, module written at %r)"
                       % (srcfile, disk[srcfile][1], st["exc"], latemod.get(u)))
            if out in ("compile", "late") and u in st["keys"]:
                yield ("failed-compile-leaves-entry", i, "entry left in the collection")
            if moddir:
                if out == "late" and srcfile in disk and kind.get(srcfile) == "late" and \
                        (u not in latemod or latemod[u][0] < disk[srcfile][1]):
                    latemod[u] = (clock, srcfile)     # no such module file, or an older one: it was (re)generated now
                elif out.startswith(("ok.", "has1")) and constructed:
                    latemod.pop(u, None)
            # ---- every returned template: freshness (whole seconds)
            if k == "g" and out.startswith("ok."):
                rid, rsrc, rstamp = st["ret"]
                if checks and rsrc is not None and rsrc in disk:
                    cur, mtime = disk[rsrc]
                    if cur is not None and content_of(out) != cur and mtime != rstamp:
                        yield ("stale" if mtime > rstamp else
                               ("module-file-reused-for-other-source" if moddir else "not-source-content"), i,
                               "source %r holds c%s (mtime %d), served c%s compiled at %d" % (rsrc, cur, mtime, content_of(out), rstamp))
                    if cur is None and mtime > rstamp:
                        yield ("stale", i, "source %r is broken since %d, served c%s compiled at %d" % (rsrc, mtime, content_of(out), rstamp))
                # ---- stability
                if u in last_get:
                    j, pid, quiet = last_get[u]
                    if quiet and (rid != pid or constructed):
                        yield ("unstable", i, "nothing on disk changed since step %d: object %d -> %d, %d constructions"
                               % (j, pid, rid, constructed))
                # ---- checks off: frozen
                if not checks and size == -1:
                    if u in frozen and frozen[u] != rid:
                        yield ("checks-off-not-frozen", i, "object %d -> %d" % (frozen[u], rid))
                    frozen[u] = rid
                # ---- put entries (for an LRU: as long as the entry has not been evicted, see the end of the loop)
                if u in put and rid != put[u]:
                    yield ("put-entry-not-served", i, "object %d was put, %d served" % (put[u], rid))
                last_get[u] = (i, rid, True)
            elif k == "g":
                last_get.pop(u, None)
                if u in put:
                    yield ("put-entry-not-served", i, "object %d was put, got %s" % (put[u], out))
            # for an LRU other fetches may evict: stability is claimed for immediate repetition only
            if size != -1:
                for v in list(last_get):
                    if v != u:
                        last_get[v] = (last_get[v][0], last_get[v][1], False)
        # ---- eviction takes the least recently fetched
        if size != -1:
            gone = [u for u in prev["keys"] if u not in st["keys"] and not (k in "gh" and u == op[1])]
            if gone:
                kept = st["keys"]
                if len(kept) != size:
                    yield ("lru-trim-size", i, "%d entries kept after a trim, capacity %d" % (len(kept), size))
                for g in gone:
                    for kp in kept:
                        if lastuse.get(kp, -1) < lastuse.get(g, -1):
                            yield ("lru-not-least-recent", i, "evicted u%d (last fetched at step %d) but kept u%d (step %d)"
                                   % (g, lastuse.get(g, -1), kp, lastuse.get(kp, -1)))
            for u in list(lastuse):
                if u not in st["keys"]:
                    del lastuse[u]
            for u in list(put):
                if u not in st["keys"]:
                    del put[u]          # evicted: the loss itself is what the eviction comparison reports
        prev = st


def cold(ndirs, history, upto, u):
    """content a lookup with an empty collection would serve for u after history[:upto]"""
    disk = {}
    for op in history[:upto]:
        if op[0] == "w" and op[1] < ndirs:
            disk[(op[1], op[2])] = str(op[3])
        elif op[0] == "b" and op[1] < ndirs:
            disk[(op[1], op[2])] = "compile"
        elif op[0] == "l" and op[1] < ndirs:
            disk[(op[1], op[2])] = "late"
        elif op[0] == "d":
            disk.pop((op[1], op[2]), None)
    first = next(((d, u) for d in range(ndirs) if (d, u) in disk), None)
    if first is None:
        return "fail", None
    return disk[first], first


def settled(history):
    """no file is changed in a second in which a template was compiled (or put) before"""
    fresh = True
    for op in history:
        if op[0] == "t" and op[1] >= 1:
            fresh = True
        elif op[0] in "ghsp":
            fresh = False
        elif op[0] in "wdbl" and not fresh:
            return False
    return True


def homed(history):
    home = {}
    for op in history:
        if op[0] in "wdbl":
            if home.setdefault(op[2], op[1]) != op[1]:
                return False
    return True


def eviction_diff(real, ndirs, checks, size, moddir, history, lru_steps=None):
    """first step at which the LRU run and the unbounded run serve different content; None if none.
    -> (site, step, detail)"""
    if size == -1:
        return None
    if any(o[0] == "p" for o in history):
        # put_template names its template by construction index, which means different objects in the two runs:
        # the comparison is made on the history without put_template
        history = [o for o in history if o[0] != "p"]
        lru_steps = None
    a = lru_steps if lru_steps is not None else real.run(ndirs, checks, size, moddir, history)
    b = real.run(ndirs, checks, -1, moddir, history)
    for i, (op, x, y) in enumerate(zip(history, a, b)):
        if op[0] in "gh" and content_of(x["out"]) != content_of(y["out"]):
            u = op[1]
            c, first = cold(ndirs, history, i, u)
            cx, cy = content_of(x["out"]), content_of(y["out"])
            if op[0] == "h":
                c = "fail" if c == "fail" else ("compile" if c == "compile" else "some")
            uid = y["cached"].get(u) if y["out"].startswith(("ok.", "has1")) else None
            usrc = y["srcs"].get(uid, (None, None))[0] if uid is not None else None
            detail = "collection_size=%d serves %s, collection_size=-1 serves %s (a cold lookup would serve %s)" % (size, cx, cy, c)
            # whatever is served must at least be a content some file of this URI held (or a put entry)
            held = {str(o[3]) for o in history[:i] if o[0] == "w" and o[2] == u}
            legit = all((not v.isdigit()) or v in held for v in (cx, cy))
            if uid is not None and (usrc is None or usrc[1] != u):
                # the unbounded lookup serves an entry that was put there (memory template or alias)
                return ("lru-evicts-put-entry", i, detail)
            if not checks and legit:
                return ("lru-eviction-reloads-with-checks-off", i, detail)
            if not homed(history) and legit:
                return ("lru-eviction-unshadows-directory", i, detail)
            if not settled(history) and legit:
                return ("lru-eviction-refreshes-within-grace-second", i, detail)
            return ("eviction-changes-content", i, detail)
    return None


def oracle_sites(real, ndirs, checks, size, moddir, history, steps=None, with_eviction=True):
    if steps is None:
        steps = real.run(ndirs, checks, size, moddir, history)
    res = list(reference(ndirs, checks, size, moddir, history, steps))
    if with_eviction:
        e = eviction_diff(real, ndirs, checks, size, moddir, history, steps)
        if e:
            res.append(e)
    return res


def report(ctx, real, stream, cfg, history, found, reported):
    """shrink and record the violations of one history (one per site and run)"""
    ndirs, checks, size, moddir = cfg
    for site, idx, detail in found:
        ctx.branch("oracle:site:" + site)
        key = (site, checks, size != -1, moddir)
        if key in reported:
            continue
        reported.add(key)

        def fails(sub, site=site):
            try:
                return any(s == site for s, _, _ in oracle_sites(real, ndirs, checks, size, moddir, sub,
                                                                 with_eviction=site.startswith(("lru-evict", "eviction"))))
            except Exception:
                return False
        small = ddmin(history, fails, 400)
        if not fails(small):
            small = history
        d2 = next((d for s, _, d in oracle_sites(real, ndirs, checks, size, moddir, small) if s == site), detail)
        ctx.violation(site, {"input": enc_hist(small), "ndirs": ndirs, "filesystem_checks": checks,
                             "collection_size": size, "module_directory": moddir}, d2, stream)


# --------------------------------------------------------------------------- streams

def compare(ctx, stream, cases, real, reported, do_oracle=True):
    """cases: list of (ndirs, checks, size, moddir, history).  Correspondence + oracle on each."""
    drv = ctx.driver()
    st = ctx.stream(stream)
    so = ctx.stream(stream.replace("corr.", "oracle."), "oracle")
    resps = ask_many(ctx, [model_line(*c) for c in cases])
    errors = []
    for c, resp in zip(cases, resps):
        ndirs, checks, size, moddir, h = c
        st["cases"] += 1
        steps = None
        try:
            steps = real.run(ndirs, checks, size, moddir, h)
            m = parse_model(resp)
            rv = real_view(steps)
            if m is None:
                ctx.disagree(stream, _case(c), resp, rv[:3])
            else:
                mv = [(o, k, n) for (o, b, k, n) in m[0]]
                for (o, b, k, n) in m[0]:
                    ctx.branch("model:" + b)
                if mv != rv:
                    i = next((i for i, (x, y) in enumerate(zip(mv, rv)) if x != y), min(len(mv), len(rv)))
                    # shrinking costs driver round trips: only the first few disagreements of a stream are minimised
                    small = shrink_disagreement(ctx, real, c) if st["disagreements"] < 3 else c
                    ctx.disagree(stream, _case(small), {"step": i, "model": mv[i:i + 1]}, {"step": i, "impl": rv[i:i + 1]})
                for s in steps:
                    ctx.branch("impl:" + s["out"].split(".")[0] + (":" + s["exc"] if s["exc"] else ""))
            if nontrivial(h):
                ctx.nontriv((ndirs, checks, size, moddir, enc_hist(h)))
        except Exception as e:          # harness trouble on one case must not hide the oracle
            errors.append((c, e))
        if do_oracle:
            so["cases"] += 1
            found = oracle_sites(real, ndirs, checks, size, moddir, h, steps)
            if found:
                report(ctx, real, so_name(stream), (ndirs, checks, size, moddir), h, found, reported)
    if errors:
        c, e = errors[0]
        raise RuntimeError("harness error on %r: %r" % (_case(c), e))


def so_name(stream):
    return stream.replace("corr.", "oracle.")


def _case(c):
    ndirs, checks, size, moddir, h = c
    return {"input": enc_hist(h), "ndirs": ndirs, "filesystem_checks": checks, "collection_size": size,
            "module_directory": moddir}


def shrink_disagreement(ctx, real, c):
    ndirs, checks, size, moddir, h = c
    drv = ctx.driver()

    def differs(sub):
        try:
            m = parse_model(ask_many(ctx, [model_line(ndirs, checks, size, moddir, sub)])[0])
            rv = real_view(real.run(ndirs, checks, size, moddir, sub))
            return m is None or [(o, k, n) for (o, b, k, n) in m[0]] != rv
        except Exception:
            return False
    small = ddmin(h, differs, 200)
    return (ndirs, checks, size, moddir, small if differs(small) else h)


def run(ctx):
    reported = set()
    with Real() as real:
        try:
            # constants the model is parameterised by, as the driver sees them
            consts = ask_many(ctx, ["lookup const"])[0]
            ctx.sample({"lookup const (threshold, _check compare, defaults)": consts})
            import mako.util as MU
            thr = MU.LRUCache(1).threshold
            ctx.stream("corr.constants")["cases"] += 1
            num, den = consts.split()[0].split("/")
            if int(num) != thr * int(den):
                ctx.disagree("corr.constants", "LRUCache threshold", consts, thr)
            # corpus: the witnesses of the counterexample theorems
            compare(ctx, "corr.corpus", [(nd, ck, sz, md, dec_hist(h)) for nd, ck, sz, md, h in CORPUS], real, reported)
            # exhaustive short histories: every history of length < L on all 16 configurations (exhaustive over
            # the alphabet), every history of length L on a rotating subset of the configurations
            L = 3 if ctx.quick else 4
            full, part = [], []
            for i, h in enumerate(exhaustive_histories(L)):
                if len(h) < L:
                    full.extend((2, ck, sz, md, h) for ck, sz, md in CONFIGS)
                else:
                    nc = 3
                    part.extend((2,) + CONFIGS[(i + j * 5) % 16] + (h,) for j in range(nc))
            ctx.log("corr.exhaustive: %d cases (length < %d, all configurations); corr.exhaustive_sampled: %d cases "
                    "(length %d, %d configurations each)" % (len(full), L, len(part), L, 3))
            ctx.stream("corr.exhaustive", exhaustive=True)
            ctx.stream("corr.exhaustive_sampled", exhaustive=False)
            for off in range(0, len(full), 5000):
                compare(ctx, "corr.exhaustive", full[off:off + 5000], real, reported)
            for off in range(0, len(part), 5000):
                compare(ctx, "corr.exhaustive_sampled", part[off:off + 5000], real, reported)
            # random histories
            n = 1500 if ctx.quick else 20000
            cases = []
            for i in range(n):
                ndirs = ctx.rng.choice([1, 2, 2, 3])
                nuris = ctx.rng.choice([1, 2, 2, 3, 3, 4, 5, 8])
                ln = ctx.rng.choice([ctx.rng.randint(1, 12), ctx.rng.randint(8, 40)])
                gen = lifecycle_history if i % 2 else random_history
                h = gen(ctx.rng, ndirs, nuris, ln)
                ctx.branch("gen:" + gen.__name__)
                ck, sz, md = CONFIGS[(i // 2) % 16]
                cases.append((ndirs, ck, sz, md, h))
            ctx.log("corr.random: %d histories" % len(cases))
            for off in range(0, len(cases), 2000):
                compare(ctx, "corr.random", cases[off:off + 2000], real, reported)
            ctx.sample({"stream": "corr.random", "case": _case(cases[0])})
        finally:
            ctx.log("sites reported: %s" % sorted(reported))
            mb = sorted(((v, k[6:]) for k, v in ctx.branches.items() if k.startswith("model:")), reverse=True)
            ctx.log("model paths taken (steps): " + ", ".join("%s=%d" % (k, v) for v, k in mb))
            ib = sorted(((v, k[5:]) for k, v in ctx.branches.items() if k.startswith("impl:")), reverse=True)
            ctx.log("implementation results (steps): " + ", ".join("%s=%d" % (k, v) for v, k in ib))


def replay(ctx, data):
    case = data.get("case") or (data.get("first_disagreements") or [{}])[0].get("case")
    print("replaying", case)
    if not isinstance(case, dict) or "input" not in case:
        return False
    h = dec_hist(case["input"])
    cfg = (case.get("ndirs", 1), case.get("filesystem_checks", True), case.get("collection_size", -1),
           case.get("module_directory", False))
    with Real() as real:
        steps = real.run(*cfg, h)
        for op, s in zip(h, steps):
            print("  %-10s -> %-12s keys=%s constructions=%d" % (tok(op), s["out"], s["keys"], s["count"]))
        found = oracle_sites(real, *cfg, h, steps)
        for site, i, detail in found:
            print("  oracle: %s at step %d: %s" % (site, i, detail))
        ok = not found
        try:
            m = parse_model(ask_many(ctx, [model_line(*cfg, h)])[0])
            mv = [(o, k, n) for (o, b, k, n) in m[0]] if m else None
            print("  model agrees with implementation:", mv == real_view(steps))
            if mv != real_view(steps):
                print("  model:", mv)
                ok = False
        except Exception as e:
            print("  model not available:", e)
    return ok


DRIVER_OPS = ["lookup"]   # per-area driver executable(s) this check talks to (built before any worker is forked)
